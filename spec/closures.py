"""C09 / C03 references.  c(gamma, u) outside the core; inside the core (flag set) -1 - gamma.

PY   (e^-u - 1)(1 + gamma)                          Percus & Yevick 1958
HNC  e^(gamma - u) - 1 - gamma                      van Leeuwen, Groeneveld, de Boer 1959
MSA  -u                                             Lebowitz & Percus 1966
MS   the Martynov-Sarkisov relation: either literature form is accepted
        e^(-u + sqrt(1+2 gamma) - 1) - 1 - gamma        (Martynov & Sarkisov 1983, bridge B = sqrt(1+2g)-1-g)
        e^(sqrt(1+2(gamma-u)) - 1) - 1 - gamma          (soft-core variant, Ballone-Pastore-Galli-Gazzillo)
"""
from pv import nf as N

g = N.sym('g')
u = N.sym('u')

REFERENCES = {
    'PercusYevick': [('PY', (N.exp(-u) - 1) * (1 + g))],
    'HyperNettedChain': [('HNC', N.exp(g - u) - 1 - g)],
    'MeanSphericalApproximation': [('MSA', -u)],
    'MartynovSarkisov': [('MS-1983', N.exp(-u + N.sqrt(1 + 2 * g) - 1) - 1 - g),
                         ('MS-softcore', N.exp(N.sqrt(1 + 2 * (g - u)) - 1) - 1 - g)],
}
CORE = -1 - g
# closures for which the statement promises the no-flag hard-core limit (exp(-u) -> 0)
NOFLAG_LIMIT = ('PercusYevick', 'HyperNettedChain')
