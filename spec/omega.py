"""C11 references.

Every chain model is (1/N) sum_{i,j=1..N} w_{|i-j|}(k) with w_0 = 1:

  Gaussian             w_n = E^n,  E = exp(-k^2 sigma^2 / 6)
  FreelyJointedChain   w_n = E^n,  E = sin(k l)/(k l)
  GaussianRing         w_n = exp(-sigma^2 k^2 n (N-n) / (6 N))     (ring: each site sees the same set of n)
  DiscreteKoyama       w_n = koyama kernel(k, n)
  SingleSite           N = 1  ->  1 ;   NoIntra / InterMolecular -> 0

Closed form for w_n = E^n (Gaussian, FJC):
      omega = (1 - E^2 - 2E/N + 2E^(N+1)/N) / (1-E)^2
Derivation checked mechanically on every run (rules/omega.py: `certificate`), by induction on N with
F(N) := N*omega(N) = N + 2 sum_{n=1}^{N-1} (N-n) E^n :
      F(1) = 1,   F(N+1) - F(N) = 1 + 2 sum_{n=1}^{N} E^n = 1 + 2 E (1-E^N)/(1-E)
and the geometric sum S(N) = E(1-E^N)/(1-E):  S(0) = 0,  S(N+1) - S(N) = E^(N+1).

Consequences of the sum form (not re-derived by the checker, listed as mathematics): with |w_n| <= 1 and
w_0 = 1:  |omega| <= N;  w_n -> 1 (k -> 0) gives omega -> N;  w_n -> 0 for n >= 1 (k -> infinity) gives omega -> 1.
"""
from fractions import Fraction as F
from pv import nf as N

k = N.sym('k')
sigma = N.sym('sigma')
l = N.sym('l')
NN = N.isym('N')


def closed_form(E, n=NN):
    return (1 - E * E - 2 * E / n + 2 * E ** (n + 1) / n) / ((1 - E) ** 2)


E_GAUSS = N.exp(-k * k * sigma * sigma / 6)
E_FJC = N.sin(k * l) / (k * l)


def pair_sum(w, n):
    """(1/n) sum_{i,j} w(|i-j|) for a concrete integer n"""
    tot = N.NF.const(0)
    for i in range(n):
        for j in range(n):
            tot = tot + w(abs(i - j))
    return tot / n


def w_gauss(n):
    return E_GAUSS ** n


def w_fjc(n):
    return E_FJC ** n


def w_ring(nchain):
    def w(n):
        return N.exp(-sigma * sigma * k * k * n * (nchain - n) / (6 * nchain))
    return w


def ring_symbolic(var='@i1'):
    i = N.isym(var)
    return N.fn('Sum', var, N.NF.const(0), NN, N.exp(-sigma * sigma * k * k * i * (NN - i) / (6 * NN)))


def lp_min():
    return 4 * l ** 3 / (4 * l ** 2 - sigma ** 2)
