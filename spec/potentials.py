"""C10 references: u(r) as documented in the property statement.

HardSphere            0 for r > sigma, overlap value at and inside sigma
Exponential           -eps * exp(-(r-sigma)/alpha) for r > sigma (sign as pinned by the shipped test and
                      tutorial; the class docstring's '+eps' is a typo, DESIGN 2.3), overlap value inside
HardCoreLennardJones  eps((sigma/r)^12 - 2 (sigma/r)^6) outside, overlap value at and inside sigma
LennardJones          4 eps((sigma/r)^12 - (sigma/r)^6); cut: exactly 0 beyond r_cut; shift: minus u(r_cut)
WeeksChandlerAndersen LJ cut at 2^(1/6) sigma and shifted: = eps (2 (sigma/r)^6 - 1)^2 >= 0 inside the cut
"""
from fractions import Fraction as F
from pv import nf as N
from pv import pw as P

r = N.sym('r')
s = N.sym('sigma')
eps = N.sym('epsilon')
alpha = N.sym('alpha')
high = N.sym('high_value')
rcut = N.sym('rcut')


def lj(rr, ss):
    return 4 * eps * ((ss / rr) ** 12 - (ss / rr) ** 6)


OUT = P.Cond.cmp('>', r, s)

# class name -> list of (flag valuation dict, reference piecewise term)
REFERENCES = {
    'HardSphere': [({}, P.ite(OUT, N.NF.const(0), high))],
    'Exponential': [({}, P.ite(OUT, -eps * N.exp(-(r - s) / alpha), high))],
    'HardCoreLennardJones': [({}, P.ite(OUT, eps * ((s / r) ** 12 - 2 * (s / r) ** 6), high))],
    'LennardJones': [
        ({'rcut': None, 'shift': False}, lj(r, s)),
        ({'rcut': None, 'shift': True}, lj(r, s)),
        ({'rcut': 'sym', 'shift': False}, P.ite(P.Cond.cmp('>', r, rcut), N.NF.const(0), lj(r, s))),
        ({'rcut': 'sym', 'shift': True}, P.ite(P.Cond.cmp('>', r, rcut), N.NF.const(0), lj(r, s) - lj(rcut, s))),
    ],
    'WeeksChandlerAndersen': [
        ({}, P.ite(P.Cond.cmp('>', r, N.const_pow(2, F(1, 6)) * s), N.NF.const(0),
                   eps * (2 * (s / r) ** 6 - 1) ** 2)),
    ],
}
HARD_CORE_FAMILY = ('HardSphere', 'HardCoreLennardJones', 'Exponential')
FLAG_PARAMS = {'LennardJones': {'rcut': [None, 'sym'], 'shift': [False, True]}}
WCA_RCUT = N.const_pow(2, F(1, 6)) * s
WCA_SQUARE = eps * (2 * (s / r) ** 6 - 1) ** 2
