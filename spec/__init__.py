"""Reference terms: transcriptions of the property statements (never of the implementation)."""
