"""C05 references: transcription of the property statement in terms of the PRISM object's fields.

  HF   := PRISM.totalCorr in Fourier space (pair-density scaled h), H_real := toR(HF)
  CF   := PRISM.directCorr in Fourier space
  OmF  := PRISM.omega (site-density scaled intramolecular matrix, Fourier space)
  rho_pair, rho_site := PRISM.sys.density.pair / .site ; kT := PRISM.sys.kT ; k := domain.k

  pair_correlation        H_real + 1
  pmf                     -kT ln(H_real + 1)
  structure_factor        OmF + rho_pair*HF            (normalize: divided entrywise by rho_site)
  second_virial           -HF[a,b](k->0)/2             (extrapolate: quadratic through the 3 lowest k at k=0)
  spinodal_condition      det(I - Om C) of the (a,b) 2x2 block, k->0, for a<b
  chi                     linear in (C_aa, C_bb, C_ab) with weights 1/R : R : -2, R = v_a/v_b, v = pi d^3/6;
                          = (rho_total/2)(C_aa + C_bb - 2 C_ab) for equal site volumes
  solvation_potential     toR[-kT C S C] (HNC) ; toR[-kT ln(1 + C S C)] (PY), S = structure_factor(PRISM)
"""
from fractions import Fraction as F
from pv import nf as N

HF, CF, OmF = N.sym('HF'), N.sym('CF'), N.sym('OmF')
RP, RS, KT, K = N.sym('rho_pair'), N.sym('rho_site'), N.sym('kT'), N.sym('k')
H_REAL = N.fn('toR', HF)


def pair_correlation():
    return H_REAL + 1


def pmf():
    return -KT * N.log(H_REAL + 1)


def structure_factor(normalize):
    s = OmF + RP * HF
    return s / RS if normalize else s


def sl3(ip, t):
    return ip.slice_of(t, ('slice', 0, 3))


def extrap0(ip, y):
    return N.fn('polyfit_eval', sl3(ip, K), sl3(ip, y), N.NF.const(2), N.NF.const(0))


def ent(ip, s, a, b):
    return ip.entry_of(s, a, b)


def second_virial(ip, a, b, extrapolate):
    y = -F(1, 2) * ent(ip, HF, a, b)
    if extrapolate:
        return extrap0(ip, y)
    return ip.slice_of(y, ('at', 0))


def det_block(ip, a, b):
    W = lambda i, j: ent(ip, OmF, i, j)
    C = lambda i, j: ent(ip, CF, i, j)
    oc_aa = W(a, a) * C(a, a) + W(a, b) * C(b, a)
    oc_ab = W(a, a) * C(a, b) + W(a, b) * C(b, b)
    oc_ba = W(b, a) * C(a, a) + W(b, b) * C(b, a)
    oc_bb = W(b, a) * C(a, b) + W(b, b) * C(b, b)
    return (1 - oc_aa) * (1 - oc_bb) - oc_ab * oc_ba


def spinodal(ip, a, b):
    return extrap0(ip, det_block(ip, a, b))


def csc():
    s = structure_factor(True)
    return N.fn('dot', N.fn('dot', CF, s), CF)


def solvation(closure):
    if closure == 'HNC':
        return N.fn('toR', -KT * csc())
    return N.fn('toR', -KT * N.log(1 + csc()))
