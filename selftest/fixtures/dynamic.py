# positive control for R00.dyn: every construct below must be reported
class Leaky(object):
    def __getattr__(self, name):
        return 0

    def poke(self, other, name, v):
        setattr(other, name, v)
        exec('x = 1')
        return eval('x')
