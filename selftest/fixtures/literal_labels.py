# positive control for R04.c: every line below must be reported
def f(table, marray, t1):
    a = table['A', 'B']
    b = marray.data[:, 0, 1]
    if t1 == 'A':
        return a
    return b
