#!/venv/bin/python
"""Regression over /verif/twins/*: independently written behaviour-preserving refactorings.  Every registered check must
stay silent (exit 0) on each, except the (check, twin) pairs listed in that twin's meta.json `undecided_ok` (exit 2:
the refactoring uses a construct outside the analysed fragment -- never exit 1)."""
import json, os, shutil, subprocess, sys, tempfile
from concurrent.futures import ThreadPoolExecutor
HERE = os.path.dirname(os.path.abspath(__file__))
VERIF = os.path.dirname(HERE)
PY = '/venv/bin/python'


def props():
    return [c['property_id'] for c in json.load(open(os.path.join(VERIF, 'MANIFEST.json')))['checks']]


def run_twin(name, prop=None):
    d = os.path.join(VERIF, 'twins', name)
    meta = json.load(open(os.path.join(d, 'meta.json')))
    tmp = tempfile.mkdtemp(prefix='tw.', dir='/var/tmp')
    try:
        shutil.copytree('/repo/pyPRISM', os.path.join(tmp, 'pyPRISM'), ignore=shutil.ignore_patterns('__pycache__', '*.so', '*.c'))
        p = subprocess.run(['git', 'apply', '--whitespace=nowarn', os.path.join(d, 'patch.diff')], cwd=tmp, capture_output=True, text=True)
        if p.returncode:
            return name, True, 'patch no longer applies (skipped)'
        bad = []
        for pid in ([prop] if prop else meta.get('relevant', props())):
            q = subprocess.run([PY, os.path.join(VERIF, 'check'), pid, '--repo', tmp, '--no-evidence'], capture_output=True, text=True, timeout=900)
            if q.returncode == 1 or (q.returncode == 2 and pid not in meta.get('undecided_ok', [])):
                bad.append('%s exit %d' % (pid, q.returncode))
        return name, not bad, ', '.join(bad) or 'silent'
    finally:
        shutil.rmtree(tmp, ignore_errors=True)


def run_all(only=None, prop=None, jobs=8):
    root = os.path.join(VERIF, 'twins')
    names = sorted(n for n in os.listdir(root) if os.path.exists(os.path.join(root, n, 'meta.json'))) if os.path.isdir(root) else []
    if only:
        names = [n for n in names if only in n]
    if prop:
        names = [n for n in names if prop in json.load(open(os.path.join(root, n, 'meta.json'))).get('relevant', [prop])]
    with ThreadPoolExecutor(jobs) as ex:
        return list(ex.map(lambda n: run_twin(n, prop), names))


if __name__ == '__main__':
    import argparse
    ap = argparse.ArgumentParser(); ap.add_argument('--only'); ap.add_argument('--prop')
    a = ap.parse_args()
    res = run_all(a.only, a.prop)
    for n, g, msg in res:
        if not g:
            print('%-40s ALARM %s' % (n, msg))
    print('%d/%d independently written refactorings leave every check silent' % (sum(1 for _, g, _ in res if g), len(res)))
    sys.exit(0 if all(g for _, g, _ in res) else 1)
