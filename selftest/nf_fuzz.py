#!/venv/bin/python
"""Cross-check of the canonicaliser pv/nf.py (the trusted core of every formula rule).

Random expression trees over positive symbols are (a) built through the NF constructors and evaluated with
nf.evalf, (b) evaluated directly in double precision from the tree.  The two must agree (soundness of the
rewrites).  In addition each tree is paired with an algebraically equal rewriting (must be `.equals`) and with
a perturbed tree (must not be `.equals`) -- the two directions of the equality test.  With sympy available
(zip-imported from the wheelhouse) a sample of the pairs is also decided by sympy.simplify as a third opinion.

This validates the *checker*; no verdict about /repo depends on it.  A disagreement is an ANALYSIS-ERROR.
usage: nf_fuzz.py [--seed S] [--n N] [--sympy]
"""
import math
import os
import random
import sys
from fractions import Fraction

HERE = os.path.dirname(os.path.abspath(__file__))
sys.path.insert(0, os.path.dirname(HERE))
sys.dont_write_bytecode = True
from pv import nf as N   # noqa

SYMS = ['a', 'b', 'c', 'd', 's', 't']     # s, t are *signed* (declared below); the others positive (assumption A4)
SIGNED = ('s', 't')
for _n in SIGNED:
    N.declare_signed(_n)
CONSTS = [Fraction(1), Fraction(2), Fraction(3), Fraction(1, 2), Fraction(5, 4), Fraction(-1), Fraction(7, 3),
          Fraction(1, 10), Fraction(12), Fraction(6)]
POWS = [Fraction(2), Fraction(3), Fraction(-1), Fraction(1, 2), Fraction(-2), Fraction(1, 3), Fraction(6), Fraction(12),
        Fraction(-1, 2), Fraction(3, 2), Fraction(1, 6)]


def gen(rng, depth):
    if depth == 0 or rng.random() < 0.2:
        if rng.random() < 0.6:
            return ('sym', rng.choice(SYMS))
        if rng.random() < 0.1:
            return ('pi',)
        return ('const', rng.choice(CONSTS))
    k = rng.random()
    if k < 0.25:
        return ('add', gen(rng, depth - 1), gen(rng, depth - 1))
    if k < 0.35:
        return ('sub', gen(rng, depth - 1), gen(rng, depth - 1))
    if k < 0.6:
        return ('mul', gen(rng, depth - 1), gen(rng, depth - 1))
    if k < 0.72:
        return ('div', gen(rng, depth - 1), gen(rng, depth - 1))
    if k < 0.86:
        q = rng.choice(POWS)
        # large integer powers only on shallow bases: (expm1(c)/..)**12 expands into hundreds of cancelling
        # terms whose double-precision evaluation is ill-conditioned (a property of floats, not of the rewrites)
        return ('pow', gen(rng, 0 if abs(q) > 3 else depth - 1), q)
    f = rng.choice(['exp', 'sqrt', 'sin', 'cos', 'log', 'neg', 'expm1', 'log1p'])
    return (f, gen(rng, depth - 1))


class Bad(Exception):
    pass


def ev(t, env):
    k = t[0]
    try:
        if k == 'sym':
            return env[t[1]]
        if k == 'pi':
            return math.pi
        if k == 'const':
            return float(t[1])
        if k in ('add', 'sub', 'mul', 'div'):
            x, y = ev(t[1], env), ev(t[2], env)
            if k == 'add':
                return x + y
            if k == 'sub':
                return x - y
            if k == 'mul':
                return x * y
            if abs(y) < 1e-9:
                raise Bad()
            return x / y
        if k == 'pow':
            x = ev(t[1], env)
            q = t[2]
            if q.denominator != 1 and x <= 1e-9:
                raise Bad()
            if q < 0 and abs(x) < 1e-9:
                raise Bad()
            return x ** float(q)
        x = ev(t[1], env)
        if k == 'neg':
            return -x
        if k == 'exp':
            if x > 40:
                raise Bad()
            return math.exp(x)
        if k == 'expm1':
            if x > 40:
                raise Bad()
            return math.expm1(x)
        if k == 'sqrt':
            if x <= 1e-9:
                raise Bad()
            return math.sqrt(x)
        if k == 'log':
            if x <= 1e-9:
                raise Bad()
            return math.log(x)
        if k == 'log1p':
            if x <= -1 + 1e-9:
                raise Bad()
            return math.log1p(x)
        if k == 'sin':
            return math.sin(x)
        if k == 'cos':
            return math.cos(x)
    except (OverflowError, ValueError, ZeroDivisionError):
        raise Bad()
    raise AssertionError(k)


def build(t):
    k = t[0]
    if k == 'sym':
        return N.sym(t[1])
    if k == 'pi':
        return N.PI
    if k == 'const':
        return N.NF.const(t[1])
    if k == 'add':
        return build(t[1]) + build(t[2])
    if k == 'sub':
        return build(t[1]) - build(t[2])
    if k == 'mul':
        return build(t[1]) * build(t[2])
    if k == 'div':
        return build(t[1]) / build(t[2])
    if k == 'pow':
        return N.nf_pow(build(t[1]), N.NF.const(t[2]))
    x = build(t[1])
    if k == 'neg':
        return -x
    if k == 'exp':
        return N.exp(x)
    if k == 'expm1':
        return N.exp(x) - 1
    if k == 'sqrt':
        return N.sqrt(x)
    if k == 'log':
        return N.log(x)
    if k == 'log1p':
        return N.log(x + 1)
    if k == 'sin':
        return N.sin(x)
    if k == 'cos':
        return N.cos(x)
    raise AssertionError(k)


def rewrite(rng, t):
    """an algebraically equal tree (over the positive reals)"""
    k = t[0]
    if k in ('sym', 'pi', 'const'):
        c = rng.choice(CONSTS)
        return ('sub', ('add', t, ('const', c)), ('const', c))
    if k == 'mul':
        a, b = rewrite(rng, t[1]), t[2]
        if b[0] == 'add':
            return ('add', ('mul', a, b[1]), ('mul', b[2], a))
        return ('mul', b, a)
    if k == 'add':
        return ('add', rewrite(rng, t[2]), t[1])
    if k == 'sub':
        return ('add', ('neg', t[2]), rewrite(rng, t[1]))
    if k == 'div':
        return ('mul', t[1], ('pow', rewrite(rng, t[2]), Fraction(-1)))
    if k == 'pow':
        q = t[2]
        if q == 2:
            return ('mul', t[1], rewrite(rng, t[1]))
        if q == 3:
            return ('mul', t[1], ('mul', t[1], t[1]))
        if q == -1:
            return ('div', ('const', Fraction(1)), rewrite(rng, t[1]))
        if q == Fraction(1, 2):
            return ('sqrt', rewrite(rng, t[1]))
        return ('pow', rewrite(rng, t[1]), q)
    if k == 'exp' and t[1][0] == 'add':
        return ('mul', ('exp', t[1][1]), ('exp', t[1][2]))
    if k == 'exp' and t[1][0] == 'sub':
        return ('div', ('exp', t[1][1]), ('exp', t[1][2]))
    if k == 'expm1':
        return ('sub', ('exp', rewrite(rng, t[1])), ('const', Fraction(1)))
    if k == 'neg':
        return ('mul', ('const', Fraction(-1)), rewrite(rng, t[1]))
    return (k, rewrite(rng, t[1]))


def perturb(rng, t):
    c = rng.choice([Fraction(1, 1000), Fraction(-1, 7), Fraction(1)])
    return ('add', t, ('mul', ('const', c), ('sym', rng.choice(SYMS))))


def to_sympy(t, sp, S):
    k = t[0]
    if k == 'sym':
        return S[t[1]]
    if k == 'pi':
        return sp.pi
    if k == 'const':
        return sp.Rational(t[1].numerator, t[1].denominator)
    if k == 'add':
        return to_sympy(t[1], sp, S) + to_sympy(t[2], sp, S)
    if k == 'sub':
        return to_sympy(t[1], sp, S) - to_sympy(t[2], sp, S)
    if k == 'mul':
        return to_sympy(t[1], sp, S) * to_sympy(t[2], sp, S)
    if k == 'div':
        return to_sympy(t[1], sp, S) / to_sympy(t[2], sp, S)
    if k == 'pow':
        return to_sympy(t[1], sp, S) ** sp.Rational(t[2].numerator, t[2].denominator)
    x = to_sympy(t[1], sp, S)
    return {'neg': lambda: -x, 'exp': lambda: sp.exp(x), 'expm1': lambda: sp.exp(x) - 1, 'sqrt': lambda: sp.sqrt(x),
            'log': lambda: sp.log(x), 'log1p': lambda: sp.log(1 + x), 'sin': lambda: sp.sin(x),
            'cos': lambda: sp.cos(x)}[k]()


def close(x, y):
    return abs(x - y) <= 1e-6 * max(1.0, abs(x), abs(y))


def run(seed=0, n=400, use_sympy=False, depth=4):
    rng = random.Random(seed)
    stats = {'trees': 0, 'evaluated': 0, 'equal_pairs': 0, 'unequal_pairs': 0, 'incomplete': 0, 'skipped_domain': 0,
             'sympy_agreed': 0, 'disagreements': []}
    sp = S = None
    if use_sympy:
        try:
            import glob
            for pat in ('sympy-*.whl', 'mpmath-*.whl'):
                for w in glob.glob('/opt/veriftools/wheels/' + pat):
                    sys.path.insert(0, w)
            import sympy as sp
            S = {s: (sp.Symbol(s, positive=True) if s not in SIGNED else sp.Symbol(s, real=True)) for s in SYMS}
        except Exception as e:   # pragma: no cover
            stats['sympy_unavailable'] = str(e)
            sp = None
    while stats['trees'] < n:
        t = gen(rng, depth)
        stats['trees'] += 1
        envs = [{s: (rng.uniform(0.3, 2.5) if s not in SIGNED else rng.choice([-1, 1]) * rng.uniform(0.3, 2.5)) for s in SYMS} for _ in range(3)]
        try:
            direct = [ev(t, e) for e in envs]
            if any(abs(v) > 1e12 for v in direct):
                raise Bad()
        except Bad:
            stats['skipped_domain'] += 1
            continue
        try:
            x = build(t)
            t2 = rewrite(rng, t)
            x2 = build(t2)
            t3 = perturb(rng, t)
            x3 = build(t3)
        except N.Incomplete:
            stats['incomplete'] += 1
            continue
        except ZeroDivisionError:
            stats['skipped_domain'] += 1
            continue
        try:
            for e, v in zip(envs, direct):
                w = N.evalf(x, e)
                if not close(v, w):
                    stats['disagreements'].append({'kind': 'value', 'tree': repr(t), 'direct': v, 'nf': w, 'shown': N.show(x)})
                    break
            stats['evaluated'] += 1
        except (N.Incomplete, OverflowError, ValueError, ZeroDivisionError):
            stats['incomplete'] += 1
        # equality direction 1: rewriting must be recognised (when its own evaluation is in the domain)
        try:
            d2 = [ev(t2, e) for e in envs]
            if all(close(a, b) for a, b in zip(direct, d2)):
                if x.equals(x2):
                    stats['equal_pairs'] += 1
                else:
                    # incompleteness is allowed only outside the complete fragment; record it, it is not unsound
                    stats.setdefault('unrecognised_equalities', []).append(repr(t)[:200])
        except Bad:
            pass
        # equality direction 2: a perturbed term must never be reported equal
        if x.equals(x3):
            stats['disagreements'].append({'kind': 'unsound-equality', 'tree': repr(t), 'perturbed': repr(t3)})
        else:
            stats['unequal_pairs'] += 1
        if sp is not None and stats['sympy_agreed'] < 40 and rng.random() < 0.3:
            try:
                e1, e2 = to_sympy(t, sp, S), to_sympy(t2, sp, S)
                pt = {S[s]: sp.Rational(rng.randint(3, 25), 10) * (1 if s not in SIGNED else rng.choice([-1, 1])) for s in SYMS}
                v1, v2 = complex(sp.N(e1.subs(pt))), complex(sp.N(e2.subs(pt)))
                same = abs(v1 - v2) <= 1e-7 * max(1, abs(v1))
                if same != x.equals(x2) and same:
                    stats.setdefault('unrecognised_equalities', []).append('sympy: ' + repr(t)[:200])
                elif same != x.equals(x2):
                    stats['disagreements'].append({'kind': 'sympy-says-different', 'tree': repr(t)})
                else:
                    stats['sympy_agreed'] += 1
            except Exception:
                pass
    stats['unrecognised_equalities'] = len(stats.get('unrecognised_equalities', [])) if isinstance(stats.get('unrecognised_equalities'), list) else 0
    return stats


if __name__ == '__main__':
    import argparse
    import json
    ap = argparse.ArgumentParser()
    ap.add_argument('--seed', type=int, default=int(os.environ.get('VERIF_SEED', '0') or 0))
    ap.add_argument('--n', type=int, default=400)
    ap.add_argument('--sympy', action='store_true')
    a = ap.parse_args()
    st = run(a.seed, a.n, a.sympy)
    print(json.dumps(st, indent=1, default=str)[:4000])
    sys.exit(2 if st['disagreements'] else 0)
