#!/venv/bin/python
"""Regression over /verif/seeded/*: apply each kept change to a scratch copy of /repo (under /var/tmp, removed
afterwards) and require that every check listed in its meta.json `caught_by` still exits 1 on it, and that the
clean copy is silent.  usage: seeded.py [--only NAME] [--prop Cxx] [--jobs N]"""
import argparse, json, os, shutil, subprocess, sys, tempfile
from concurrent.futures import ThreadPoolExecutor
HERE = os.path.dirname(os.path.abspath(__file__))
VERIF = os.path.dirname(HERE)
PY = '/venv/bin/python'


def run_seed(name, prop=None, repo='/repo'):
    d = os.path.join(VERIF, 'seeded', name)
    meta = json.load(open(os.path.join(d, 'meta.json')))
    want = [p for p in meta.get('caught_by', []) if prop is None or p == prop]
    und = [p for p in meta.get('undecided_by', []) if (prop is None or p == prop) and p not in want] if not meta.get('caught_by') else []
    if not want and not und:
        return name, True, 'nothing expected'
    tmp = tempfile.mkdtemp(prefix='sd.', dir='/var/tmp')
    try:
        shutil.copytree(os.path.join(repo, 'pyPRISM'), os.path.join(tmp, 'pyPRISM'),
                        ignore=shutil.ignore_patterns('__pycache__', '*.so', '*.c'))
        p = subprocess.run(['git', 'apply', '--whitespace=nowarn', os.path.join(d, 'patch.diff')], cwd=tmp, capture_output=True, text=True)
        if p.returncode != 0:
            return name, False, 'patch no longer applies: ' + p.stderr[-300:]
        bad = []
        for pid in want:
            q = subprocess.run([PY, os.path.join(VERIF, 'check'), pid, '--repo', tmp, '--no-evidence'], capture_output=True, text=True, timeout=900)
            if q.returncode != 1:
                bad.append('%s exit %d' % (pid, q.returncode))
        # a change no check decides must at least stay undecided for the property it was seeded under (never a silent pass)
        und = [p for p in und if p == meta.get('property')] or und[:1]
        for pid in und:
            q = subprocess.run([PY, os.path.join(VERIF, 'check'), pid, '--repo', tmp, '--no-evidence'], capture_output=True, text=True, timeout=900)
            if q.returncode == 0:
                bad.append('%s exit 0 (recorded as undecided: the check now passes silently)' % pid)
        return name, not bad, ', '.join(bad) or ('caught by ' + ','.join(want) if want else 'still undecided by ' + ','.join(und))
    finally:
        shutil.rmtree(tmp, ignore_errors=True)


def run_all(only=None, prop=None, jobs=16):
    root = os.path.join(VERIF, 'seeded')
    names = sorted(n for n in os.listdir(root) if os.path.exists(os.path.join(root, n, 'meta.json'))) if os.path.isdir(root) else []
    if only:
        names = [n for n in names if only in n]
    with ThreadPoolExecutor(jobs) as ex:
        return list(ex.map(lambda n: run_seed(n, prop), names))


if __name__ == '__main__':
    ap = argparse.ArgumentParser()
    ap.add_argument('--only'); ap.add_argument('--prop'); ap.add_argument('--jobs', type=int, default=16)
    a = ap.parse_args()
    res = run_all(a.only, a.prop, a.jobs)
    ok = sum(1 for _, g, _ in res if g)
    for n, g, msg in res:
        print('%-28s %s  %s' % (n, 'ok  ' if g else 'MISS', msg))
    print('%d/%d seeded changes detected as recorded' % (ok, len(res)))
    sys.exit(0 if ok == len(res) else 1)
