#!/venv/bin/python
"""Self-test of the checker: mutants must be reported (exit 1, naming the rule), twins must stay silent.

Each case is a textual edit of one file of the package, applied to a scratch copy of /repo/pyPRISM
under /var/tmp (removed afterwards).  usage: run.py [--jobs N] [--only ID-substring] [--prop Cxx]
"""
import os
import sys
import json
import shutil
import tempfile
import subprocess
import argparse
from concurrent.futures import ThreadPoolExecutor

HERE = os.path.dirname(os.path.abspath(__file__))
VERIF = os.path.dirname(HERE)
sys.path.insert(0, HERE)
sys.dont_write_bytecode = True
from cases import CASES   # noqa


def run_case(case, repo):
    tmp = tempfile.mkdtemp(prefix='pv.', dir='/var/tmp')
    try:
        shutil.copytree(os.path.join(repo, 'pyPRISM'), os.path.join(tmp, 'pyPRISM'),
                        ignore=shutil.ignore_patterns('__pycache__', '*.so', '*.c', 'test'))
        for path, old, new in case['edits']:
            fp = os.path.join(tmp, path)
            src = open(fp).read()
            if src.count(old) != 1:
                return case, 'STALE', 'snippet occurs %d times in %s' % (src.count(old), path)
            open(fp, 'w').write(src.replace(old, new))
        out = []
        worst = 0
        for prop in case['props']:
            p = subprocess.run(['/venv/bin/python', os.path.join(VERIF, 'check'), prop, '--repo', tmp, '--no-evidence'],
                               capture_output=True, text=True, timeout=300)
            out.append((prop, p.returncode, p.stdout + p.stderr[-1000:]))
        return case, 'RAN', out
    finally:
        shutil.rmtree(tmp, ignore_errors=True)


def main():
    ap = argparse.ArgumentParser()
    ap.add_argument('--jobs', type=int, default=16)
    ap.add_argument('--only')
    ap.add_argument('--prop')
    ap.add_argument('--repo', default='/repo')
    ap.add_argument('-v', action='store_true')
    args = ap.parse_args()
    cases = [c for c in CASES if (not args.only or args.only in c['id']) and (not args.prop or args.prop in c['props'])]
    ok = 0
    failed = []
    with ThreadPoolExecutor(args.jobs) as ex:
        for case, status, out in ex.map(lambda c: run_case(c, args.repo), cases):
            if status == 'STALE':
                failed.append((case['id'], 'STALE: ' + out))
                continue
            want = 1 if case['kind'] == 'mutant' else 0
            good = True
            msgs = []
            for prop, rc, text in out:
                if case['kind'] == 'mutant':
                    hit = rc == 1 and (not case.get('rule') or any(
                        l.startswith('VIOLATION ') and len(l.split()) > 1 and l.split()[1] == case['rule']
                        for l in text.splitlines()))
                    if not hit:
                        good = False
                        msgs.append('%s exit %d (wanted VIOLATION %s)' % (prop, rc, case.get('rule')))
                else:
                    if rc != 0:
                        good = False
                        msgs.append('%s exit %d on a behaviour-preserving twin' % (prop, rc))
                if args.v or not good:
                    msgs.append(text[-1500:])
            if good:
                ok += 1
            else:
                failed.append((case['id'], '\n'.join(msgs)))
    print('%d/%d cases behave as expected' % (ok, len(cases)))
    for cid, msg in failed:
        print('FAILED %s\n%s\n' % (cid, msg))
    return 0 if not failed else 1


if __name__ == '__main__':
    sys.exit(main())
