"""Mutants (must be reported) and twins (must stay silent).  Every entry: id, kind, props to run,
rule expected to fire (mutants), edits = [(file, old snippet, new snippet)]."""
CASES = []


def mutant(cid, props, rule, path, old, new):
    CASES.append({'id': cid, 'kind': 'mutant', 'props': props if isinstance(props, list) else [props],
                  'rule': rule, 'edits': [(path, old, new)]})


def twin(cid, props, path, old, new):
    CASES.append({'id': cid, 'kind': 'twin', 'props': props if isinstance(props, list) else [props],
                  'rule': None, 'edits': [(path, old, new)]})


def mutantN(cid, props, rule, edits):
    CASES.append({'id': cid, 'kind': 'mutant', 'props': props if isinstance(props, list) else [props],
                  'rule': rule, 'edits': edits})


def twinN(cid, props, edits):
    CASES.append({'id': cid, 'kind': 'twin', 'props': props if isinstance(props, list) else [props],
                  'rule': None, 'edits': edits})


D = 'pyPRISM/core/Density.py'
mutant('C15-site-offdiag', 'C15', 'R15.f', D, 'self.site[t1,t2] = [rho1 + rho2]', 'self.site[t1,t2] = [rho1]')
mutant('C15-pair-sum', 'C15', 'R15.f', D, 'self.pair[t1,t2] = [rho1*rho2]', 'self.pair[t1,t2] = [rho1+rho2]')
mutant('C15-total-hoist', 'C15', 'R15.t', D,
       "        for t1 in self.density.listify(types1):\n            rho1 = value\n            self.density[t1] = rho1\n\n            self.total = 0.",
       "        self.total = 0.\n        for t1 in self.density.listify(types1):\n            rho1 = value\n            self.density[t1] = rho1\n")
mutant('C15-total-noreset', 'C15', 'R15.f', D, '            self.total = 0.\n', '')
mutant('C15-order', 'C15', 'R15.f', D,
       "            self.density[t1] = rho1\n\n            self.total = 0.\n            for t2 in self.types:",
       "            self.total = 0.\n            for t2 in self.types:")
twin('C15-twin-rename', 'C15', D, 'rho1 = value', 'rho1 = value * 1.0')
DI = 'pyPRISM/core/Diameter.py'
mutant('C15-sigma-product', 'C15', 'R15.s', DI, '(d1 + d2)/2.0', '(d1 * d2)/2.0')
mutant('C15-volume', 'C15', 'R15.s', DI, '(4.0/3.0) * np.pi * (d1/2.0)**(3.0)', '(4.0/3.0) * np.pi * (d1)**(3.0)')
twin('C15-twin-volume', 'C15', DI, '(4.0/3.0) * np.pi * (d1/2.0)**(3.0)', 'np.pi * d1**3 / 6.0')

FA = 'pyPRISM/omega/FromArray.py'
mutant('C12-asarray', 'C12', 'R12.c', FA, 'self.value = np.array(omega)', 'self.value = np.asarray(omega)')
mutant('C12-no-allclose', 'C12', 'R12.g', FA, "            assert np.allclose(self.k,k),'File k-values differ from domain!'\n", '')
mutant('C12-rtol', 'C12', 'R12.g', FA, 'np.allclose(self.k,k)', 'np.allclose(self.k,k,rtol=0.1)')
mutant('C12-no-len', 'C12', 'R12.g', FA, "        assert self.value.shape[0] == k.shape[0],'Size of array differs from domain!'\n", '')
mutant('C12-slice', 'C12', 'R12.i', FA, '        return self.value', '        return self.value[:k.shape[0]]')
twin('C12-twin-raise', 'C12', FA, "        assert self.value.shape[0] == k.shape[0],'Size of array differs from domain!'",
     "        if self.value.shape[0] != k.shape[0]:\n            raise ValueError('Size of array differs from domain!')")
twin('C12-twin-argorder', 'C12', FA, 'np.allclose(self.k,k)', 'np.allclose(k,self.k)')
FF = 'pyPRISM/omega/FromFile.py'
mutant('C12-file-col', 'C12', 'R12.f', FF, 'self.value = fileData[:,1]', 'self.value = fileData[:,0]')
mutant('C12-file-noguard', 'C12', 'R12.f', FF, "            assert np.allclose(fileData[:,0],k),'Domain of file differs from supplied domain!'\n", '')
PT = 'pyPRISM/core/PairTable.py'
mutant('C12-export-noguard', 'C12', 'R12.e', PT, "        if not len(set(lengths))<=1:\n            raise ValueError('Arrays in Table are not all the same length. Aborting export.')\n", '')
mutantN('C14-hoist-copy', 'C14', 'R14.c', [
    (PT, "                value_copy = copy.deepcopy(value) \n", "                pass\n"),
    (PT, "        types1,types2 = index\n", "        types1,types2 = index\n        value_copy = copy.deepcopy(value)\n")])
mutant('C14-raw-value', 'C14', 'R14.c', PT, 'value_copy = copy.deepcopy(value) ', 'value_copy = value')
mutant('C14-no-mirror', 'C14', 'R14.m', PT, "                if self.symmetric and t1!=t2:\n                    self.values[t2][t1] = value_copy\n", '')
mutant('C14-mirror-always', 'C14', 'R14.m', PT, 'if self.symmetric and t1!=t2:', 'if t1!=t2:')
mutant('C14-setunset-overwrite', 'C14', 'R14.u', PT, "            if v is None:\n                self[t1,t2] = value", "            if v is not None:\n                self[t1,t2] = value")
mutant('C14-check-skip-diag', 'C14', 'R14.k', PT, "        for i,t,val in self.iterpairs():\n            if val is None:\n                raise ValueError('PairTable {} is not fully specified!'",
       "        for i,t,val in self.iterpairs(diagonal=False):\n            if val is None:\n                raise ValueError('PairTable {} is not fully specified!'")
mutant('C14-iterpairs-lt', 'C14', 'R14.i', PT, "            test = lambda i,j: i<=j", "            test = lambda i,j: i<j")
mutant('C14-apply-writes-self', 'C14', 'R14.a', PT, "            table = PairTable(types=self.types,name=self.name,symmetric=self.symmetric)", "            table = self")
twin('C14-twin-mirror-order', 'C14', PT, 'if self.symmetric and t1!=t2:', 'if t1!=t2 and self.symmetric:')
TB = 'pyPRISM/core/Table.py'
mutant('C14-listify-str', 'C14', 'R14.l', TB, "        if isinstance(values,str):\n            values = [values]\n        else:\n            try:", "        if False:\n            values = [values]\n        else:\n            try:")
