"""Mutants (must be reported) and twins (must stay silent).  Every entry: id, kind, props to run,
rule expected to fire (mutants), edits = [(file, old snippet, new snippet)]."""
CASES = []


def mutant(cid, props, rule, path, old, new):
    CASES.append({'id': cid, 'kind': 'mutant', 'props': props if isinstance(props, list) else [props],
                  'rule': rule, 'edits': [(path, old, new)]})


def twin(cid, props, path, old, new):
    CASES.append({'id': cid, 'kind': 'twin', 'props': props if isinstance(props, list) else [props],
                  'rule': None, 'edits': [(path, old, new)]})


def mutantN(cid, props, rule, edits):
    CASES.append({'id': cid, 'kind': 'mutant', 'props': props if isinstance(props, list) else [props],
                  'rule': rule, 'edits': edits})


def twinN(cid, props, edits):
    CASES.append({'id': cid, 'kind': 'twin', 'props': props if isinstance(props, list) else [props],
                  'rule': None, 'edits': edits})


D = 'pyPRISM/core/Density.py'
mutant('C15-site-offdiag', 'C15', 'R15.f', D, 'self.site[t1,t2] = [rho1 + rho2]', 'self.site[t1,t2] = [rho1]')
mutant('C15-pair-sum', 'C15', 'R15.f', D, 'self.pair[t1,t2] = [rho1*rho2]', 'self.pair[t1,t2] = [rho1+rho2]')
mutant('C15-total-hoist', 'C15', 'R15.f', D,
       "        for t1 in self.density.listify(types1):\n            rho1 = value\n            self.density[t1] = rho1\n\n            self.total = 0.",
       "        self.total = 0.\n        for t1 in self.density.listify(types1):\n            rho1 = value\n            self.density[t1] = rho1\n")
mutant('C15-total-noreset', 'C15', 'R15.f', D, '            self.total = 0.\n', '')
mutant('C15-order', 'C15', 'R15.f', D,
       "            self.density[t1] = rho1\n\n            self.total = 0.\n            for t2 in self.types:",
       "            self.total = 0.\n            for t2 in self.types:")
twin('C15-twin-rename', 'C15', D, 'rho1 = value', 'rho1 = value * 1.0')
DI = 'pyPRISM/core/Diameter.py'
mutant('C15-sigma-product', 'C15', 'R15.s', DI, '(d1 + d2)/2.0', '(d1 * d2)/2.0')
mutant('C15-volume', 'C15', 'R15.s', DI, '(4.0/3.0) * np.pi * (d1/2.0)**(3.0)', '(4.0/3.0) * np.pi * (d1)**(3.0)')
twin('C15-twin-volume', 'C15', DI, '(4.0/3.0) * np.pi * (d1/2.0)**(3.0)', 'np.pi * d1**3 / 6.0')

FA = 'pyPRISM/omega/FromArray.py'
mutant('C12-asarray', 'C12', 'R12.c', FA, 'self.value = np.array(omega)', 'self.value = np.asarray(omega)')
mutant('C12-no-allclose', 'C12', 'R12.g', FA, "            assert np.allclose(self.k,k),'File k-values differ from domain!'\n", '')
mutant('C12-rtol', 'C12', 'R12.g', FA, 'np.allclose(self.k,k)', 'np.allclose(self.k,k,rtol=0.1)')
mutant('C12-no-len', 'C12', 'R12.g', FA, "        assert self.value.shape[0] == k.shape[0],'Size of array differs from domain!'\n", '')
mutant('C12-slice', 'C12', 'R12.i', FA, '        return self.value', '        return self.value[:k.shape[0]]')
twin('C12-twin-raise', 'C12', FA, "        assert self.value.shape[0] == k.shape[0],'Size of array differs from domain!'",
     "        if self.value.shape[0] != k.shape[0]:\n            raise ValueError('Size of array differs from domain!')")
twin('C12-twin-argorder', 'C12', FA, 'np.allclose(self.k,k)', 'np.allclose(k,self.k)')
FF = 'pyPRISM/omega/FromFile.py'
mutant('C12-file-col', 'C12', 'R12.f', FF, 'self.value = fileData[:,1]', 'self.value = fileData[:,0]')
mutant('C12-file-noguard', 'C12', 'R12.f', FF, "            assert np.allclose(fileData[:,0],k),'Domain of file differs from supplied domain!'\n", '')
PT = 'pyPRISM/core/PairTable.py'
mutant('C12-export-noguard', 'C12', 'R12.e', PT, "        if not len(set(lengths))<=1:\n            raise ValueError('Arrays in Table are not all the same length. Aborting export.')\n", '')
mutantN('C14-hoist-copy', 'C14', 'R14.c', [
    (PT, "                value_copy = copy.deepcopy(value) \n", "                pass\n"),
    (PT, "        types1,types2 = index\n", "        types1,types2 = index\n        value_copy = copy.deepcopy(value)\n")])
mutant('C14-raw-value', 'C14', 'R14.c', PT, 'value_copy = copy.deepcopy(value) ', 'value_copy = value')
mutant('C14-no-mirror', 'C14', 'R14.c', PT, "                if self.symmetric and t1!=t2:\n                    self.values[t2][t1] = value_copy\n", '')
mutant('C14-mirror-always', 'C14', 'R14.c', PT, 'if self.symmetric and t1!=t2:', 'if t1!=t2:')
mutant('C14-setunset-overwrite', 'C14', 'R14.u', PT, "            if v is None:\n                self[t1,t2] = value", "            if v is not None:\n                self[t1,t2] = value")
mutant('C14-check-skip-diag', 'C14', 'R14.k', PT, "        for i,t,val in self.iterpairs():\n            if val is None:\n                raise ValueError('PairTable {} is not fully specified!'",
       "        for i,t,val in self.iterpairs(diagonal=False):\n            if val is None:\n                raise ValueError('PairTable {} is not fully specified!'")
mutant('C14-iterpairs-lt', 'C14', 'R14.i', PT, "            test = lambda i,j: i<=j", "            test = lambda i,j: i<j")
mutant('C14-apply-writes-self', 'C14', 'R14.a', PT, "            table = PairTable(types=self.types,name=self.name,symmetric=self.symmetric)", "            table = self")
twin('C14-twin-mirror-order', 'C14', PT, 'if self.symmetric and t1!=t2:', 'if t1!=t2 and self.symmetric:')
TB = 'pyPRISM/core/Table.py'
mutant('C14-listify-str', 'C14', 'R14.l', TB, "        if isinstance(values,str):\n            values = [values]\n        else:\n            try:", "        if False:\n            values = [values]\n        else:\n            try:")

CA = 'pyPRISM/calculate/'
mutant('C05-sf-site-pair', 'C05', 'R05.s', CA + 'structure_factor.py', 'PRISM.totalCorr*PRISM.sys.density.pair + PRISM.omega', 'PRISM.totalCorr*PRISM.sys.density.site + PRISM.omega')
mutant('C05-sf-norm-pair', 'C05', 'R05.s', CA + 'structure_factor.py', 'structureFactor /= PRISM.sys.density.site', 'structureFactor /= PRISM.sys.density.pair')
mutant('C05-b2-sign', 'C05', 'R05.b2', CA + 'second_virial.py', 'B2[t1,t2] = - 0.5 * PRISM.totalCorr[t1,t2][0]', 'B2[t1,t2] = 0.5 * PRISM.totalCorr[t1,t2][0]')
mutant('C05-b2-two-points', 'C05', 'R05.b2', CA + 'second_virial.py', "x = PRISM.sys.domain.k[:3]\n                y = - 0.5 * PRISM.totalCorr[t1,t2][:3]", "x = PRISM.sys.domain.k[:2]\n                y = - 0.5 * PRISM.totalCorr[t1,t2][:2]")
mutant('C05-b2-linear-fit', 'C05', 'R05.b2', CA + 'second_virial.py', 'fit = np.poly1d(np.polyfit(x,y,2))', 'fit = np.poly1d(np.polyfit(x,y,1))')
mutant('C05-pmf-log10', 'C05', 'R05.w', CA + 'pmf.py', 'np.log(rdf.data)', 'np.log(rdf.data)/2.302585092994046')
mutant('C05-pmf-nokT', 'C05', 'R05.w', CA + 'pmf.py', 'rdf = -1.0 * PRISM.sys.kT * np.log(rdf.data)', 'rdf = -1.0 * np.log(rdf.data)')
mutant('C05-chi-R-inverted', 'C05', 'R05.x', CA + 'chi.py', 'R = v_A/v_B', 'R = v_B/v_A')
mutant('C05-chi-cab-coef', 'C05', 'R05.x', CA + 'chi.py', '- 2*C_AB)', '- C_AB)')
mutant('C05-chi-ile', 'C05', 'R05.x', CA + 'chi.py', "            if i<j:\n                C_AA", "            if i<=j:\n                C_AA")
mutant('C05-chi-wrong-pair', 'C05', 'R05.x', CA + 'chi.py', 'C_BB = PRISM.directCorr[t2,t2]', 'C_BB = PRISM.directCorr[t1,t1]')
mutant('C05-spin-sign', 'C05', 'R05.l', CA + 'spinodal_condition.py', 'curve += -2*C_AB * rho_AB * omega_AB', 'curve += -1*C_AB * rho_AB * omega_AB')
mutant('C05-solv-py-minus', 'C05', 'R05.p', CA + 'solvation_potential.py', 'np.log(1 + psi.data)', 'np.log(1 - psi.data)')
mutant('C05-solv-order', 'C05', 'R05.p', CA + 'solvation_potential.py', "psi = PRISM.directCorr.dot(structureFactor).dot(PRISM.directCorr) * -PRISM.sys.kT ", "psi = structureFactor.dot(PRISM.directCorr).dot(PRISM.directCorr) * -PRISM.sys.kT ")
mutant('C05-solv-unnormalised', 'C05', 'R05.p', CA + 'solvation_potential.py', 'structureFactor = structure_factor(PRISM)', 'structureFactor = structure_factor(PRISM,normalize=False)')
mutant('C05-gr-minus', 'C05', 'R05.g', CA + 'pair_correlation.py', 'PRISM.pairCorr = PRISM.totalCorr + 1.0', 'PRISM.pairCorr = PRISM.totalCorr - 1.0')
twin('C05-twin-sf', ['C05', 'C06'], CA + 'structure_factor.py', 'structureFactor = (PRISM.totalCorr*PRISM.sys.density.pair + PRISM.omega)', 'structureFactor = PRISM.omega + PRISM.sys.density.pair*PRISM.totalCorr')
twin('C05-twin-solv-assoc', ['C05', 'C06'], CA + 'solvation_potential.py', "psi = PRISM.directCorr.dot(structureFactor).dot(PRISM.directCorr) * -PRISM.sys.kT ", "psi = PRISM.directCorr.dot(structureFactor.dot(PRISM.directCorr)) * (-1.0*PRISM.sys.kT)")
twin('C05-twin-b2', ['C05', 'C06'], CA + 'second_virial.py', 'B2[t1,t2] = - 0.5 * PRISM.totalCorr[t1,t2][0]', 'B2[t1,t2] = PRISM.totalCorr[t1,t2][0]/(-2.0)')
mutant('C06-sf-inplace', 'C06', 'R06.f', CA + 'structure_factor.py', 'structureFactor = (PRISM.totalCorr*PRISM.sys.density.pair + PRISM.omega)', 'structureFactor = PRISM.totalCorr\n    structureFactor *= PRISM.sys.density.pair\n    structureFactor += PRISM.omega')
mutant('C06-b2-no-guard', 'C06', 'R06.s', CA + 'second_virial.py', "    if PRISM.totalCorr.space == Space.Real:\n        PRISM.sys.domain.MatrixArray_to_fourier(PRISM.totalCorr)\n", "")
mutant('C06-sf-flag-only', 'C06', 'R06.f', CA + 'structure_factor.py', "    if PRISM.omega.space == Space.Real:\n        PRISM.sys.domain.MatrixArray_to_fourier(PRISM.omega)", "    if PRISM.omega.space == Space.Real:\n        PRISM.omega.space = Space.Fourier")
mutant('C06-gr-wrong-guard', 'C06', 'R06.r', CA + 'pair_correlation.py', 'if PRISM.totalCorr.space == Space.Fourier:', 'if PRISM.totalCorr.space != Space.Fourier:')
mutant('C06-spinodal-inplace', 'C06', 'R06.f', CA + 'spinodal_condition.py', 'omega_AB = omega_AB/rho_AB', 'omega_AB /= rho_AB')
mutant('C06-solv-alias', 'C06', 'R06.f', CA + 'solvation_potential.py', "psi = PRISM.directCorr.dot(structureFactor).dot(PRISM.directCorr)\n", "psi = PRISM.directCorr.dot(structureFactor,inplace=True).dot(PRISM.directCorr)\n")
mutant('C06-gr-alias', 'C06', 'R06.c', CA + 'pair_correlation.py', "    PRISM.pairCorr = PRISM.totalCorr + 1.0", "    PRISM.totalCorr += 1.0\n    PRISM.pairCorr = PRISM.totalCorr")
twin('C06-twin-guard-neq', 'C06', CA + 'second_virial.py', 'if PRISM.totalCorr.space == Space.Real:', 'if PRISM.totalCorr.space != Space.Fourier:')

PR = 'pyPRISM/core/PRISM.py'
mutant('C01-no-copy', 'C01', 'R01.a', PR, 'self.GammaIn.data = np.copy(x.reshape((-1,self.sys.rank,self.sys.rank)))', 'self.GammaIn.data = x.reshape((-1,self.sys.rank,self.sys.rank))')
mutant('C01-wrong-pair-gamma', 'C01', 'R01.b', PR, 'closure.calculate(self.sys.domain.r,self.GammaIn[t1,t2])', 'closure.calculate(self.sys.domain.r,self.GammaIn[t2,t2])')
mutant('C01-closure-on-k', 'C01', 'R01.b', PR, 'closure.calculate(self.sys.domain.r,self.GammaIn[t1,t2])', 'closure.calculate(self.sys.domain.k,self.GammaIn[t1,t2])')
mutant('C01-transposed', 'C01', 'R01.c', PR, 'self.OC = self.omega.dot(self.directCorr)', 'self.OC = self.directCorr.dot(self.omega)')
mutant('C01-I-plus', 'C01', 'R01.c', PR, 'self.IOC = self.I - self.OC', 'self.IOC = self.I + self.OC')
mutant('C01-missing-factor', 'C01', 'R01.c', PR, 'self.totalCorr  = self.IOC.dot(self.OC).dot(self.omega)', 'self.totalCorr  = self.IOC.dot(self.OC)')
mutant('C01-site-not-pair', 'C01', 'R01.c', PR, 'self.totalCorr /= self.sys.density.pair', 'self.totalCorr /= self.sys.density.site')
mutant('C01-mul-pair', 'C01', 'R01.c', PR, 'self.totalCorr /= self.sys.density.pair', 'self.totalCorr *= self.sys.density.pair')
mutant('C01-no-invert', 'C01', 'R01.c', PR, '        self.IOC.invert(inplace=True)\n', '')
mutant('C01-residual-sign', 'C01', 'R01.e', PR, 'self.GammaOut  = self.totalCorr - self.directCorr', 'self.GammaOut  = self.totalCorr + self.directCorr')
mutant('C01-residual-nor', 'C01', 'R01.e', PR, 'self.y = self.sys.domain.long_r*(self.GammaOut.data - self.GammaIn.data)', 'self.y = (self.GammaOut.data - self.GammaIn.data)')
mutant('C01-omega-unscaled', ['C01', 'C16'], 'R16.w', PR, "        self.omega *= sys.density.site #omega should always be scaled by site density \n", '')
mutant('C01-omega-pair', ['C01', 'C16'], 'R16.w', PR, 'self.omega *= sys.density.site', 'self.omega *= sys.density.pair')
mutant('C01-no-kT', ['C01', 'C16'], 'R16.w', PR, "                self.sys.closure[t1,t2].potential = U.calculate(self.sys.domain.r) / self.sys.kT\n            elif", "                self.sys.closure[t1,t2].potential = U.calculate(self.sys.domain.r)\n            elif")
mutant('C01-no-resync', ['C01', 'C06'], 'R01.f', PR, '        self.cost(self.minimize_result.x)\n', '')
mutant('C06-no-space-reset', 'C06', 'R01.f', PR, '        self.directCorr.space = Space.Real \n', '')
mutant('C16-no-deepcopy', 'C16', 'R16.c', PR, 'self.sys = deepcopy(sys)', 'self.sys = sys')
mutant('C16-sigma-overwrite', 'C16', 'R16.w', PR, "                if U.sigma is None:\n                    U.sigma = self.sys.diameter[t1,t2]\n                self.sys.closure[t1,t2].sigma = self.sys.diameter[t1,t2]\n                self.sys.closure[t1,t2].potential = U.calculate(self.sys.domain.r) / self.sys.kT",
       "                U.sigma = self.sys.diameter[t1,t2]\n                self.sys.closure[t1,t2].sigma = self.sys.diameter[t1,t2]\n                self.sys.closure[t1,t2].potential = U.calculate(self.sys.domain.r) / self.sys.kT")
mutant('C16-potential-on-k', 'C16', 'R16.w', PR, "                self.sys.closure[t1,t2].potential = U.calculate(self.sys.domain.r) / self.sys.kT\n            elif", "                self.sys.closure[t1,t2].potential = U.calculate(self.sys.domain.k) / self.sys.kT\n            elif")
mutant('C16-write-caller', 'C16', 'R16.c', PR, "                self.sys.closure[t1,t2].sigma = self.sys.diameter[t1,t2]\n                self.sys.closure[t1,t2].potential = U.calculate(self.sys.domain.r) / self.sys.kT\n            elif",
       "                sys.closure[t1,t2].sigma = self.sys.diameter[t1,t2]\n                self.sys.closure[t1,t2].sigma = self.sys.diameter[t1,t2]\n                self.sys.closure[t1,t2].potential = U.calculate(self.sys.domain.r) / self.sys.kT\n            elif")
mutant('C16-omega-real', 'C16', 'R16.w', PR, 'exportToMatrixArray(space=Space.Fourier)', 'exportToMatrixArray(space=Space.Real)')
SY = 'pyPRISM/core/System.py'
mutant('C16-check-omits-omega', 'C16', 'R16.x', SY, 'for table in [self.density,self.potential,self.closure,self.omega,self.diameter]:', 'for table in [self.density,self.potential,self.closure,self.diameter]:')
mutant('C16-solve-no-check', 'C16', 'R16.d', SY, "        self.check() #sanity check\n\n        p = PRISM(self)", "        p = PRISM(self)")
mutant('C16-domain-not-refused', 'C16', 'R16.x', SY, "        if self.domain is None:\n            raise ValueError(('System has no domain! '\n                              'User must instatiate and assign a domain to the system!'))\n", "")
twin('C01-twin-pushthrough', ['C01', 'C06'], PR, 'self.totalCorr  = self.IOC.dot(self.OC).dot(self.omega)', 'self.totalCorr  = self.OC.dot(self.IOC).dot(self.omega)')
twin('C01-twin-temp', ['C01', 'C06', 'C16'], PR, 'self.GammaOut  = self.totalCorr - self.directCorr', 'tmp = self.directCorr * -1.0\n        self.GammaOut  = tmp + self.totalCorr')

OMD = 'pyPRISM/omega/'
mutant('C11-gauss-exponent', 'C11', 'R11.d', OMD + 'Gaussian.py', '(2*E**(N+1))/N', '(2*E**(N))/N')
mutant('C11-gauss-width', 'C11', 'R11.d', OMD + 'Gaussian.py', 'E = np.exp(-k*k*self.sigma*self.sigma/6.0)', 'E = np.exp(-k*k*self.sigma*self.sigma/3.0)')
mutant('C11-fjc-sign', 'C11', 'R11.d', OMD + 'FreelyJointedChain.py', '(1 - E*E - 2*E/N + (2*E**(N+1))/N)', '(1 - E*E + 2*E/N + (2*E**(N+1))/N)')
mutant('C11-ring-range', 'C11', 'R11.d', OMD + 'GaussianRing.py', 'for i in range(self.length):', 'for i in range(1,self.length):')
mutant('C11-ring-denominator', 'C11', 'R11.d', OMD + 'GaussianRing.py', '(6.0*self.length)', '(6.0)')
mutant('C11-koyama-bounds', 'C11', 'R11.m', OMD + 'DiscreteKoyama.py', "        for i in range(1,self.length):\n            for j in range(i+1,self.length+1):\n                n = abs(i - j)\n                self.value += self.koyama_kernel_fourier(k=k,n=n)",
       "        for i in range(1,self.length):\n            for j in range(i+1,self.length):\n                n = abs(i - j)\n                self.value += self.koyama_kernel_fourier(k=k,n=n)")
mutant('C11-koyama-prefactor', 'C11', 'R11.m', OMD + 'DiscreteKoyama.py', 'self.value *= 2/self.length', 'self.value *= 1/self.length')
mutant('C11-koyama-accept-overlap', 'C11', 'R11.v', OMD + 'DiscreteKoyama.py', 'if self.lp<self.lp_min:', 'if self.lp<0.5*self.lp_min:')
mutant('C11-koyama-no-l-check', 'C11', 'R11.v', OMD + 'DiscreteKoyama.py', 'if self.l > self.sigma/2.0:', 'if self.l > self.sigma/4.0:')
mutant('C11-koyama-math-array', 'C11', 'R11.s', OMD + 'DiscreteKoyama.py', 'self.epsilon = result.x[0]', 'self.epsilon = result.x')
mutant('C11-koyama-kernel', 'C11', 'R11.k', OMD + 'DiscreteKoyama.py', '        return np.sin(B*k)/(B*k) * np.exp(-Asq*k*k)\n', '        return np.sin(B*k)/(B) * np.exp(-Asq*k*k)\n')
mutant('C11-nfjc-axis', 'C11', 'R11.e', OMD + 'NonOverlappingFreelyJointedChain.py', 'Jvals = integrate(Z,x=x,axis=1)', 'Jvals = integrate(Z,x=k,axis=0)')
mutant('C11-nfjc-mult', 'C11', 'R11.d', OMD + 'NonOverlappingFreelyJointedChain.py', '(self.length - tau) * (omega_t', '(self.length - tau - 1) * (omega_t')
mutant('C11-trapz-back', 'C11', 'R11.l', OMD + 'NonOverlappingFreelyJointedChain.py', 'integrate = scipy.integrate.simpson', 'integrate = scipy.integrate.simps')
mutant('C11-singlesite', 'C11', 'R11.d', OMD + 'SingleSite.py', 'self.value = np.ones_like(k)', 'self.value = np.zeros_like(k)')
twin('C11-twin-gauss', 'C11', OMD + 'Gaussian.py', '(1 - E*E - 2*E/N + (2*E**(N+1))/N)/((1-E)**2.0)', '(1 - E**2 - 2*E/N + 2*E*E**N/N)/(1 - 2*E + E*E)')
twin('C11-twin-ring-j', 'C11', OMD + 'GaussianRing.py', "            j = 0\n            self.value += np.exp(-ss*kk*abs(i-j)*(self.length-abs(i-j))/(6.0*self.length))", "            self.value += np.exp(-ss*kk*i*(self.length-i)/(6.0*self.length))")

UCF = 'pyPRISM/util/UnitConverter.py'
mutant('C17-coulomb', 'C17', 'R17.u', UCF, ".to('degC')", ".to('C')")
mutant('C17-no-normalise', 'C17', 'R17.n', UCF, "return new_value.to('dimensionless')", "return new_value")
mutant('C17-kelvin-no-NA', 'C17', 'R17.u', UCF, "            new_value /= self.pint('N_A')\n", "")
mutant('C17-conc-d2', 'C17', 'R17.u', UCF, "new_value = density/(self.d**3.0)/self.pint('N_A')", "new_value = density/(self.d**2.0)/self.pint('N_A')")
mutant('C17-conc-times-NA', 'C17', 'R17.u', UCF, "new_value = density/(self.d**3.0)/self.pint('N_A')", "new_value = density/(self.d**3.0)*self.pint('N_A')")
mutant('C17-volfrac-radius', 'C17', 'R17.d', UCF, "(diameter/2.0)**(3.0)", "(diameter)**(3.0)")
mutant('C17-invnm-wrong-unit', 'C17', 'R17.d', UCF, ".to('nanometer^-1')", ".to('angstrom^-1')")
mutant('C17-kelvin-wrong-const', 'C17', 'R17.u', UCF, "(temperature*self.e)/self.pint('boltzmann_constant')", "(temperature*self.e)/self.pint('planck_constant')")
twin('C17-twin-order', 'C17', UCF, "new_value = wavenumber*(1.0/self.d)", "new_value = wavenumber/self.d")

mutant('C04-literal-label', 'C04', 'R04.c', 'pyPRISM/calculate/chi.py', "C_AA = PRISM.directCorr[t1,t1]", "C_AA = PRISM.directCorr['A','A']")
mutant('C04-literal-index', 'C04', 'R04.c', 'pyPRISM/calculate/second_virial.py', "B2[t1,t2] = - 0.5 * PRISM.totalCorr[t1,t2][0]", "B2[t1,t2] = - 0.5 * PRISM.totalCorr.data[:,0,1][0]")
mutant('C04-asym-table', 'C04', 'R04.b', 'pyPRISM/calculate/chi.py', "chi = PairTable(name='chi',types=PRISM.sys.types)", "chi = PairTable(name='chi',types=PRISM.sys.types,symmetric=False)")
mutant('C04-potential-offset', 'C04', 'R04.e', 'pyPRISM/potential/LennardJones.py', "self.funk  = lambda r,s: 4 * epsilon * ((s/r)**(12.0) - (s/r)**(6.0))", "self.funk  = lambda r,s: 4 * epsilon * ((s/r)**(12.0) - (s/r)**(6.0)) + 1.0")
mutant('C04-high-unscaled', 'C04', 'R04.e', 'pyPRISM/potential/HardSphere.py', "np.where(r>sigma,0.0,high_value)", "np.where(r>sigma,0.0,1e6)")
mutant('C04-sf-kT', 'C04', 'R04.k', 'pyPRISM/calculate/structure_factor.py', "    return structureFactor", "    return structureFactor*PRISM.sys.kT")
mutant('C04-pmf-nokT', 'C04', 'R04.k', 'pyPRISM/calculate/pmf.py', 'rdf = -1.0 * PRISM.sys.kT * np.log(rdf.data)', 'rdf = -1.0 * np.log(rdf.data)')
mutant('C04-double-kT', 'C04', 'R04.k', 'pyPRISM/core/PRISM.py', "                self.sys.closure[t1,t2].potential = U.calculate(self.sys.domain.r) / self.sys.kT\n            elif", "                self.sys.closure[t1,t2].potential = U.calculate(self.sys.domain.r) / self.sys.kT / self.sys.kT\n            elif")
mutant('C04-site-asym', 'C04', 'R04.a', 'pyPRISM/core/Density.py', 'self.site[t1,t2] = [rho1 + rho2]', 'self.site[t1,t2] = [rho1 + 2*rho2]')

# ------------------------------------------------------------------------------------------------------------
# C03 / C09: closures
# ------------------------------------------------------------------------------------------------------------
CL = 'pyPRISM/closure/'
PYF, HNCF, MSAF, MSF = CL + 'PercusYevick.py', CL + 'HyperNettedChain.py', CL + 'MeanSphericalApproximation.py', CL + 'MartynovSarkisov.py'
mutant('C09-py-one-minus-gamma', ['C09', 'C01'], 'R09.d', PYF, "            self.value = (np.exp(-self.potential)-1.0)*(1.0+gamma)", "            self.value = (np.exp(-self.potential)-1.0)*(1.0-gamma)")
mutant('C09-py-plus-one', 'C09', 'R09.d', PYF, "self.value[mask] = (np.exp(-self.potential[mask])-1.0)*(1.0+gamma[mask])", "self.value[mask] = (np.exp(-self.potential[mask])+1.0)*(1.0+gamma[mask])")
mutant('C09-hnc-plus-u', ['C09', 'C01'], 'R09.d', HNCF, "            self.value = np.exp(gamma - self.potential) - 1.0 - gamma", "            self.value = np.exp(gamma + self.potential) - 1.0 - gamma")
mutant('C09-hnc-branches-disagree', ['C09'], 'R09.d', HNCF, "self.value[mask] = np.exp(gamma[mask] - self.potential[mask]) - 1.0 - gamma[mask]", "self.value[mask] = np.exp(gamma[mask] - self.potential[mask]) - 1.0")
mutant('C09-msa-sign', 'C09', 'R09.d', MSAF, "            self.value = -self.potential\n\n", "            self.value = self.potential\n\n")
mutant('C03-core-no-gamma', ['C03', 'C09'], 'R03.a', PYF, "            self.value = -1 - gamma\n", "            self.value = -1 - 0*gamma\n")
mutant('C03-core-plus-gamma', ['C03', 'C09'], 'R03.a', HNCF, "            self.value = -1 - gamma\n", "            self.value = -1 + gamma\n")
mutant('C03-mask-ge', ['C03', 'C09'], 'R03.a', MSAF, "            mask = r>self.sigma", "            mask = r>=self.sigma")
mutant('C03-mask-inverted', ['C03', 'C09'], 'R03.a', MSF, "            mask = r>self.sigma", "            mask = r<self.sigma")
mutant('C03-mask-other-attr', ['C03', 'C09'], 'R03.b', PYF, "            mask = r>self.sigma", "            mask = r>self.potential")
mutant('C03-noflag-limit', 'C03', 'R03.c', PYF, "            self.value = (np.exp(-self.potential)-1.0)*(1.0+gamma)", "            self.value = (np.exp(-self.potential)-1.0)*(1.0+gamma) + 0.5")
mutant('C09-gamma-inplace', ['C09', 'C01'], 'R09.p', HNCF, "            self.value = np.exp(gamma - self.potential) - 1.0 - gamma", "            gamma -= self.potential\n            self.value = np.exp(gamma) - 1.0 - gamma - self.potential")
mutant('C09-value-alias-potential', 'C09', 'R09.p', MSAF, "            self.value = -self.potential\n\n", "            self.value = self.potential\n            self.value *= -1.0\n\n")
mutant('C09-returns-gamma', 'C09', 'R09.p', MSAF, "            self.value = -self.potential\n\n", "            self.value = gamma\n            self.value *= 0.0\n            self.value -= self.potential\n\n")
mutant('C09-alias-own-calculate', 'C09', 'R09.a', PYF, "    '''Alias of PercusYevick'''\n    pass", "    '''Alias of PercusYevick'''\n    def calculate(self,r,gamma):\n        return super(PY,self).calculate(r,gamma)*1.0")
mutant('C09-not-elementwise', 'C09', 'R09.e', MSAF, "            self.value = -self.potential\n\n", "            self.value = -self.potential + 1e-9*np.sum(gamma)\n\n")
mutant('C09-weak-coupling', 'C09', 'R09.w', HNCF, "            self.value = np.exp(gamma - self.potential) - 1.0 - gamma", "            self.value = np.exp(gamma - self.potential) - 1.0 - 2*gamma")
mutant('C09-cache-mayer', ['C09', 'C01'], 'R09.h', PYF, "            self.value = (np.exp(-self.potential)-1.0)*(1.0+gamma)",
       "            if getattr(self,'_f',None) is None:\n                self._f = np.exp(-self.potential)-1.0\n            self.value = self._f*(1.0+gamma)")
mutant('C09-clamp-gamma', ['C09', 'C03'], None, PYF, "        assert len(gamma) == len(self.potential),'Domain mismatch!'\n", "        assert len(gamma) == len(self.potential),'Domain mismatch!'\n        gamma = np.maximum(gamma,-1.0)\n")
twin('C09-twin-expm1', ['C09', 'C03', 'C01'], PYF, "            self.value = (np.exp(-self.potential)-1.0)*(1.0+gamma)", "            self.value = np.expm1(-self.potential)*(1.0+gamma)")
twin('C09-twin-where', ['C09', 'C03', 'C01'], MSAF, "            self.value = -1 - gamma\n\n            # calculate closure outside hard core\n            mask = r>self.sigma\n            self.value[mask] = -self.potential[mask]",
     "            self.value = np.where(r>self.sigma,-self.potential,-1 - gamma)")
twin('C09-twin-not-le', ['C09', 'C03'], HNCF, "            mask = r>self.sigma", "            mask = ~(r<=self.sigma)")
twin('C09-twin-expanded', ['C09', 'C01'], PYF, "            self.value = (np.exp(-self.potential)-1.0)*(1.0+gamma)", "            e = np.exp(-self.potential)\n            self.value = e + e*gamma - 1.0 - gamma")
twin('C09-twin-exp-split', ['C09', 'C03'], HNCF, "            self.value = np.exp(gamma - self.potential) - 1.0 - gamma", "            self.value = np.exp(gamma)/np.exp(self.potential) - (1.0 + gamma)")
twin('C09-twin-harmless-cache', ['C09', 'C03', 'C01'], PYF, "            self.value = (np.exp(-self.potential)-1.0)*(1.0+gamma)", "            self.last_gamma = gamma\n            self.value = (np.exp(-self.potential)-1.0)*(1.0+gamma)")
twin('C09-twin-local-rename', ['C09', 'C03'], MSAF, "            mask = r>self.sigma\n            self.value[mask] = -self.potential[mask]", "            outside = r>self.sigma\n            self.value[outside] = -self.potential[outside]")

# ------------------------------------------------------------------------------------------------------------
# C10: potentials
# ------------------------------------------------------------------------------------------------------------
PO = 'pyPRISM/potential/'
LJF, HSF, EXF, HCF, WCF = PO + 'LennardJones.py', PO + 'HardSphere.py', PO + 'Exponential.py', PO + 'HardCoreLennardJones.py', PO + 'WeeksChandlerAndersen.py'
mutant('C10-lj-exponent', 'C10', 'R10.d', LJF, "((s/r)**(12.0) - (s/r)**(6.0))", "((s/r)**(10.0) - (s/r)**(6.0))")
mutant('C10-lj-shift-plus', 'C10', 'R10.d', LJF, "magnitude -= self.funk(self.rcut,self.sigma)", "magnitude += self.funk(self.rcut,self.sigma)")
mutant('C10-lj-cut-ge', 'C10', 'R10.d', LJF, "magnitude[r>self.rcut] = 0.0", "magnitude[r>=self.rcut] = 0.0")
mutant('C10-lj-shift-at-sigma', 'C10', 'R10.k', LJF, "magnitude -= self.funk(self.rcut,self.sigma)", "magnitude -= self.funk(self.sigma*1.5,self.sigma)")
mutant('C10-hclj-no-two', 'C10', 'R10.d', HCF, "2.0*(sigma/r)**(6.0)", "(sigma/r)**(6.0)")
mutant('C10-hclj-mask-lt', ['C10', 'C03'], 'R03.d', HCF, "magnitude[r<=self.sigma] = self.high_value", "magnitude[r<self.sigma] = self.high_value")
mutant('C10-exp-sign', 'C10', 'R10.d', EXF, "lambda r,sigma: - epsilon * np.exp(-(r-sigma)/(alpha))", "lambda r,sigma: epsilon * np.exp(-(r-sigma)/(alpha))")
mutant('C10-exp-core-ge', ['C10', 'C03'], 'R03.d', EXF, "np.where(r>self.sigma,magnitude,self.high_value)", "np.where(r>=self.sigma,magnitude,self.high_value)")
mutant('C10-hs-tail', 'C10', 'R10.d', HSF, "np.where(r>sigma,0.0,high_value)", "np.where(r>sigma,1.0,high_value)")
mutant('C10-hs-core-zero', ['C10', 'C03'], 'R03.d', HSF, "np.where(r>sigma,0.0,high_value)", "np.where(r>sigma,0.0,0.0*high_value)")
mutant('C10-wca-rcut', 'C10', 'R10.w', WCF, "self.rcut = self.sigma * 2**(1.0/6.0)", "self.rcut = self.sigma * 2**(1.0/3.0)")
mutant('C10-wca-stale-rcut', 'C10', 'R10.h', WCF, "        self.rcut = self.sigma * 2**(1.0/6.0)\n        return", "        if self.rcut is True:\n            self.rcut = self.sigma * 2**(1.0/6.0)\n        return")
mutant('C10-writes-r', 'C10', 'R10.p', LJF, "        magnitude = self.funk(r,self.sigma)\n        \n        if self.rcut is not None:", "        r /= self.sigma\n        magnitude = self.funk(r,1.0)\n        \n        if self.rcut is not None:")
twin('C10-twin-power', 'C10', LJF, "((s/r)**(12.0) - (s/r)**(6.0))", "(np.power(s/r,12.0) - s**6/r**6)")
twin('C10-twin-where', ['C10', 'C03'], HCF, "        magnitude[r<=self.sigma] = self.high_value\n", "        magnitude = np.where(r<=self.sigma,self.high_value,magnitude)\n")
twin('C10-twin-lj-factored', 'C10', LJF, "4 * epsilon * ((s/r)**(12.0) - (s/r)**(6.0))", "4 * epsilon * (s/r)**(6.0) * ((s/r)**(6.0) - 1.0)")
twin('C10-twin-hs-not-le', ['C10', 'C03'], HSF, "np.where(r>sigma,0.0,high_value)", "np.where(r<=sigma,high_value,0.0)")

# ------------------------------------------------------------------------------------------------------------
# C07 / C08: Domain
# ------------------------------------------------------------------------------------------------------------
DO = 'pyPRISM/core/Domain.py'
mutant('C07-dr-setter-no-build', 'C07', 'R07.i', DO, "        self._dk = np.pi/(self._dr*self._length)\n        self.build_grid()#need to re-build grid since spacing has changed", "        self._dk = np.pi/(self._dr*self._length)")
mutant('C07-dk-2pi', ['C07', 'C08'], 'R07.i', DO, "        self._dr = value\n        self._dk = np.pi/(self._dr*self._length)", "        self._dr = value\n        self._dk = 2*np.pi/(self._dr*self._length)")
mutant('C07-stale-long-r', 'C07', 'R07.i', DO, "        self.long_r = self.r.reshape((-1,1,1))\n", "        if not hasattr(self,'long_r'):\n            self.long_r = self.r.reshape((-1,1,1))\n")
mutant('C07-grid-from-zero', ['C07', 'C08'], 'R07.g', DO, "self.r = self._dr*np.arange(1,self._length+1)", "self.r = self._dr*np.arange(0,self._length)")
mutant('C07-grid-short', ['C07', 'C08'], 'R07.g', DO, "self.k = self.dk*np.arange(1,self._length+1)", "self.k = self.dk*np.arange(1,self._length)")
mutant('C08-forward-4pi', ['C08', 'C07'], 'R08.f', DO, "self.DST_II_coeffs = 2.0*np.pi *self.r*self._dr", "self.DST_II_coeffs = 4.0*np.pi *self.r*self._dr")
mutantN('C08-compensating', 'C08', 'R08.f', [(DO, "self.DST_II_coeffs = 2.0*np.pi *self.r*self._dr", "self.DST_II_coeffs = 4.0*np.pi *self.r*self._dr"),
                                             (DO, "self.DST_III_coeffs = self.k * self.dk/(4.0*np.pi*np.pi)", "self.DST_III_coeffs = self.k * self.dk/(8.0*np.pi*np.pi)")])
mutant('C08-dst-type', ['C08', 'C07'], 'R08.f', DO, "return dst(self.DST_II_coeffs*array,type=2)/self.k", "return dst(self.DST_II_coeffs*array,type=1)/self.k")
mutant('C08-dst-ortho', ['C08', 'C07'], 'R08.t', DO, "return dst(self.DST_III_coeffs*array,type=3)/self.r", "return dst(self.DST_III_coeffs*array,type=3,norm='ortho')/self.r")
mutant('C08-divide-by-r', ['C08', 'C07'], 'R08.f', DO, "return dst(self.DST_II_coeffs*array,type=2)/self.k", "return dst(self.DST_II_coeffs*array,type=2)/self.r")
mutant('C07-ma-flag-before-loop', 'C07', 'R07.m', DO, "        for (i,j),(t1,t2),pair in marray.iterpairs():\n            marray[t1,t2] = self.to_fourier(pair)\n        \n        marray.space = Space.Fourier",
       "        marray.space = Space.Fourier\n        for (i,j),(t1,t2),pair in marray.iterpairs():\n            marray[t1,t2] = self.to_fourier(pair)\n")
mutant('C07-ma-guard-inverted', 'C07', 'R07.m', DO, "        if marray.space == Space.Real:\n            raise ValueError('MatrixArray is marked as already in Real space')", "        if marray.space == Space.Fourier:\n            raise ValueError('MatrixArray is marked as already in Real space')")
mutant('C07-ma-wrong-transform', 'C07', 'R07.m', DO, "            marray[t1,t2] = self.to_real(pair)", "            marray[t1,t2] = self.to_fourier(pair)")
mutant('C07-ma-bypass-setter', 'C07', 'R07.m', DO, "            marray[t1,t2] = self.to_real(pair)", "            marray.data[:,i,j] = self.to_real(pair)")
mutant('C07-nonlinear', 'C07', 'R07.l', DO, "return dst(self.DST_III_coeffs*array,type=3)/self.r", "return dst(self.DST_III_coeffs*array,type=3)/self.r + 1e-3*array*array")
twin('C07-twin-linspace-free', ['C07', 'C08'], DO, "self.r = self._dr*np.arange(1,self._length+1)", "self.r = self._dr*(np.arange(self._length)+1)")
twin('C07-twin-dk-property', ['C07', 'C08'], DO, "self.DST_III_coeffs = self.k * self.dk/(4.0*np.pi*np.pi)", "self.DST_III_coeffs = self.k * self._dk/(4.0*np.pi**2)")
twin('C07-twin-setter-order', ['C07', 'C08'], DO, "        self._length = value\n        self._dk = np.pi/(self._dr*self._length)", "        self._dk = np.pi/(self._dr*value)\n        self._length = value")
twin('C07-twin-guard-ne', 'C07', DO, "        if marray.space == Space.Real:\n            raise ValueError('MatrixArray is marked as already in Real space')", "        if not (marray.space != Space.Real):\n            raise ValueError('MatrixArray is marked as already in Real space')")

# ------------------------------------------------------------------------------------------------------------
# C13: MatrixArray
# ------------------------------------------------------------------------------------------------------------
MA = 'pyPRISM/core/MatrixArray.py'
mutant('C13-isub-new-object', 'C13', 'R13.4', MA, "            self.data -= other\n        return self", "            self.data -= other\n        return MatrixArray(length=self.length,rank=self.rank,data=self.data,space=self.space,types=self.types)")
mutant('C13-add-inplace-alias', 'C13', 'R13.3', MA, "            data = self.data + other.data\n", "            data = self.data\n            data += other.data\n")
mutant('C13-einsum-transposed', ['C13', 'C01'], 'R13.6', MA, "            data = np.einsum('lij,ljk->lik', self.data, other.data)", "            data = np.einsum('lij,lkj->lik', self.data, other.data)")
mutant('C13-guard-and', 'C13', 'R13.2', MA, "    def __isub__(self,other):\n        if isinstance(other,MatrixArray):\n            assert (self.space == other.space) or (Space.NonSpatial in (self.space,other.space)),MatrixArray.SpaceError",
       "    def __isub__(self,other):\n        if isinstance(other,MatrixArray):\n            assert (self.space == other.space) and (Space.NonSpatial in (self.space,other.space)),MatrixArray.SpaceError")
mutant('C13-guard-dropped', 'C13', 'R13.2', MA, "        '''Scalar or elementwise multiplication'''\n        if isinstance(other,MatrixArray):\n            assert (self.space == other.space) or (Space.NonSpatial in (self.space,other.space)),MatrixArray.SpaceError\n            data = self.data * other.data", "        '''Scalar or elementwise multiplication'''\n        if isinstance(other,MatrixArray):\n            data = self.data * other.data")
mutant('C13-setter-no-mirror', ['C13', 'C04', 'C15'], 'R13.9', MA, "        if not (index1 == index2):\n            self.data[:,index2,index1] = val\n", "")
mutant('C13-getter-transposed-index', 'C13', 'R13.9', MA, "            raise ValueError('This MatrixArray has types: {}. You requested type: \\'{}\\''.format(self.types,type2))\n\n        return self.data[:,index1,index2]", "            raise ValueError('This MatrixArray has types: {}. You requested type: \\'{}\\''.format(self.types,type2))\n\n        return self.data[:,index1,index1]")
mutant('C13-invert-shares', 'C13', 'R13.7', MA, "        data = np.linalg.inv(self.data)\n", "        data = np.linalg.inv(self.data)\n        self.data[...] = data\n")
mutant('C13-sub-swapped', ['C13', 'C01'], 'R13.5', MA, "            data = self.data - other.data", "            data = other.data - self.data")
mutant('C13-imul-writes-other', 'C13', 'R13.4', MA, "            self.data *= other.data\n", "            other.data *= self.data\n            self.data = other.data\n")
mutant('C13-iterpairs-strict', ['C13', 'C04'], 'R13.i', MA, "            if i<=j: #upper triangle condition", "            if i<j: #upper triangle condition")
twin('C13-twin-commuted', ['C13', 'C01'], MA, "            data = self.data + other.data", "            data = other.data + self.data")
twin('C13-twin-guard-order', 'C13', MA, "    def __add__(self,other):\n        if isinstance(other,MatrixArray):\n            assert (self.space == other.space) or (Space.NonSpatial in (self.space,other.space)),MatrixArray.SpaceError",
     "    def __add__(self,other):\n        if isinstance(other,MatrixArray):\n            assert (Space.NonSpatial in (self.space,other.space)) or (other.space == self.space),MatrixArray.SpaceError")
twin('C13-twin-matmul-einsum', ['C13', 'C01'], MA, "            data = np.einsum('lij,ljk->lik', self.data, other.data)", "            data = np.einsum('nab,nbc->nac', self.data, other.data)")

# more twins for the remaining properties
twin('C04-twin-chi-swap-roles', ['C04', 'C05'], 'pyPRISM/calculate/chi.py', "C_BB = PRISM.directCorr[t2,t2]", "C_BB = PRISM.directCorr[t2,t2] * 1.0")
twin('C16-twin-local-closure', ['C16', 'C01', 'C04'], PR, "                self.sys.closure[t1,t2].sigma = self.sys.diameter[t1,t2]\n                self.sys.closure[t1,t2].potential = U.calculate(self.sys.domain.r) / self.sys.kT", "                clos = self.sys.closure[t1,t2]\n                clos.sigma = self.sys.diameter[t1,t2]\n                clos.potential = U.calculate(self.sys.domain.r) / self.sys.kT")
twin('C14-twin-setunset-eq', 'C14', PT, "            if v is None:\n                self[t1,t2] = value", "            if not (v is not None):\n                self[t1,t2] = value")
twin('C17-twin-volfrac', 'C17', UCF, "(diameter/2.0)**(3.0)", "(diameter**3.0/8.0)")
twin('C15-twin-site-commuted', ['C15', 'C04', 'C01'], D, 'self.site[t1,t2] = [rho1 + rho2]', 'self.site[t1,t2] = [rho2 + rho1]')
twin('C12-twin-shape-len', 'C12', FA, "self.value.shape[0] == k.shape[0]", "len(self.value) == len(k)")

# cooperating sites: a derived inverse temperature that IS kept in sync through a property (twin) vs one that is not
twinN('C16-twin-beta-property', ['C16', 'C01', 'C04'], [
    (SY, "    def check(self):", "    @property\n    def kT(self):\n        return self._kT\n    @kT.setter\n    def kT(self,value):\n        self._kT = value\n        self.beta = 1.0/value\n\n    def check(self):"),
    (PR, "                self.sys.closure[t1,t2].potential = U.calculate(self.sys.domain.r) / self.sys.kT\n            elif", "                self.sys.closure[t1,t2].potential = U.calculate(self.sys.domain.r) * self.sys.beta\n            elif")])
mutantN('C16-beta-stale', ['C16', 'C01', 'C04'], 'R16.w', [
    (SY, "        self.kT = kT\n", "        self.kT = kT\n        self.beta = 1.0/kT\n"),
    (PR, "                self.sys.closure[t1,t2].potential = U.calculate(self.sys.domain.r) / self.sys.kT\n            elif", "                self.sys.closure[t1,t2].potential = U.calculate(self.sys.domain.r) * self.sys.beta\n            elif")])

# history rules: caches that are keyed on a *copy* and return a copy are fine (twin); aliasing ones are not (mutant)
NF_ = OMD + 'NonOverlappingFreelyJointedChain.py'
twinN('C11-twin-nfjc-copy-cache', 'C11', [
    (NF_, "        self.value = None\n", "        self.value = None\n        self._k = None\n"),
    (NF_, "        self.value = np.zeros_like(k)\n", "        if (self._k is not None) and np.array_equal(k,self._k):\n            return np.copy(self.value)\n        self._k = np.copy(k)\n        self.value = np.zeros_like(k)\n"),
    (NF_, "        self.value  += self.FJC.calculate(k)\n\n\n        return self.value", "        self.value  += self.FJC.calculate(k)\n\n\n        return np.copy(self.value)")])
mutantN('C11-nfjc-alias-cache', 'C11', 'R11.h', [
    (NF_, "        self.value = None\n", "        self.value = None\n        self._k = None\n"),
    (NF_, "        self.value = np.zeros_like(k)\n", "        if (self._k is not None) and np.array_equal(k,self._k):\n            return self.value\n        self._k = k\n        self.value = np.zeros_like(k)\n")])
twin('C10-twin-wca-local-rcut', 'C10', WCF, "        self.rcut = self.sigma * 2**(1.0/6.0)\n        return", "        rc = self.sigma * 2**(1.0/6.0)\n        self.rcut = rc\n        return")
mutant('C12-fromfile-cache', 'C12', 'R12.f', FF, "        fileData = np.loadtxt(self.fileName)", "        if getattr(self,'_done',False):\n            return self.value\n        self._done = True\n        fileData = np.loadtxt(self.fileName)")
mutant('C13-dot-buffer', ['C13'], 'R13.h', MA, "            data = np.einsum('lij,ljk->lik', self.data, other.data)\n            return MatrixArray(", "            if getattr(self,'_buf',None) is None:\n                self._buf = np.empty(self.data.shape)\n            data = np.einsum('lij,ljk->lik', self.data, other.data, out=self._buf)\n            return MatrixArray(")
mutant('C13-getcopy-class', 'C13', 'R13.h', MA, "        return MatrixArray(length=self.length,rank=self.rank,data=np.copy(self.data),space=self.space,types=self.types)", "        return self.__class__(length=self.length,rank=self.rank,data=np.copy(self.data),space=self.space,types=self.types)")
mutant('C15-sigma-prefix', 'C15', 'R15.s', DI, "            for t2 in self.types:", "            for t2 in self.types[:self.types.index(t1)+1]:")

# R06.h: results cached on the object and re-used after a re-solve
mutant('C06-gr-cache-reused', 'C06', 'R06.h', CA + 'pair_correlation.py', "    PRISM.pairCorr = PRISM.totalCorr + 1.0", "    if getattr(PRISM,'pairCorr',None) is not None:\n        return PRISM.pairCorr\n    PRISM.pairCorr = PRISM.totalCorr + 1.0")
mutant('C06-sf-cache-reused', 'C06', 'R06.h', CA + 'structure_factor.py', "    structureFactor = (PRISM.totalCorr*PRISM.sys.density.pair + PRISM.omega)", "    if getattr(PRISM,'_sk',None) is None:\n        PRISM._sk = (PRISM.totalCorr*PRISM.sys.density.pair + PRISM.omega)\n    structureFactor = PRISM._sk * 1.0")
twin('C06-twin-sf-store-only', ['C06', 'C05'], CA + 'structure_factor.py', "    return structureFactor", "    PRISM.last_structure_factor = structureFactor.get_copy()\n    return structureFactor")

mutantN('C07-ma-skip-allclose', ['C07', 'C06'], 'R07.m', [(DO, "        for (i,j),(t1,t2),pair in marray.iterpairs():\n            marray[t1,t2] = self.to_real(pair)", "        for (i,j),(t1,t2),pair in marray.iterpairs():\n            if np.allclose(pair,0.0):\n                continue\n            marray[t1,t2] = self.to_real(pair)")])
mutant('C08-dst-padded', ['C08', 'C07'], 'R08.t', DO, "return dst(self.DST_II_coeffs*array,type=2)/self.k", "return dst(self.DST_II_coeffs*array,type=2,n=2*self._length)[:self._length]/self.k")
twin('C08-twin-dst-n-default', ['C08', 'C07'], DO, "return dst(self.DST_II_coeffs*array,type=2)/self.k", "return dst(self.DST_II_coeffs*array,type=2,n=len(array),norm=None)/self.k")
mutant('C07-coeffs-lazy', ['C07', 'C08'], 'R07.i', DO, "        self.DST_II_coeffs = 2.0*np.pi *self.r*self._dr \n", "        if getattr(self,'DST_II_coeffs',None) is None or len(self.DST_II_coeffs)!=self._length:\n            self.DST_II_coeffs = 2.0*np.pi *self.r*self._dr \n")
mutant('C09-hnc-out-buffer', 'C09', 'R09.h', HNCF, "            self.value = np.exp(gamma - self.potential) - 1.0 - gamma", "            if self.value is None:\n                self.value = np.empty(np.shape(gamma))\n            np.subtract(gamma,self.potential,out=self.value)\n            np.exp(self.value,out=self.value)\n            self.value -= 1.0 + gamma")
mutant('C09-msa-mask-cached', ['C09', 'C03'], 'R09.h', MSAF, "            mask = r>self.sigma\n            self.value[mask] = -self.potential[mask]", "            if getattr(self,'_mask',None) is None:\n                self._mask = r>self.sigma\n            mask = self._mask\n            self.value[mask] = -self.potential[mask]")
mutant('C09-ms-zero-core', 'C09', 'R09.d', MSF, "            self.value = np.exp(np.sqrt(gamma - self.potential + 0.5) - 1.0) - 1.0 - gamma", "            self.value = -1 - gamma\n            mask = r>0.0\n            self.value[mask] = np.exp(np.sqrt(gamma[mask] - self.potential[mask] + 0.5) - 1.0) - 1.0 - gamma[mask]")
twin('C09-twin-ms-negative-core', ['C09', 'C03'], MSF, "            self.value = np.exp(np.sqrt(gamma - self.potential + 0.5) - 1.0) - 1.0 - gamma", "            self.value = -1 - gamma\n            mask = r>-1.0\n            self.value[mask] = np.exp(np.sqrt(gamma[mask] - self.potential[mask] + 0.5) - 1.0) - 1.0 - gamma[mask]")

# ---- a further sweep of hand-written mutants (areas the seeded changes did not touch) ---------------------------------
mutant('C01-gamma-times-r', 'C01', None, PR, "        self.GammaIn     /= self.sys.domain.long_r", "        self.GammaIn     *= self.sys.domain.long_r")
mutant('C01-no-fourier-c', 'C01', None, PR, "        self.sys.domain.MatrixArray_to_fourier(self.directCorr)\n", "        self.directCorr.space = Space.Fourier\n")
mutant('C01-residual-in-fourier', 'C01', None, PR, "        self.sys.domain.MatrixArray_to_real(self.GammaOut)\n", "")
mutant('C01-omega-dot-order', 'C01', None, PR, "        self.totalCorr  = self.IOC.dot(self.OC).dot(self.omega)", "        self.totalCorr  = self.omega.dot(self.IOC).dot(self.OC)")
mutant('C01-oc-inplace', 'C01', None, PR, "        self.OC = self.omega.dot(self.directCorr)", "        self.OC = self.omega.dot(self.directCorr,inplace=True)")
mutant('C01-solve-resync-guess', ['C01', 'C06'], 'R01.f', PR, "        self.cost(self.minimize_result.x)\n", "        self.cost(guess)\n")
mutant('C06-solve-leaves-fourier', 'C06', None, PR, "        if self.totalCorr.space == Space.Fourier:\n            self.sys.domain.MatrixArray_to_real(self.totalCorr)\n", "")
mutant('C05-sf-minus', 'C05', None, CA + 'structure_factor.py', "PRISM.totalCorr*PRISM.sys.density.pair + PRISM.omega", "PRISM.totalCorr*PRISM.sys.density.pair - PRISM.omega")
mutant('C05-pmf-no-minus', 'C05', None, CA + 'pmf.py', "rdf = -1.0 * PRISM.sys.kT * np.log(rdf.data)", "rdf = 1.0 * PRISM.sys.kT * np.log(rdf.data)")
mutant('C05-spin-diag-only', 'C05', None, CA + 'spinodal_condition.py', "curve += -2*C_AB * rho_AB * omega_AB", "curve += -2*C_AB * rho_AB * omega_BB")
mutant('C05-chi-rho-site', 'C05', None, CA + 'chi.py', "C_AB = PRISM.directCorr[t1,t2]", "C_AB = PRISM.directCorr[t2,t2]")
mutant('C16-check-after', 'C16', 'R16.d', SY, "        self.check() #sanity check\n\n        p = PRISM(self)", "        p = PRISM(self)\n        self.check() #sanity check\n")
mutant('C16-domain-alias', 'C16', None, PR, "        self.sys = deepcopy(sys)", "        self.sys = deepcopy(sys,{id(sys.domain):sys.domain})")
mutant('C16-retain-caller', 'C16', None, PR, "        self.sys = deepcopy(sys)", "        self.sys = deepcopy(sys)\n        self.parent = sys")
mutant('C14-iterpairs-diag-flag', 'C14', None, PT, "test = lambda i,j: i<j", "test = lambda i,j: i<=j")
mutant('C14-getitem-swapped', 'C14', None, PT, "        return self.values[t1][t2]", "        return self.values[t2][t2]")
mutant('C15-pair-old-value', ['C15', 'C04'], None, D, "            self.density[t1] = rho1\n", "")

# ---- round d: divergent core (0*inf), dtype casts, copies keep their space flag, two-instance independence ------------
MSAF = 'pyPRISM/closure/MeanSphericalApproximation.py'
HNCF = 'pyPRISM/closure/HyperNettedChain.py'
mutantN('C03-msa-blend-zero-times-inf', ['C03', 'C09'], 'R03.i', [
    (MSAF, "            self.value = -1 - gamma\n", "            outside = np.asarray(r>self.sigma,dtype=float)\n"),
    (MSAF, "            mask = r>self.sigma\n            self.value[mask] = -self.potential[mask]\n",
     "            self.value = (outside - 1.0)*(1.0 + gamma) - outside*self.potential\n")])
# exp(gamma-u) is 0 where u is +inf, so the weighted form of HNC is exact there too; np.where selects, never multiplies
twinN('C03-twin-hnc-blend', ['C03', 'C09'], [
    (HNCF, "            self.value = -1 - gamma\n", "            outside = (r>self.sigma).astype(float)\n"),
    (HNCF, "            mask = r>self.sigma\n            self.value[mask] = np.exp(gamma[mask] - self.potential[mask]) - 1.0 - gamma[mask]\n",
     "            self.value = outside*(np.exp(gamma - self.potential) - 1.0 - gamma) + (1.0 - outside)*(-1 - gamma)\n")])
twinN('C03-twin-msa-where', ['C03', 'C09'], [
    (MSAF, "            self.value = -1 - gamma\n", "            pass\n"),
    (MSAF, "            mask = r>self.sigma\n            self.value[mask] = -self.potential[mask]\n",
     "            self.value = np.where(r>self.sigma, -self.potential, -1 - gamma)\n")])
mutant('C09-hnc-exp-clamp', ['C09', 'C01'], 'R09.d', HNCF, "            self.value = np.exp(gamma - self.potential) - 1.0 - gamma",
       "            self.value = np.exp(np.minimum(gamma - self.potential,100.0)) - 1.0 - gamma")
DOMF = 'pyPRISM/core/Domain.py'
mutant('C07-astype-input-dtype', ['C07', 'C08'], None, DOMF, "        return dst(self.DST_II_coeffs*array,type=2)/self.k",
       "        array = np.asarray(array)\n        return (dst(self.DST_II_coeffs*array,type=2)/self.k).astype(array.dtype,copy=False)")
mutant('C07-astype-int', ['C07', 'C08'], None, DOMF, "        return dst(self.DST_II_coeffs*array,type=2)/self.k",
       "        return (dst(self.DST_II_coeffs*array,type=2)/self.k).astype(int)")
twin('C07-twin-astype-float', ['C07', 'C08', 'C01', 'C06'], DOMF, "        return dst(self.DST_II_coeffs*array,type=2)/self.k",
     "        return (dst(self.DST_II_coeffs*np.asarray(array,dtype=float),type=2)/self.k).astype(np.float64)")
MAF = 'pyPRISM/core/MatrixArray.py'
mutant('C13-copy-drops-space', ['C13', 'C07'], 'R13.3', MAF,
       "return MatrixArray(length=self.length,rank=self.rank,data=np.copy(self.data),space=self.space,types=self.types)",
       "return MatrixArray(length=self.length,rank=self.rank,data=np.copy(self.data),types=list(self.types))")
twin('C13-twin-copy-types-list', ['C13', 'C07', 'C01'], MAF,
     "return MatrixArray(length=self.length,rank=self.rank,data=np.copy(self.data),space=self.space,types=self.types)",
     "return MatrixArray(self.length,self.rank,data=self.data.copy(),types=list(self.types),space=self.space)")
KOYF = 'pyPRISM/omega/DiscreteKoyama.py'
mutantN('C11-koyama-class-cache-incomplete-key', 'C11', 'R11.i', [
    (KOYF, "    def __init__(self,sigma,l,length,lp):", "    _moments = {}\n\n    def __init__(self,sigma,l,length,lp):"),
    (KOYF, "        l = self.l\n        q = -self.cos1\n", "        key = (n,self.l,self.lp)\n        if key in self._moments:\n            return self._moments[key]\n        l = self.l\n        q = -self.cos1\n"),
    (KOYF, "        r4 = r2*r2 + l*l*l*l*D\n\n        return r2,r4", "        r4 = r2*r2 + l*l*l*l*D\n\n        self._moments[key] = (r2,r4)\n        return r2,r4")])
twinN('C11-twin-koyama-class-cache-full-key', 'C11', [
    (KOYF, "    def __init__(self,sigma,l,length,lp):", "    _moments = {}\n\n    def __init__(self,sigma,l,length,lp):"),
    (KOYF, "        l = self.l\n        q = -self.cos1\n", "        key = (n,self.l,self.lp,self.sigma)\n        if key in self._moments:\n            return self._moments[key]\n        l = self.l\n        q = -self.cos1\n"),
    (KOYF, "        r4 = r2*r2 + l*l*l*l*D\n\n        return r2,r4", "        r4 = r2*r2 + l*l*l*l*D\n\n        self._moments[key] = (r2,r4)\n        return r2,r4")])
NFJF = 'pyPRISM/omega/NonOverlappingFreelyJointedChain.py'
mutant('C11-nfjc-window-follows-kmax', 'C11', 'R11.e', NFJF, "        x = np.arange(dx,100,dx)",
       "        x = np.linspace(dx,max(100,2*np.max(k)),999,endpoint=False)")
SPF = 'pyPRISM/calculate/spinodal_condition.py'
twin('C05-twin-spinodal-filter-else', ['C04', 'C05', 'C06'], SPF, "            if i<j:\n", "            if not i<j:\n                pass\n            else:\n")

# ---- round e -----------------------------------------------------------------------------------------------------
IMA = 'pyPRISM/core/IdentityMatrixArray.py'
mutant('C13-identity-misses-last-diagonal', 'C13', 'R13.I', IMA, "        for i in range(rank):\n            self.data[:,i,i] = 1.0",
       "        for i in range(rank-1):\n            self.data[:,i,i] = 1.0")
mutant('C13-identity-ones-everywhere', 'C13', 'R13.I', IMA, "        self.data = np.zeros((length,rank,rank))\n        for i in range(rank):\n            self.data[:,i,i] = 1.0",
       "        self.data = np.ones((length,rank,rank))")
twin('C13-twin-identity-fancy-index', ['C13', 'C01'], IMA, "        for i in range(rank):\n            self.data[:,i,i] = 1.0",
     "        d = np.arange(rank)\n        self.data[:,d,d] = 1.0")
twin('C13-twin-identity-eye', ['C13', 'C01'], IMA, "        for i in range(rank):\n            self.data[:,i,i] = 1.0",
     "        self.data += np.eye(rank)")
SYF = 'pyPRISM/core/System.py'
mutant('C16-system-kt-not-second-positional', ['C16', 'C01', 'C04'], 'R00.sig', SYF, "    def __init__(self,types,kT=1.0):",
       "    def __init__(self,types,domain=None,kT=1.0):")
mutant('C16-system-kt-default-changed', ['C16', 'C04'], 'R00.sig', SYF, "    def __init__(self,types,kT=1.0):", "    def __init__(self,types,kT=1):" if False else "    def __init__(self,types,kT=2.0):")
twin('C16-twin-system-trailing-optional', ['C16', 'C01', 'C04'], SYF, "    def __init__(self,types,kT=1.0):", "    def __init__(self,types,kT=1.0,name=None):")
twin('C16-twin-system-kwonly', ['C16', 'C01'], SYF, "    def __init__(self,types,kT=1.0):", "    def __init__(self,types,kT=1.0,*,label=None):")
HSF = 'pyPRISM/potential/HardSphere.py'
mutant('C10-hardsphere-lambda-reads-self', ['C10', 'C03'], 'R10.h', HSF, "np.where(r>sigma,0.0,high_value)", "np.where(r>sigma,0.0,self.high_value)")
DOMF2 = 'pyPRISM/core/Domain.py'
mutantN('C07-class-level-coefficients', 'C07', 'R07.j', [
    (DOMF2, "    def __init__(self,length,dr=None,dk=None):", "    DST_coeffs = {}\n\n    def __init__(self,length,dr=None,dk=None):"),
    (DOMF2, "        self.DST_II_coeffs = ", "        self.DST_coeffs[2] = self.DST_II_coeffs = "),
    (DOMF2, "        return dst(self.DST_II_coeffs*array,type=2)/self.k", "        return dst(self.DST_coeffs[2]*array,type=2)/self.k")])
mutant('C09-msa-length-assert-inverted', ['C09', 'C01'], 'R09.d', MSAF, "assert len(gamma) == len(self.potential),'Domain mismatch!'", "assert len(gamma) != len(self.potential),'Domain mismatch!'")
PRF = 'pyPRISM/core/PRISM.py'
mutant('C01-solve-drops-user-options', 'C01', 'R01.s', PRF, "        if options is None:\n            options = {'disp':True}", "        if options is not None:\n            options = {'disp':True}")
mutant('C01-solve-ignores-guess', 'C01', 'R01.s', PRF, "        if guess is None:\n            guess = np.zeros(", "        if guess is not None:\n            guess = np.zeros(")
twin('C01-twin-solve-options-default', 'C01', PRF, "        if options is None:\n            options = {'disp':True}", "        options = {'disp':True} if options is None else options")
KOYF2 = 'pyPRISM/omega/DiscreteKoyama.py'
mutant('C11-koyama-asq-denominator', 'C11', 'R11.k', KOYF2, "            Asq = r2*(1-C)/6 #taking the square root results in many domain errors\n        except ValueError as e:\n            raise ValueError('Bad chain parameters. (Try reducing epsilon)')\n            \n        return np.sin(B*k)",
       "            Asq = r2*(1-C)/7 #taking the square root results in many domain errors\n        except ValueError as e:\n            raise ValueError('Bad chain parameters. (Try reducing epsilon)')\n            \n        return np.sin(B*k)")
mutant('C11-koyama-cos-sq-sign', 'C11', 'R11.g', KOYF2, "return (2/e)*cos1 + ( exp(e) - cos0*cos0*exp(-e*cos0) )", "return (2/e)*cos1 + ( exp(e) + cos0*cos0*exp(-e*cos0) )")
mutant('C11-koyama-r2-coefficient', 'C11', 'R11.g', KOYF2, "r2 = n*l*l*((1-self.cos1)/(1+self.cos1) + 2*self.cos1/n", "r2 = n*l*l*((1-self.cos1)/(1+self.cos1) + 3*self.cos1/n")
mutant('C11-koyama-D-coefficient', 'C11', 'R11.g', KOYF2, "D -= 6*q**(2*n+2)/(1-q)**(4.0)", "D -= 5*q**(2*n+2)/(1-q)**(4.0)")
mutant('C11-koyama-linearised-cos2-sign', 'C11', 'R11.b', KOYF2, "(1.0/3.0)*(1.0+(self.cos0-1.0)*self.cos0) - \n", "(1.0/3.0)*(1.0+(self.cos0-1.0)*self.cos0) + \n")
mutant('C11-koyama-root-equation-sign', 'C11', 'R11.b', KOYF2, "funk = lambda e: self.cos_avg(e[0]) - self.cos1", "funk = lambda e: self.cos_avg(e[0]) + self.cos1")
mutant('C11-koyama-lpmin-before-check', 'C11', 'R11.v', KOYF2, "        if self.l > self.sigma/2.0:\n            self.lp_min = (4.0*self.l**3)/(4.0*self.l**2-self.sigma**2)\n        else:",
       "        self.lp_min = (4.0*self.l**3)/(4.0*self.l**2-self.sigma**2)\n        if self.l > self.sigma/2.0:\n            pass\n        else:")
twin('C11-twin-koyama-cos-avg-rewritten', 'C11', KOYF2, "        return 1/e  - ( exp(e) + cos0*exp(-e*cos0) )/( exp(e) - exp(-e*cos0) )", "        den = exp(e) - exp(-e*cos0)\n        return 1.0/e - exp(e)/den - cos0*exp(-e*cos0)/den")
mutant('C16-system-iterpairs-negated-filter', 'C16', 'R16.i', SYF, "            if test(i,j):\n                yield (i,j),(t1,t2)", "            if not test(i,j):\n                yield (i,j),(t1,t2)")
twin('C16-twin-system-iterpairs-operator', 'C16', SYF, "            test = lambda i,j: i<=j", "            test = lambda i,j: not j<i")
NFJ2 = 'pyPRISM/omega/NonOverlappingFreelyJointedChain.py'
mutant('C11-nfjc-normalisation-sign', 'C11', 'R11.n', NFJ2, "B = (1 - J0val)**(-1.0)", "B = (1 + J0val)**(-1.0)")
mutant('C11-nfjc-j0-prefactor', 'C11', 'R11.n', NFJ2, "J0val = 2/np.pi * integrate(", "J0val = 3/np.pi * integrate(")
mutant('C11-nfjc-kernel-sign', 'C11', 'R11.n', NFJ2, "np.sin(K-X)/(K-X) - np.sin(K+X)/(K+X)", "np.sin(K-X)/(K-X) + np.sin(K+X)/(K+X)")
mutant('C11-nfjc-multiplicity-divided', 'C11', None, NFJ2, "self.value +=  (self.length - tau) * (omega_t - (sinkk)**(tau))", "self.value +=  (self.length - tau) / (omega_t - (sinkk)**(tau))")
mutant('C11-nfjc-empty-grid', 'C11', None, NFJ2, "x = np.arange(dx,100,dx)", "x = np.arange(100,dx,dx)")

# ---- round g: optimisation-style changes (memoisation, early returns, dtype-keeping operations) --------------------------
PRg = 'pyPRISM/core/PRISM.py'
_LOOP = "        for (i,j),(t1,t2),U in self.sys.potential.iterpairs():"
_WIRE = "                self.sys.closure[t1,t2].potential = U.calculate(self.sys.domain.r) / self.sys.kT\n            elif"
mutantN('C16-potential-cache-partial-key', 'C16', 'R16.v', [
    (PRg, _LOOP, "        evaluated = {}\n" + _LOOP),
    (PRg, _WIRE, "                key = (type(U),U.sigma)\n                if key not in evaluated:\n"
                 "                    evaluated[key] = U.calculate(self.sys.domain.r) / self.sys.kT\n"
                 "                self.sys.closure[t1,t2].potential = evaluated[key]\n            elif")])
twinN('C16-twin-potential-cache-keyed-by-object', ['C16', 'C10'], [
    (PRg, _LOOP, "        evaluated = {}\n" + _LOOP),
    (PRg, _WIRE, "                key = id(U)\n                if key not in evaluated:\n"
                 "                    evaluated[key] = U.calculate(self.sys.domain.r) / self.sys.kT\n"
                 "                self.sys.closure[t1,t2].potential = evaluated[key]\n            elif")])
HSg = 'pyPRISM/potential/HardSphere.py'
mutant('C10-arithmetic-mask-infinite-core', 'C10', 'R10.i', HSg, 'np.where(r>sigma,0.0,high_value)', 'high_value*(r<=sigma)')
twin('C10-twin-where-swapped', 'C10', HSg, 'np.where(r>sigma,0.0,high_value)', 'np.where(r<=sigma,high_value,0.0)')
DOg = 'pyPRISM/core/Domain.py'
mutant('C08-reciprocal-of-integer-grid', 'C08', 'R08.i', DOg, 'return dst(self.DST_III_coeffs*array,type=3)/self.r',
       'return dst(self.DST_III_coeffs*array,type=3)*np.reciprocal(self.r)')
twin('C08-twin-multiply-by-float-inverse', ['C08', 'C07'], DOg, 'return dst(self.DST_III_coeffs*array,type=3)/self.r',
     'return dst(self.DST_III_coeffs*array,type=3)*(1.0/self.r)')
mutant('C07-dr-setter-isclose-early-return', 'C07', 'R07.i', DOg,
       "    def dr(self,value):\n        self._dr = value\n",
       "    def dr(self,value):\n        if getattr(self,'_dr',None) is not None and np.isclose(value,self._dr):\n            return\n        self._dr = value\n")
twin('C07-twin-dr-setter-equal-early-return', 'C07', DOg,
     "    def dr(self,value):\n        self._dr = value\n",
     "    def dr(self,value):\n        if getattr(self,'_dr',None) is not None and value == self._dr:\n            return\n        self._dr = value\n")
FFg = 'pyPRISM/omega/FromFile.py'
mutant('C12-loadtxt-single-precision', 'C12', 'R12.f', FFg, 'np.loadtxt(self.fileName)', 'np.loadtxt(self.fileName,dtype=np.float32)')
twin('C12-twin-loadtxt-explicit-double', 'C12', FFg, 'np.loadtxt(self.fileName)', 'np.loadtxt(self.fileName,dtype=np.float64)')

# ---- round h: API-evolution style changes --------------------------------------------------------------------------------
LJg = 'pyPRISM/potential/LennardJones.py'
mutant('C10-shift-flag-identity-test', 'C10', 'R10.f', LJg, '            if self.shift:', '            if self.shift is True:')
twin('C10-twin-shift-flag-equality-test', 'C10', LJg, '            if self.shift:', '            if self.shift == True:')
PTg = 'pyPRISM/core/PairTable.py'
mutant('C14-getter-int-key-is-position', 'C14', 'R14.g', PTg, "        t1,t2 = index\n        return self.values[t1][t2]",
       "        t1,t2 = index\n        if isinstance(t1,int):\n            t1 = self.types[t1]\n        if isinstance(t2,int):\n"
       "            t2 = self.types[t2]\n        return self.values[t1][t2]")
twin('C14-twin-getter-unpacks-by-position', 'C14', PTg, "        t1,t2 = index\n        return self.values[t1][t2]",
     "        t1 = index[0]\n        t2 = index[1]\n        row = self.values[t1]\n        return row[t2]")

# ---- one-component fast paths: the symbolic worlds assume a generic rank >= 2, rank 1 is decided concretely by R13.o --------
MAg = 'pyPRISM/core/MatrixArray.py'
_DOT_OLD = ("        if inplace:\n            self.data = np.einsum('lij,ljk->lik', self.data, other.data)\n            return self\n"
            "        else:\n            data = np.einsum('lij,ljk->lik', self.data, other.data)\n"
            "            return MatrixArray(length=self.length,rank=self.rank,data=data,space=self.space,types=self.types)")
_DOT_NEW = ("        if self.rank == 1:\n            data = self.data * other.data\n        else:\n"
            "            data = np.einsum('lij,ljk->lik', self.data, other.data)\n"
            "        if inplace:\n            self.data = data\n            return self\n        else:\n"
            "            return MatrixArray(length=self.length,rank=self.rank,data=data,space=self.space,types=self.types)")
twin('C13-twin-rank-one-fast-path-after-guard', ['C13', 'C05', 'C01'], MAg, _DOT_OLD, _DOT_NEW)
mutant('C13-rank-one-fast-path-before-guard', 'C13', 'R13.o', MAg,
       "        if isinstance(other,MatrixArray):\n            assert (self.space == other.space) or (Space.NonSpatial in (self.space,other.space)),MatrixArray.SpaceError\n        if inplace:\n            self.data = np.einsum(",
       "        if self.rank == 1 and not inplace:\n            return MatrixArray(length=self.length,rank=self.rank,data=self.data*other.data,space=self.space,types=self.types)\n"
       "        if isinstance(other,MatrixArray):\n            assert (self.space == other.space) or (Space.NonSpatial in (self.space,other.space)),MatrixArray.SpaceError\n        if inplace:\n            self.data = np.einsum(")
