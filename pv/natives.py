"""Summaries of the package's own container classes for the higher-layer analyses.

These are NOT trusted: every summary here restates a fact that a lower-layer rule derives from
the class's own source (R13.9 symmetric setter/getter, R13/R14.i iteration predicates, R14.c
copy-per-pair, R07.m transform loops).  A higher-layer obligation lists those rules under
`depends_on` and never passes when one of them does not hold.
"""
import ast
from . import nf as N
from . import pw as P
from .interp import (Num, Arr, View, Masked, Mask, Const, Obj, Func, Native, Seq, Lib, ClassRef, Types,
                     Label, Index, LabelIter, Unknown, Unsupported, Raised, NONE, TRUE, FALSE, const_num,
                     is_const_num, num_value, relabel, FALLBACK)
from . import lib as L


def _labels_of_key(key):
    if isinstance(key, Seq) and len(key.items) == 2 and all(isinstance(k, Label) for k in key.items):
        return key.items[0].name, key.items[1].name
    return None


# ---------------------------------------------------------------------------------------------
# MatrixArray
# ---------------------------------------------------------------------------------------------
def ma_getitem(ip, o, args, kwargs, node):
    ls = _labels_of_key(args[0])
    if ls is None:
        return FALLBACK
    data = o.attrs.get('data')
    if not isinstance(data, (Arr, View)):
        raise Unsupported('MatrixArray.data is not a heap array', node)
    return View(data, ('entry', ls[0], ls[1]))


def ma_setitem(ip, o, args, kwargs, node):
    ls = _labels_of_key(args[0])
    if ls is None:
        return FALLBACK
    data = o.attrs.get('data')
    if not isinstance(data, (Arr, View)):
        raise Unsupported('MatrixArray.data is not a heap array', node)
    v = args[1]
    t, _ = ip.term_of(v, node)
    ip.write_view(View(data, ('entry', ls[0], ls[1])), t, node, how='setitem')
    if ip.loopctx:
        ip.loopctx[-1]['stores'].append({'kind': 'ma', 'arr': data, 'obj': o, 'labels': ls,
                                         'ctx_chain': list(ip.loopctx), 'loc': ip.loc(node), 'term': t})
    return NONE


_ITERPAIRS_CACHE = {}


def enumerate_iterpairs(prog, cls, rank, name='iterpairs'):
    """abstract execution of the real MatrixArray.iterpairs generator on an array of concrete `rank`: the list of
    (i, j, label_i_ok, label_j_ok, yields_own_pair_function)"""
    from .interp import Interp
    ip = Interp(prog)
    labels = [Label('t%d' % i) for i in range(rank)]
    ip.declare('M', 'tensor', symmetric=True)
    data = Arr(N.sym('M'), 'self.data', ip)
    o = Obj(cls, {'rank': const_num(rank), 'types': Seq(list(labels), 'list'), 'data': data,
                  'length': Num(ip.declare('L', integer=True)), 'typeMap': Obj('typemap', {})}, 'self')
    m = cls.find_method(name)
    res = ip.call(ip.make_func(m, o), [], {})
    if not isinstance(res, Seq):
        raise Unsupported('iterpairs does not yield a sequence')
    out = []
    for item in res.items:
        if not (isinstance(item, Seq) and len(item.items) == 3):
            raise Unsupported('iterpairs yields %r' % (item,))
        ij, tt, pair = item.items
        if not (isinstance(ij, Seq) and len(ij.items) == 2 and all(is_const_num(x) for x in ij.items)):
            raise Unsupported('iterpairs yields non-constant indices')
        i, j = (int(num_value(x)) for x in ij.items)
        lab_ok = isinstance(tt, Seq) and len(tt.items) == 2 and 0 <= i < rank and 0 <= j < rank and \
            tt.items[0] is labels[i] and tt.items[1] is labels[j]
        own = isinstance(pair, View) and pair.base is data and pair.idx in (('entryc', i, j),)
        out.append((i, j, lab_ok, own))
    return out


def iterpairs_filter_from_source(cls, name='iterpairs', prog=None):
    """the triangle predicate of MatrixArray.iterpairs, decided by enumerating the pairs the real generator yields for
    rank 1..4 (so any spelling of the loop is accepted); falls back to reading an `if i<=j` filter from the source"""
    key = (id(cls), name)
    if key in _ITERPAIRS_CACHE:
        return _ITERPAIRS_CACHE[key]
    op = None
    prog = prog or getattr(cls.module, 'prog', None)
    if prog is not None:
        try:
            ops = set()
            for rank in (1, 2, 3, 4):
                got = enumerate_iterpairs(prog, cls, rank, name)
                if not all(l and o_ for _, _, l, o_ in got):
                    ops.add(None)
                    break
                pairs = [(i, j) for i, j, _, _ in got]
                table = {'<=': [(i, j) for i in range(rank) for j in range(rank) if i <= j],
                         '<': [(i, j) for i in range(rank) for j in range(rank) if i < j],
                         '>=': [(i, j) for i in range(rank) for j in range(rank) if i >= j],
                         '>': [(i, j) for i in range(rank) for j in range(rank) if i > j]}
                ops.add(tuple(k for k, v in table.items() if v == pairs and (rank > 1 or k in ('<=', '>='))) or None)
            cands = None
            for o_ in ops:
                if o_ is None:
                    cands = set()
                    break
                cands = set(o_) if cands is None else (cands & set(o_))
            if cands and len(cands) >= 1:
                op = sorted(cands, key=lambda x: ('<=', '<', '>=', '>').index(x))[0] if len(cands) == 1 else \
                    [c for c in ('<=', '<', '>=', '>') if c in cands][0]
        except (Unsupported, Raised):
            op = None
    if op is None:
        m = cls.find_method(name)
        if m is not None:
            for n in ast.walk(m.node):
                if isinstance(n, ast.If) and isinstance(n.test, ast.Compare) and len(n.test.ops) == 1:
                    t = n.test
                    if isinstance(t.left, ast.Name) and isinstance(t.comparators[0], ast.Name):
                        if any(isinstance(x, ast.Yield) for x in ast.walk(n)):
                            op = {ast.LtE: '<=', ast.Lt: '<', ast.GtE: '>=', ast.Gt: '>'}.get(type(t.ops[0]))
    _ITERPAIRS_CACHE[key] = op
    return op


def ma_iterpairs(ip, o, args, kwargs, node):
    data = o.attrs.get('data')
    if not isinstance(data, (Arr, View)):
        raise Unsupported('MatrixArray.data is not a heap array', node)
    op = iterpairs_filter_from_source(o.cls, prog=ip.prog) if hasattr(o.cls, 'find_method') else None
    if op is None:
        raise Unsupported('cannot read the iteration predicate of MatrixArray.iterpairs', node)
    loc = ip.loc(node)

    def make(ip2):
        a, b = ip2.new_label(), ip2.new_label()
        elem = Seq([Seq([Index(a.name), Index(b.name)]), Seq([a, b]), View(data, ('entry', a.name, b.name))])
        return elem, {'labels': [a.name, b.name], 'filters': [(op, a.name, b.name, loc)],
                      'kind': 'MatrixArray.iterpairs'}
    return LabelIter(make, 'MatrixArray.iterpairs')


# ---------------------------------------------------------------------------------------------
# PairTable / ValueTable
# ---------------------------------------------------------------------------------------------
def new_pairtable(ip, cls, types, name, symmetric=True, elem=None):
    o = Obj(cls, {'types': types, 'name': Const(name), 'symmetric': Const(symmetric)}, None)
    o.attrs['_native_store'] = []
    o.attrs['_native_elem'] = elem
    # the raw dict-of-dicts: code that reaches into it bypasses the copying / mirroring setter
    o.attrs['values'] = Obj('pt_values', {'table': o})
    return o


def ptv_getitem(ip, o, args, kwargs, node):
    if not isinstance(args[0], Label):
        raise Unsupported('raw table row key is not a type label', node)
    return Obj('pt_row', {'table': o.attrs['table'], 'row': args[0]})


def ptrow_getitem(ip, o, args, kwargs, node):
    if not isinstance(args[0], Label):
        raise Unsupported('raw table cell key is not a type label', node)
    return pt_lookup(ip, o.attrs['table'], (o.attrs['row'].name, args[0].name), node)


def ptrow_setitem(ip, o, args, kwargs, node):
    """table.values[t1][t2] = v : the object itself is stored in exactly that cell (no deep copy, no mirrored cell)"""
    if not isinstance(args[0], Label):
        raise Unsupported('raw table cell key is not a type label', node)
    t = o.attrs['table']
    rec = {'labels': (o.attrs['row'].name, args[0].name), 'value': args[1], 'ctx_chain': list(ip.loopctx), 'loc': ip.loc(node),
           'raw': True}
    t.attrs['_native_store'].append(rec)
    if t.origin is not None:
        ip.event('write', t.origin, node, via='raw store into PairTable.values')
    if ip.loopctx:
        ip.loopctx[-1]['stores'].append({'kind': 'pt', 'obj': t, 'labels': rec['labels'], 'rec': rec})
    return NONE


def pt_new(ip, cls, args, kwargs, node):
    names = ['types', 'name', 'symmetric']
    b = dict(zip(names, args))
    b.update(kwargs)
    if 'types' not in b or 'name' not in b:
        raise Raised('TypeError', 'PairTable() missing argument')
    sym = b.get('symmetric', TRUE)
    if not isinstance(sym, Const):
        raise Unsupported('PairTable symmetric flag is not a constant', node)
    nm = b['name'].v if isinstance(b['name'], Const) else '?'
    o = new_pairtable(ip, cls, b['types'], nm, bool(sym.v))
    ip.notes.append(('pairtable-new', {'name': nm, 'symmetric': bool(sym.v), 'loc': ip.loc(node),
                                       'explicit_symmetric': 'symmetric' in b}))
    return o


def pt_setitem(ip, o, args, kwargs, node):
    ls = _labels_of_key(args[0])
    if ls is None:
        raise Unsupported('PairTable key is not a pair of type labels', node)
    v = L.deepcopy(ip, [args[1]], {}, node)
    rec = {'labels': ls, 'value': v, 'ctx_chain': list(ip.loopctx), 'loc': ip.loc(node)}
    o.attrs['_native_store'].append(rec)
    if o.origin is not None:
        ip.event('write', o.origin, node, via='PairTable.__setitem__')
    if ip.loopctx:
        ip.loopctx[-1]['stores'].append({'kind': 'pt', 'obj': o, 'labels': ls, 'rec': rec})
    return NONE


def pt_lookup(ip, o, ls, node):
    symmetric = bool(o.attrs['symmetric'].v)
    for rec in reversed(o.attrs['_native_store']):
        if symmetric:
            same = ip.pair_same(rec['labels'], ls)
        else:
            same = ip._and3(ip.labels_equal(rec['labels'][0], ls[0]), ip.labels_equal(rec['labels'][1], ls[1]))
        if same is True:
            return rec['value']
        if same is None:
            e1 = ip.decide_labels_equal(rec['labels'][0], ls[0], node) and ip.decide_labels_equal(rec['labels'][1], ls[1], node)
            if not e1 and symmetric:
                e1 = ip.decide_labels_equal(rec['labels'][0], ls[1], node) and ip.decide_labels_equal(rec['labels'][1], ls[0], node)
            if e1:
                return rec['value']
    elem = o.attrs.get('_native_elem')
    if elem is not None:
        return elem(ip, ls[0], ls[1], node)
    return NONE


def pt_getitem(ip, o, args, kwargs, node):
    ls = _labels_of_key(args[0])
    if ls is None:
        raise Unsupported('PairTable key is not a pair of type labels', node)
    return pt_lookup(ip, o, ls, node)


def _flag(v, default):
    if v is None:
        return default
    if isinstance(v, Const):
        return bool(v.v)
    raise Unsupported('iterpairs flag is not a constant')


def pt_iterpairs(ip, o, args, kwargs, node):
    b = dict(zip(['full', 'diagonal'], args))
    b.update(kwargs)
    full = _flag(b.get('full'), False)
    diagonal = _flag(b.get('diagonal'), True)
    op = None if full else ('<=' if diagonal else '<')
    loc = ip.loc(node)

    def make(ip2):
        a, bb = ip2.new_label(), ip2.new_label()
        if op == '<':
            ip2.distinct.add(frozenset((a.name, bb.name)))
        val = pt_lookup(ip2, o, (a.name, bb.name), node)
        elem = Seq([Seq([Index(a.name), Index(bb.name)]), Seq([a, bb]), val])
        ctx = {'labels': [a.name, bb.name], 'kind': 'PairTable.iterpairs',
               'filters': [(op, a.name, bb.name, loc)] if op else []}
        return elem, ctx
    return LabelIter(make, 'PairTable.iterpairs')


def pt_apply(ip, o, args, kwargs, node):
    b = dict(zip(['func', 'inplace'], args))
    b.update(kwargs)
    func = b['func']
    inplace = _flag(b.get('inplace'), True)
    if inplace:
        raise Unsupported('PairTable.apply(inplace=True) in a summary context', node)
    if o.attrs['_native_store']:
        raise Unsupported('apply on a table with symbolic stores', node)
    src = o

    def elem(ip2, a, bb, n2):
        x = pt_lookup(ip2, src, (a, bb), n2)
        return ip2.call(func, [x], {}, n2)
    t = new_pairtable(ip, o.cls, o.attrs['types'], o.attrs['name'].v, bool(o.attrs['symmetric'].v), elem)
    ip.notes.append(('pairtable-apply', {'inplace': inplace, 'loc': ip.loc(node)}))
    return t


def pt_export(ip, o, args, kwargs, node):
    b = dict(zip(['space'], args))
    b.update(kwargs)
    space = b.get('space', Const(('Space', 'Real')))
    val = pt_lookup(ip, o, ('@a', '@b'), node)
    t, _ = ip.term_of(val, node)
    if P.is_pw(t):
        raise Unsupported('piecewise table export', node)
    macls = ip.prog.cls('pyPRISM.core.MatrixArray::MatrixArray')
    data = Arr(N.fn('tab', t), None, ip)
    ma = Obj(macls, {'data': data, 'space': space, 'types': o.attrs['types'],
                     'rank': Num(ip.declare('n_types', integer=True), 'scalar'),
                     'length': Num(N.sym('len(export)'), 'scalar'),
                     'typeMap': Obj('typemap', {})}, None)
    ip.notes.append(('pairtable-export', {'space': space, 'loc': ip.loc(node)}))
    return ma


def pt_check(ip, o, args, kwargs, node):
    ip.notes.append(('check', {'table': o.attrs['name'].v if isinstance(o.attrs.get('name'), Const) else '?',
                               'loc': ip.loc(node)}))
    return NONE


def tbl_listify(ip, o, args, kwargs, node):
    v = args[0]
    if isinstance(v, Label):
        return Seq([v], 'list')
    if isinstance(v, Seq):
        return Seq(list(v.items), 'list')
    if isinstance(v, Types):
        return v
    if isinstance(v, Const) and isinstance(v.v, str):
        return Seq([v], 'list')
    raise Unsupported('listify(%r)' % (v,), node)


def new_valuetable(ip, cls, types, name, elem=None):
    o = Obj(cls, {'types': types, 'name': Const(name)}, None)
    o.attrs['_native_store'] = []
    o.attrs['_native_elem'] = elem
    return o


def vt_new(ip, cls, args, kwargs, node):
    b = dict(zip(['types', 'name'], args))
    b.update(kwargs)
    nm = b['name'].v if isinstance(b['name'], Const) else '?'
    return new_valuetable(ip, cls, b['types'], nm)


def vt_getitem(ip, o, args, kwargs, node):
    k = args[0]
    if not isinstance(k, Label):
        raise Unsupported('ValueTable key is not a type label', node)
    for rec in reversed(o.attrs['_native_store']):
        same = ip.decide_labels_equal(rec['label'], k.name, node)
        if same is True:
            return rec['value']
    elem = o.attrs.get('_native_elem')
    if elem is not None:
        return elem(ip, k.name, node)
    return NONE


def vt_setitem(ip, o, args, kwargs, node):
    k = args[0]
    if not isinstance(k, Label):
        raise Unsupported('ValueTable key is not a type label', node)
    o.attrs['_native_store'].append({'label': k.name, 'value': args[1], 'loc': ip.loc(node)})
    if o.origin is not None:
        ip.event('write', o.origin, node, via='ValueTable.__setitem__')
    return NONE


# ---------------------------------------------------------------------------------------------
# Domain.MatrixArray_to_fourier / _to_real
# ---------------------------------------------------------------------------------------------
def _transform(target, fname):
    def f(ip, o, args, kwargs, node):
        if len(args) != 1:
            raise Raised('TypeError', 'MatrixArray_to_%s arity' % target)
        ma = args[0]
        if not (isinstance(ma, Obj) and ma.isa('MatrixArray')):
            raise Unsupported('transform argument is not a MatrixArray', node)
        sp = ma.attrs.get('space')
        if not (isinstance(sp, Const) and isinstance(sp.v, tuple)):
            raise Unsupported('space flag of the transformed array is not known', node)
        if sp.v == ('Space', target):
            raise Raised('ValueError', 'MatrixArray is marked as already in %s space' % target, ip.loc(node))
        data = ma.attrs['data']
        if not isinstance(data, Arr):
            raise Unsupported('MatrixArray.data is not a heap array', node)
        if P.is_pw(data.t):
            # a case split on quantities that do not vary along the grid axis (densities, scalars) commutes with the
            # transform; any other case split does not
            ps, fs = P.conds(data.t)
            for pair in ps:
                for key in pair:
                    kinds = {ip.sym_kind.get(sn, 'scalar') for sn in N.nf_from_key(key).symbols()}
                    if not kinds <= {'scalar', 'mat1'}:
                        raise Unsupported('piecewise tensor transform', node)
            data.t = P.lift1(lambda leaf: transform_term(fname, leaf), data.t)
        else:
            data.t = transform_term(fname, data.t)
        ma.attrs['space'] = Const(('Space', target))
        ip.event('transform', data.origin or ('fresh#%d' % data.aid), node, to=target, fresh=data.fresh,
                 obj=ma.origin)
        if ma.origin is not None:
            ip.event('bind', '%s.space' % ma.origin, node, sanctioned='transform', existed=True, new=False)
        return NONE
    return f


def transform_term(fname, t):
    inv = {'toF': 'toR', 'toR': 'toF'}[fname]
    if t.is_monomial():
        (m, c), = t.num.items()
        if c == 1 and len(m) == 1 and m[0][1] == 1 and m[0][0][0] == 'fn' and m[0][0][1] == inv:
            k = m[0][0][2]
            return N.nf_from_key(k) if N.is_nfkey(k) else N.NF.atom(k)
    return N.fn(fname, t)


def typemap_getitem(ip, o, args, kwargs, node):
    k = args[0]
    if isinstance(k, Label):
        return Index(k.name)
    if isinstance(k, Const) and isinstance(k.v, str):
        raise Raised('KeyError', k.v, ip.loc(node))      # a name that is not a type of this array
    raise Unsupported('typeMap lookup of %r' % (k,), node)


def typemap_get(ip, o, args, kwargs, node):
    """dict.get on the type -> index map: the index of a known type, else the default (None)"""
    try:
        return typemap_getitem(ip, o, args[:1], {}, node)
    except Raised as e:
        if e.exc != 'KeyError':
            raise
        return args[1] if len(args) > 1 else NONE


def install_containers(ip, domain_transforms=True, tables=True, matrixarray=True):
    if matrixarray:
        ip.natives[('MatrixArray', '__getitem__')] = ma_getitem
        ip.natives[('MatrixArray', '__setitem__')] = ma_setitem
        ip.natives[('MatrixArray', 'iterpairs')] = ma_iterpairs
    if tables:
        ip.natives[('PairTable', '__new__')] = pt_new
        ip.natives[('PairTable', '__getitem__')] = pt_getitem
        ip.natives[('PairTable', '__setitem__')] = pt_setitem
        ip.natives[('PairTable', 'iterpairs')] = pt_iterpairs
        ip.natives[('PairTable', 'apply')] = pt_apply
        ip.natives[('PairTable', 'exportToMatrixArray')] = pt_export
        ip.natives[('PairTable', 'check')] = pt_check
        ip.natives[('pt_values', '__getitem__')] = ptv_getitem
        ip.natives[('pt_row', '__getitem__')] = ptrow_getitem
        ip.natives[('pt_row', '__setitem__')] = ptrow_setitem
        ip.natives[('Table', 'listify')] = tbl_listify
        ip.natives[('ValueTable', '__new__')] = vt_new
        ip.natives[('ValueTable', '__getitem__')] = vt_getitem
        ip.natives[('ValueTable', '__setitem__')] = vt_setitem
        ip.natives[('ValueTable', 'check')] = pt_check
    if domain_transforms:
        ip.natives[('Domain', 'MatrixArray_to_fourier')] = _transform('Fourier', 'toF')
        ip.natives[('Domain', 'MatrixArray_to_real')] = _transform('Real', 'toR')
    ip.natives[('typemap', '__getitem__')] = typemap_getitem
    ip.natives[('typemap', 'get')] = typemap_get
    ip.natives[('shape', '__getitem__')] = L.shape_getitem
    ip.natives[('poly1d', '__call__')] = L.poly1d_call


# ---------------------------------------------------------------------------------------------
# per-pair objects held by the System's tables (potential / closure / omega): generic elements
# ---------------------------------------------------------------------------------------------
class ElemFactory(object):
    """lazily creates ONE abstract object per unordered pair and per table instance; deepcopy of the table
    clones the factory, so elements of the copy are distinct objects (as copy.deepcopy makes them)"""
    def __init__(self, kind, origin, make):
        self.kind = kind
        self.origin = origin
        self.make = make
        self.cache = {}
        self.parent = None

    def __call__(self, ip, a, b, node):
        key = tuple(sorted((ip.canon_label(a), ip.canon_label(b))))
        o = self.cache.get(key)
        if o is None:
            tmpl = self._template(ip, key)
            if tmpl is not None:
                o = self.cache[key] = tmpl
            else:
                o = self.cache[key] = self.make(ip, key[0], key[1], self)
            if self.origin is not None:
                o.origin = '%s[%s,%s]' % (self.origin, key[0], key[1])
        return o

    def _template(self, ip, key):
        """a pair object that was wired inside a finished loop over all pairs stands for every pair: instantiate
        it for the requested labels (the loop's coverage is checked by the rule that relies on this)"""
        active = set()
        for c in ip.loopctx:
            active |= set(c.get('labels', ()))
        for k, src in self.cache.items():
            if k == key or k[0] == k[1] and key[0] != key[1]:
                continue
            if any(l.startswith('@') for l in k) or (set(k) & active):
                continue
            if key[0] == key[1] and k[0] != k[1] and frozenset(k) in ip.distinct:
                continue
            mp = {k[0]: key[0], k[1]: key[1]}
            o = Obj(src.cls, {}, None)
            for an, v in src.attrs.items():
                if an == '_pair':
                    o.attrs[an] = key
                elif isinstance(v, Num):
                    o.attrs[an] = Num(P.map_leaves(lambda t: relabel(t, mp, ip.symmetric), v.t), v.kind)
                elif isinstance(v, (Arr, View)):
                    t, _ = ip.term_of(v)
                    o.attrs[an] = Arr(P.map_leaves(lambda t2: relabel(t2, mp, ip.symmetric), t), None, ip)
                else:
                    o.attrs[an] = v
            ip.notes.append(('template-instance', {'from': k, 'to': key, 'kind': self.kind}))
            return o
        return None

    def clone(self, ip):
        f = ElemFactory(self.kind, None, self.make)
        f.parent = self
        # objects that already exist in the source table are copied value by value
        for key, o in self.cache.items():
            c = Obj(o.cls, {}, None)
            for k, v in o.attrs.items():
                c.attrs[k] = L.deepcopy(ip, [v], {}, None) if isinstance(v, (Arr, View, Obj)) else v
            f.cache[key] = c
        return f


def make_potential(ip, a, b, fac):
    cls = ip.prog.cls('pyPRISM.potential.Potential::Potential')
    unset = ip.decide(P.Cond.flag('potential(%s,%s).sigma is None' % (a, b)), None)
    sig = NONE if unset else Num(N.NF.atom(('fn', 'usig', a, b)))
    return Obj(cls, {'sigma': sig, '_pair': (a, b)}, None)


def make_closure(ip, a, b, fac):
    cls = ip.prog.cls('pyPRISM.closure.AtomicClosure::AtomicClosure')
    return Obj(cls, {'sigma': NONE, 'potential': NONE, 'value': NONE, '_pair': (a, b)}, None)


def make_omega(ip, a, b, fac):
    cls = ip.prog.cls('pyPRISM.omega.Omega::Omega')
    return Obj(cls, {'_pair': (a, b)}, None)


def _key_of(ip, v, node):
    if isinstance(v, Const) and v.v is None:
        return 'None'
    t, _ = ip.term_of(v, node)
    if P.is_pw(t):
        raise Unsupported('piecewise attribute', node)
    return t


def potential_calculate(ip, o, args, kwargs, node):
    a, b = o.attrs['_pair']
    grid, _ = ip.term_of(args[0], node)
    sig = o.attrs.get('sigma')
    if isinstance(sig, Const) and sig.v is None:
        raise Raised('AssertionError', 'Sigma must be set before evaluating potential!', ip.loc(node))
    st = _key_of(ip, sig, node)
    ip.notes.append(('potential-calculate', {'pair': (a, b), 'grid': grid, 'sigma': st, 'loc': ip.loc(node), 'obj': o}))
    return ip.fresh_array(N.fn('Ucalc', a, b, st, grid))


def closure_calculate(ip, o, args, kwargs, node):
    a, b = o.attrs['_pair']
    if len(args) != 2:
        raise Raised('TypeError', 'closure.calculate(r, gamma) arity', ip.loc(node))
    grid, _ = ip.term_of(args[0], node)
    gam, _ = ip.term_of(args[1], node)
    pot = o.attrs.get('potential')
    if isinstance(pot, Const) and pot.v is None:
        raise Raised('AssertionError', 'Potential for this closure is not set!', ip.loc(node))
    pt = _key_of(ip, pot, node)
    sg = _key_of(ip, o.attrs.get('sigma'), node)
    sgk = sg if not isinstance(sg, str) else N.sym('None')
    ip.notes.append(('closure-calculate', {'pair': (a, b), 'grid': grid, 'gamma': gam, 'potential': pt, 'sigma': sg,
                                           'loc': ip.loc(node), 'obj': o}))
    return ip.fresh_array(N.fn('Cl', a, b, pt, sgk, grid, gam))


def omega_calculate(ip, o, args, kwargs, node):
    a, b = o.attrs['_pair']
    grid, _ = ip.term_of(args[0], node)
    ip.notes.append(('omega-calculate', {'pair': (a, b), 'grid': grid, 'loc': ip.loc(node)}))
    return ip.fresh_array(N.fn('omega', a, b, grid))


def identity_new(ip, cls, args, kwargs, node):
    b = dict(zip(['length', 'rank', 'data', 'space', 'types'], args))
    b.update(kwargs)
    ip.declare('Iden', 'tensor', symmetric=True)
    o = Obj(cls, {'data': Arr(N.sym('Iden'), None, ip), 'space': b.get('space', NONE), 'types': b.get('types', NONE),
                  'rank': b.get('rank', NONE), 'length': b.get('length', NONE), 'typeMap': Obj('typemap', {})}, None)
    ip.notes.append(('identity-new', {'loc': ip.loc(node)}))
    return o


def vt_iter(ip, o, args, kwargs, node):
    def make(ip2):
        l = ip2.new_label()
        val = vt_getitem(ip2, o, [l], {}, node)
        return Seq([Index(l.name), l, val]), {'labels': [l.name], 'kind': 'ValueTable.__iter__'}
    return LabelIter(make, 'ValueTable.__iter__')


def pt_iter(ip, o, args, kwargs, node):
    def make(ip2):
        a, b = ip2.new_label(), ip2.new_label()
        val = pt_lookup(ip2, o, (a.name, b.name), node)
        return Seq([Seq([Index(a.name), Index(b.name)]), Seq([a, b]), val]), {'labels': [a.name, b.name],
                                                                                'kind': 'PairTable.__iter__'}
    return LabelIter(make, 'PairTable.__iter__')


def install_elements(ip):
    ip.natives[('Potential', 'calculate')] = potential_calculate
    ip.natives[('AtomicClosure', 'calculate')] = closure_calculate
    ip.natives[('Omega', 'calculate')] = omega_calculate
    ip.natives[('IdentityMatrixArray', '__new__')] = identity_new
    ip.natives[('ValueTable', '__iter__')] = vt_iter
    ip.natives[('PairTable', '__iter__')] = pt_iter
