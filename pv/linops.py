"""Linear-operator normalisation for the DST atoms (table fact A2: DST-II and DST-III as computed by
scipy.fftpack.dst without norm= are linear and  dst3(dst2(x)) = dst2(dst3(x)) = 2*N*x  for length N).

    dst(s * X) -> s * dst(X)        for factors s that are not arrays
    dst(X + Y) -> dst(X) + dst(Y)
    dstA(dstB(X)) -> 2*N*X          for {A,B} = {2,3}
"""
from . import nf as N

_PAIR = {'dst2': 'dst3', 'dst3': 'dst2'}


def normalize(term, is_array_atom, length):
    """length: NF for the number of grid points"""
    def leaf(a):
        if a[0] == 'fn' and (a[1] in _PAIR or a[1].startswith('dst')):
            # every DST variant (normalised, zero-padded, other type) is a linear map; only the plain type-2/type-3
            # pair is known to compose to 2N*identity
            arg = N.nf_from_key(a[2]) if N.is_nfkey(a[2]) else N.NF.atom(a[2])
            arg = normalize(arg, is_array_atom, length)
            return _apply(a[1], arg, is_array_atom, length)
        return None
    return N.transform(term, leaf)


def _has_array(nf, is_array_atom):
    return any(is_array_atom(a) for a in nf.all_atoms())


def _apply(name, arg, is_array_atom, length):
    # denominator must be free of arrays to be pulled out
    den = N.NF(arg.den)
    if _has_array(den, is_array_atom):
        return N.fn(name, arg)
    total = N.NF.const(0)
    for m, c in arg.num.items():
        scal = []
        arr = []
        for a, e in m:
            x = N.NF.atom(a, e)
            if _has_array(x, is_array_atom):
                arr.append((a, e))
            else:
                scal.append((a, e))
        s = N.NF({tuple(scal): c})
        if not arr:
            # dst of a constant vector: keep as dst(1) times the scalar
            total = total + s * N.fn(name, N.NF.const(1))
            continue
        if name in _PAIR and len(arr) == 1 and arr[0][1] == 1 and arr[0][0][0] == 'fn' and arr[0][0][1] == _PAIR[name]:
            k = arr[0][0][2]
            inner = N.nf_from_key(k) if N.is_nfkey(k) else N.NF.atom(k)
            total = total + s * 2 * length * inner
            continue
        total = total + s * N.fn(name, N.NF({tuple(arr): N.ONE}))
    return total / den
