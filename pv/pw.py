"""E3 (piecewise part) + E7 (ordering evaluation).

A piecewise term is a tree   leaf NF | Ite(cond, then, else).
Conditions are boolean combinations of
    ('cmp', akey, bkey, frozenset(outcomes))   outcomes subset of {'lt','eq','gt'}  (a ? b)
    ('flag', name)                            an uninterpreted boolean atom
Comparison atoms over the same operand pair are evaluated on the three orderings, so that
`r > s` and `r >= s` are told apart at exactly r == s.
"""
import itertools
from . import nf as N

LT, EQ, GT = 'lt', 'eq', 'gt'
ALL = frozenset((LT, EQ, GT))
_OPS = {'>': (GT,), '>=': (GT, EQ), '<': (LT,), '<=': (LT, EQ), '==': (EQ,), '!=': (LT, GT)}
_FLIP = {LT: GT, GT: LT, EQ: EQ}


class Cond(object):
    __slots__ = ('t',)

    def __init__(self, t):
        self.t = t

    # constructors ---------------------------------------------------------------------------
    @staticmethod
    def true():
        return Cond(('true',))

    @staticmethod
    def false():
        return Cond(('false',))

    @staticmethod
    def flag(name):
        return Cond(('flag', name))

    @staticmethod
    def cmp(op, a, b):
        a = N.as_nf(a)
        b = N.as_nf(b)
        outs = frozenset(_OPS[op])
        d = a - b
        if d.is_const():
            v = d.const_value()
            o = LT if v < 0 else (EQ if v == 0 else GT)
            return Cond.true() if o in outs else Cond.false()
        ka, kb = N.reg(a), N.reg(b)
        if repr(ka) > repr(kb):
            ka, kb = kb, ka
            outs = frozenset(_FLIP[o] for o in outs)
        if outs == ALL:
            return Cond.true()
        if not outs:
            return Cond.false()
        return Cond(('cmp', ka, kb, outs))

    def __invert__(self):
        t = self.t
        if t[0] == 'true':
            return Cond.false()
        if t[0] == 'false':
            return Cond.true()
        if t[0] == 'cmp':
            return Cond(('cmp', t[1], t[2], ALL - t[3]))
        if t[0] == 'not':
            return Cond(t[1])
        return Cond(('not', t))

    def __and__(self, o):
        if self.t[0] == 'true':
            return o
        if o.t[0] == 'true':
            return self
        if self.t[0] == 'false' or o.t[0] == 'false':
            return Cond.false()
        if self.t[0] == 'cmp' and o.t[0] == 'cmp' and self.t[1:3] == o.t[1:3]:
            s = self.t[3] & o.t[3]
            return Cond(('cmp', self.t[1], self.t[2], s)) if s else Cond.false()
        return Cond(('and', self.t, o.t))

    def __or__(self, o):
        return ~((~self) & (~o))

    # queries ------------------------------------------------------------------------------------
    def key(self):
        return self.t

    def pairs(self):
        """operand pairs of all comparison atoms, and flag names"""
        ps, fs = set(), set()

        def walk(t):
            if t[0] == 'cmp':
                ps.add((t[1], t[2]))
            elif t[0] == 'flag':
                fs.add(t[1])
            elif t[0] == 'not':
                walk(t[1])
            elif t[0] == 'and':
                walk(t[1])
                walk(t[2])
        walk(self.t)
        return ps, fs

    def eval(self, val):
        """val: {(akey,bkey): 'lt'|'eq'|'gt', ('flag',name): bool}"""
        def ev(t):
            if t[0] == 'true':
                return True
            if t[0] == 'false':
                return False
            if t[0] == 'cmp':
                return val[(t[1], t[2])] in t[3]
            if t[0] == 'flag':
                return val[('flag', t[1])]
            if t[0] == 'not':
                return not ev(t[1])
            if t[0] == 'and':
                return ev(t[1]) and ev(t[2])
            raise ValueError(t)
        return ev(self.t)

    def is_true(self):
        return self.t[0] == 'true'

    def is_false(self):
        return self.t[0] == 'false'

    def same(self, o):
        return self.t == o.t

    def show(self):
        def sh(t):
            if t[0] in ('true', 'false'):
                return t[0]
            if t[0] == 'cmp':
                a = N.show(N.nf_from_key(t[1]))
                b = N.show(N.nf_from_key(t[2]))
                names = {frozenset((GT,)): '>', frozenset((GT, EQ)): '>=', frozenset((LT,)): '<',
                         frozenset((LT, EQ)): '<=', frozenset((EQ,)): '==', frozenset((LT, GT)): '!='}
                return '%s %s %s' % (a, names[t[3]], b)
            if t[0] == 'flag':
                return t[1]
            if t[0] == 'not':
                return 'not(%s)' % sh(t[1])
            if t[0] == 'and':
                return '(%s and %s)' % (sh(t[1]), sh(t[2]))
        return sh(self.t)

    __repr__ = show


class Ite(object):
    __slots__ = ('c', 'a', 'b')

    def __init__(self, c, a, b):
        self.c, self.a, self.b = c, a, b

    def __repr__(self):
        return show(self)


def ite(c, a, b):
    if c.is_true():
        return a
    if c.is_false():
        return b
    return Ite(c, a, b)


def is_pw(x):
    return isinstance(x, Ite)


def lift2(op, x, y):
    if isinstance(x, Ite):
        return Ite(x.c, lift2(op, x.a, y), lift2(op, x.b, y))
    if isinstance(y, Ite):
        return Ite(y.c, lift2(op, x, y.a), lift2(op, x, y.b))
    return op(x, y)


def lift1(f, x):
    if isinstance(x, Ite):
        return Ite(x.c, lift1(f, x.a), lift1(f, x.b))
    return f(x)


def conds(x, ps=None, fs=None):
    ps = set() if ps is None else ps
    fs = set() if fs is None else fs
    if isinstance(x, Ite):
        p, f = x.c.pairs()
        ps |= p
        fs |= f
        conds(x.a, ps, fs)
        conds(x.b, ps, fs)
    return ps, fs


def at(x, val):
    while isinstance(x, Ite):
        x = x.a if x.c.eval(val) else x.b
    return x


def valuations(ps, fs):
    ps = sorted(ps, key=repr)
    fs = sorted(fs)
    for outs in itertools.product((LT, EQ, GT), repeat=len(ps)):
        for bs in itertools.product((False, True), repeat=len(fs)):
            v = dict(zip(ps, outs))
            v.update({('flag', f): b for f, b in zip(fs, bs)})
            yield v


def compare(x, y):
    """region-by-region comparison.  Returns list of (valuation, leaf_x, leaf_y) that differ."""
    ps, fs = conds(x)
    conds(y, ps, fs)
    diffs = []
    n = 0
    for v in valuations(ps, fs):
        n += 1
        lx, ly = at(x, v), at(y, v)
        if not lx.equals(ly):
            diffs.append((v, lx, ly))
    return diffs, n


def show_val(v):
    out = []
    for k, o in sorted(v.items(), key=repr):
        if k[0] == 'flag':
            out.append('%s=%s' % (k[1], o))
        else:
            a = N.show(N.nf_from_key(k[0]))
            b = N.show(N.nf_from_key(k[1]))
            out.append('%s %s %s' % (a, {'lt': '<', 'eq': '==', 'gt': '>'}[o], b))
    return ', '.join(out) or 'everywhere'


def show(x):
    if isinstance(x, Ite):
        return 'Piecewise[%s -> %s ; else -> %s]' % (x.c.show(), show(x.a), show(x.b))
    return N.show(x)


def leaves(x):
    if isinstance(x, Ite):
        for l in leaves(x.a):
            yield l
        for l in leaves(x.b):
            yield l
    else:
        yield x


def map_leaves(f, x):
    return lift1(f, x)


def cond_subs(c, mapping):
    """substitute symbols inside a condition (comparison atoms are re-normalised, so `s1 > r` becomes `s > r` under s1:=s)"""
    def go(t):
        if t[0] == 'cmp':
            a, b = N.subs(N.nf_from_key(t[1]), mapping), N.subs(N.nf_from_key(t[2]), mapping)
            out = None
            for o in sorted(t[3]):
                x = Cond.cmp({LT: '<', EQ: '==', GT: '>'}[o], a, b)
                out = x if out is None else (out | x)
            return out if out is not None else Cond.false()
        if t[0] == 'not':
            return ~go(t[1])
        if t[0] == 'and':
            return go(t[1]) & go(t[2])
        return Cond(t)
    return go(c.t)


def subs(x, mapping):
    """substitute symbols in the leaves and the conditions of a piecewise term"""
    if not mapping:
        return x
    if isinstance(x, Ite):
        return ite(cond_subs(x.c, mapping), subs(x.a, mapping), subs(x.b, mapping))
    return N.subs(x, mapping)


def equalities(decisions):
    """{symbol: NF} implied by the branch decisions of one explored path: a decision `a == b` taken as True (or `a != b`
    taken as False) where one side is a bare symbol lets that symbol be replaced by the other side on this path"""
    mapping = {}
    for c, taken, _ in decisions:
        t = c.t
        if t[0] == 'not':
            t, taken = t[1], not taken
        if t[0] != 'cmp':
            continue
        if not ((t[3] == frozenset((EQ,)) and taken) or (t[3] == frozenset((LT, GT)) and not taken)):
            continue
        a, b = N.nf_from_key(t[1]), N.nf_from_key(t[2])
        a, b = N.subs(a, mapping) if mapping else a, N.subs(b, mapping) if mapping else b

        def bare(x):
            ats = list(x.all_atoms())
            return ats[0][1] if len(ats) == 1 and ats[0][0] == 'sym' and x.equals(N.sym(ats[0][1])) else None
        sa, sb = bare(a), bare(b)
        # prefer to eliminate the symbol with the longer name (x1, x_first, x2 are the history worlds' extra symbols)
        if sa is not None and sb is not None:
            if len(sb) > len(sa):
                sa, a, b = sb, b, a
            mapping[sa] = b
        elif sa is not None and sa not in b.symbols():
            mapping[sa] = b
        elif sb is not None and sb not in a.symbols():
            mapping[sb] = a
    return mapping


def assume(x, facts):
    """simplify a piecewise term under facts [(Cond, bool)]: a branch condition that is (or is implied / excluded by) a fact
    is resolved.  Only comparison atoms on the same operand pair and identical flags are related; anything else is kept."""
    if not isinstance(x, Ite) or not facts:
        return x

    def truth(c):
        t = c.t
        for f, val in facts:
            ft = f.t
            if ft == t:
                return val
            if ft[0] == 'not' and ft[1] == t:
                return not val
            if t[0] == 'not' and t[1] == ft:
                return not val
            if ft[0] == 'cmp' and t[0] == 'cmp' and ft[1:3] == t[1:3]:
                outs = ft[3] if val else (ALL - ft[3])
                if outs <= t[3]:
                    return True
                if not (outs & t[3]):
                    return False
        return None
    b = truth(x.c)
    if b is True:
        return assume(x.a, facts)
    if b is False:
        return assume(x.b, facts)
    return ite(x.c, assume(x.a, facts), assume(x.b, facts))
