"""A2 -- semantics of the ~50 library / builtin names the package uses, as abstract transformers.

Each entry says what the call returns in the term domain and whether the result is a fresh
array, a view / alias of an argument, or a scalar.  Names not in this table make the calling
obligation UNDECIDED (never silently pure).
"""
import ast
from fractions import Fraction
from . import nf as N
from . import pw as P
from .interp import (Num, Arr, View, Masked, Mask, Const, Obj, Func, Native, Seq, Lib, ClassRef, Types,
                     Label, Index, LabelIter, Unknown, Unsupported, Raised, NONE, TRUE, FALSE, const_num,
                     is_const_num, num_value)

# C07/C08 are stated for every array the transforms accept (stacked (m, length) inputs included: there axis=0 is not the
# default last axis); the properties that only ever transform 1-D pair functions (C01, C06 ...) treat axis=0 as the default
STRICT_AXIS = False
FLOAT_PIPELINE = False     # set for the properties about the solver pipeline, whose arrays are allocated by the package as float64

# fully-qualified aliases
ALIASES = {
    'np': 'numpy',
}

BUILTINS = ('len', 'range', 'abs', 'isinstance', 'enumerate', 'list', 'set', 'int', 'float', 'iter', 'str',
            'print', 'tuple', 'min', 'max', 'sum', 'zip', 'object', 'type', 'hasattr', 'getattr', 'id', 'any', 'all', 'frozenset', 'bool', 'sorted', 'setattr', 'reversed', 'vars',
            'ValueError', 'TypeError', 'KeyError', 'NotImplementedError', 'AssertionError', 'ImportError',
            'DeprecationWarning', 'Exception', 'dict', 'slice', 'repr', 'complex', 'bytes', 'UserWarning', 'RuntimeWarning', 'FutureWarning', 'round',
            'Warning', 'IndexError', 'AttributeError', 'RuntimeError', 'ZeroDivisionError', 'ArithmeticError', 'LookupError', 'OverflowError')


def builtin(name):
    if name == '__debug__':
        return TRUE                 # assertions are enabled (the interpreter models `assert` as executed)
    if name in BUILTINS:
        return Lib('builtins.' + name)
    return None


def attr(ip, lib, name, node):
    full = lib.name + '.' + name
    if full == 'numpy.pi' or full == 'math.pi':
        return Num(N.PI, 'scalar')
    if full in ('numpy.inf', 'math.inf', 'numpy.Inf', 'numpy.infty'):
        ip.sym_kind.setdefault('INF', 'scalar')
        return Num(N.sym('INF'), 'scalar')      # +infinity: exp(-INF) is rewritten to 0 by nf.drop_inf
    if full == 'numpy.newaxis':
        return NONE                                # np.newaxis is None
    if full == 'string.ascii_uppercase':
        return Const('ABCDEFGHIJKLMNOPQRSTUVWXYZ')
    return Lib(full)


# ---------------------------------------------------------------------------------------------
def _write_out(ip, out, t, node):
    """ufunc(..., out=arr): the result is stored into the existing array, which is also what the call returns"""
    if isinstance(out, Arr):
        out.t = t
        ip.note_dtype_cast(out, node, 'ufunc out=')
        if not out.fresh:
            ip.event('write', out.origin, node, via='ufunc-out')
        return out
    if isinstance(out, View):
        ip.write_view(out, t, node, how='ufunc-out')
        return out
    raise Unsupported('ufunc out= is not an array', node)


def _out_arg(args, kwargs, nin):
    out = kwargs.get('out')
    if out is None and len(args) > nin:
        out = args[nin]
    if isinstance(out, Const) and out.v is None:
        out = None
    extra = sorted(k for k in kwargs if k not in ('out',))
    return out, extra


def _elementwise(f):
    def g(ip, args, kwargs, node):
        out, extra = _out_arg(args, kwargs, 1)
        if extra or len(args) > 2 or not args:
            raise Unsupported('elementwise call with %d args / keywords %s' % (len(args), extra), node)
        x = args[0]
        if isinstance(x, Masked):
            if out is not None:
                raise Unsupported('out= with a masked operand', node)
            return Masked(_apply(f, x.t, node), x.cond)
        t, k = ip.term_of(x, node)
        r = _apply(f, t, node)
        if out is not None:
            return _write_out(ip, out, r, node)
        return ip.make_result(r, k)
    return g


def _binary_ufunc(op):
    def g(ip, args, kwargs, node):
        out, extra = _out_arg(args, kwargs, 2)
        if extra or len(args) < 2 or len(args) > 3:
            raise Unsupported('binary ufunc with %d args / keywords %s' % (len(args), extra), node)
        if isinstance(args[0], Masked) or isinstance(args[1], Masked):
            raise Unsupported('binary ufunc on masked operands', node)
        t = ip.arith(op, args[0], args[1], node)
        if out is not None:
            return _write_out(ip, out, t, node)
        kind = 'array' if any(getattr(x, 'kind', 'scalar') == 'array' for x in args[:2]) else 'scalar'
        return ip.make_result(t, kind)
    return g


def np_isscalar(ip, args, kwargs, node):
    x = args[0]
    if isinstance(x, Num):
        return TRUE if x.kind == 'scalar' else FALSE
    if isinstance(x, Const):
        return TRUE if isinstance(x.v, (int, float, str, bool)) and x.v is not None else FALSE
    if isinstance(x, (Arr, View, Masked, Seq, Obj)):
        return FALSE
    raise Unsupported('np.isscalar(%r)' % (x,), node)


def np_shape(ip, args, kwargs, node):
    return Obj('shape', {'arr': args[0]})


def _apply(f, t, node):
    try:
        return P.lift1(f, t)
    except N.Incomplete as e:
        raise Unsupported('term outside the normal-form fragment: %s' % e, node)


def _scalar_only(f, name):
    def g(ip, args, kwargs, node):
        x = args[0]
        t, k = ip.term_of(x, node)
        if k == 'array':
            ip.event('scalar-fn-on-array', name, node, arg=repr(x))
        return ip.make_result(_apply(f, t, node), k)
    return g


def _expm1(x):
    return N.exp(x) - 1


def _log1p(x):
    return N.log(1 + x)


def np_where(ip, args, kwargs, node):
    if len(args) != 3:
        raise Unsupported('np.where with %d args' % len(args), node)
    c, a, b = args
    if not isinstance(c, Mask):
        raise Unsupported('np.where condition is not a comparison', node)
    ta, _ = ip.term_of(a, node)
    tb, _ = ip.term_of(b, node)
    return ip.fresh_array(P.ite(c.cond, ta, tb))


def np_minmax(which):
    """np.minimum / np.maximum / np.fmin / np.fmax: elementwise, as a piecewise term on the ordering of the operands"""
    def g(ip, args, kwargs, node):
        out, extra = _out_arg(args, kwargs, 2)
        args = list(args[:2])
        if len(args) != 2 or extra:
            raise Unsupported('np.%s with %d args / keywords %s' % (which, len(args), extra), node)
        if out is not None:
            r = g(ip, args, {}, node)
            if isinstance(r, Masked):
                raise Unsupported('np.%s(..., out=) on masked operands' % which, node)
            return _write_out(ip, out, ip.term_of(r, node)[0], node)
        cond = None
        if isinstance(args[0], Masked) or isinstance(args[1], Masked):
            # operands restricted by one boolean mask: the result is restricted the same way
            ms = [a for a in args if isinstance(a, Masked)]
            cond = ms[0].cond
            if any(not cond.same(m.cond) for m in ms[1:]):
                raise Unsupported('np.%s of operands restricted by different masks' % which, node)
            ts = []
            for a in args:
                if isinstance(a, Masked):
                    ts.append(a.t)
                else:
                    t, k = ip.term_of(a, node)
                    if k == 'array':
                        raise Unsupported('masked and unmasked array operands mixed', node)
                    ts.append(t)
            ta, tb = ts
            ka = kb = 'array'
        else:
            ta, ka = ip.term_of(args[0], node)
            tb, kb = ip.term_of(args[1], node)
        if P.is_pw(ta) or P.is_pw(tb):
            raise Unsupported('np.%s of piecewise terms' % which, node)
        c = P.Cond.cmp('>', ta, tb)
        t = P.ite(c, tb, ta) if which == 'minimum' else P.ite(c, ta, tb)
        if cond is not None:
            return Masked(t, cond)
        return ip.make_result(t, 'array' if 'array' in (ka, kb) else 'scalar')
    return g


def np_clip(ip, args, kwargs, node):
    a = list(args)
    for k in ('a_min', 'a_max'):
        if k in kwargs:
            a.append(kwargs[k])
    if len(a) != 3:
        raise Unsupported('np.clip arity', node)
    x, lo, hi = a
    y = x
    if not (isinstance(lo, Const) and lo.v is None):
        y = np_minmax('maximum')(ip, [y, lo], {}, node)
    if not (isinstance(hi, Const) and hi.v is None):
        ty, _ = ip.term_of(y, node)
        if P.is_pw(ty):
            th, _ = ip.term_of(hi, node)
            t = P.lift1(lambda leaf: P.ite(P.Cond.cmp('>', leaf, th), th, leaf), ty)
            return ip.make_result(t, 'array')
        y = np_minmax('minimum')(ip, [y, hi], {}, node)
    return y


def np_position(name):
    """searchsorted / argmax / argmin / argsort / nonzero / flatnonzero / count_nonzero: the result is a *position*
    that depends on the whole array (uninterpreted, non-pointwise)"""
    def g(ip, args, kwargs, node):
        ts = []
        for x in args:
            if isinstance(x, Mask):
                ts.append(N.fn('maskarr', x.cond.show()))
                continue
            t, _ = ip.term_of(x, node)
            if P.is_pw(t):
                raise Unsupported('%s of a piecewise term' % name, node)
            ts.append(t)
        return Num(N.fn('position:' + name, *ts), 'scalar')
    return g


_UNINIT = [0]
UNINIT_DIM = {}


def np_empty(ip, args, kwargs, node):
    _UNINIT[0] += 1
    name = 'uninit%d' % _UNINIT[0]
    ip.sym_kind[name] = 'tensor'
    a = ip.fresh_array(N.sym(name))
    # contents are unspecified; the leading dimension is remembered so that two scratch buffers can be compared by shape
    try:
        is_like = 'like' in (node.func.attr if isinstance(getattr(node, 'func', None), ast.Attribute) else '')
        shp = args[0] if args else kwargs.get('shape')
        if is_like:
            dim = length_of(ip, ip.term_of(shp, node)[0])
        elif isinstance(shp, Seq):
            dim = ip.term_of(shp.items[0], node)[0]
        else:
            dim = ip.term_of(shp, node)[0]
        UNINIT_DIM[name] = dim
    except Unsupported:
        pass
    if 'like' in (node.func.attr if isinstance(getattr(node, 'func', None), ast.Attribute) else '') and args and 'dtype' not in kwargs:
        a.dtype_like = args[0]
    return a


def np_full(like):
    def g(ip, args, kwargs, node):
        if len(args) < 2:
            raise Unsupported('np.full arity', node)
        t, _ = ip.term_of(args[1], node)
        a = ip.fresh_array(t)
        if like and 'dtype' not in kwargs and len(args) < 3:
            a.dtype_like = args[0]      # the new array has the dtype of its template
        return a
    return g


def np_broadcast(ip, args, kwargs, node):
    return Obj('broadcast', {'shape': Obj('shape', {'arr': args[0], 'with': list(args[1:])})})


def np_fill(value):
    def g(ip, args, kwargs, node):
        a = ip.fresh_array(N.NF.const(value))
        shp = args[0] if args else kwargs.get('shape')
        if isinstance(shp, Seq) and shp.kind in ('tuple', 'list') and len(shp.items) >= 2 and all(isinstance(i, Num) for i in shp.items):
            a.dims = tuple(i.t for i in shp.items)       # np.zeros((length, rank, rank)): the shape is known axis by axis
        fn_ = getattr(node, 'func', None)
        if isinstance(fn_, ast.Attribute) and fn_.attr.endswith('_like') and args and 'dtype' not in kwargs:
            a.dtype_like = args[0]      # zeros_like(x) / ones_like(x): dtype of x
        return a
    return g


FLOAT64_NAMES = {'builtins.float', 'numpy.float64', 'numpy.double', 'numpy.float_', 'numpy.longdouble', 'numpy.float128'}
INT_NAMES = {'builtins.int', 'numpy.int64', 'numpy.int32', 'numpy.int_', 'numpy.intp', 'numpy.int16', 'numpy.int8',
             'numpy.uint8', 'numpy.uint16', 'numpy.uint32', 'numpy.uint64', 'numpy.long', 'numpy.longlong'}


def dtype_spec(ip, v, node):
    """classify a dtype argument: 'float64' | 'int' | ('like', array) ; anything else is outside the model"""
    if isinstance(v, Const) and v.v is None:
        return None
    if isinstance(v, Lib):
        if v.name in FLOAT64_NAMES:
            return 'float64'
        if v.name in INT_NAMES:
            return 'int'
    if isinstance(v, Const) and isinstance(v.v, str):
        if v.v in ('float64', 'float', 'd', 'f8', '<f8', 'double'):
            return 'float64'
        if v.v in ('int', 'int64', 'i8', '<i8', 'int32', 'i4', 'i', 'l'):
            return 'int'
    if isinstance(v, Obj) and v.cls == 'dtype':
        return ('like', v.attrs['arr'])
    raise Unsupported('dtype %r is not modelled' % (v,), node)


def cast_value(ip, x, spec, node, copy=True):
    """x converted to the dtype `spec` (see dtype_spec).  float64 is the working precision of every array in the
    model, so that cast is the identity on numbers; a boolean mask becomes its 0/1 indicator; an integer dtype truncates;
    the dtype *of an input array* is not known statically: the result is an uninterpreted cast of the value (identity
    only if that input happens to be float64)."""
    if isinstance(x, Mask):
        if spec in ('float64', 'int'):
            return ip.make_result(P.ite(x.cond, N.NF.const(1), N.NF.const(0)), x.kind)
        raise Unsupported('cast of a boolean mask to %r' % (spec,), node)
    if isinstance(x, Masked):
        raise Unsupported('cast of a mask-restricted array', node)
    if isinstance(x, Seq) and len(x.items) != 1:
        raise Unsupported('cast of a sequence', node)
    t, k = ip.term_of(x, node)
    if spec == 'float64' or spec is None:
        if not copy and isinstance(x, (Arr, View)):
            return x
        return ip.make_result(t, k) if k == 'array' else Num(t, 'scalar')
    if spec == 'int':
        def trunc(leaf):
            if _is_integer_valued(leaf):
                return leaf
            return N.fn('trunc', leaf)
        return ip.make_result(P.lift1(trunc, t), k)
    if isinstance(spec, tuple) and spec[0] == 'like':
        src = spec[1]
        while isinstance(src, View):
            src = src.base
        if src is x or (isinstance(x, View) and x.base is src):
            return x if not copy else ip.make_result(t, k)
        if isinstance(src, Arr) and not src.fresh and FLOAT_PIPELINE:
            return x if not copy else ip.make_result(t, k)
        if isinstance(src, Arr) and not src.fresh:
            # the dtype of a caller-supplied array is whatever the caller chose (an integer grid, float32 data, ...)
            ip.event('dtype-cast', src.origin, node, via='cast to the dtype of an input')
            tag = N.sym('dtype(%s)' % src.origin)
            ip.sym_kind.setdefault('dtype(%s)' % src.origin, 'scalar')
            return ip.make_result(P.lift1(lambda leaf: N.fn('astype', leaf, tag), t), k)
        if isinstance(src, (Arr, Num)) and getattr(src, 'dtype_like', None) is None:
            # an array the analysed code computed itself: float64 unless every value is an integer
            st = src.t
            if all(_is_integer_valued(leaf) for leaf in P.leaves(st)):
                return cast_value(ip, x, 'int', node, copy)
            return cast_value(ip, x, 'float64', node, copy)
        raise Unsupported('cast to the dtype of a computed array', node)
    raise Unsupported('cast to %r' % (spec,), node)


def nd_astype(ip, selfv, args, kwargs, node):
    extra = set(kwargs) - {'dtype', 'copy'}
    if extra or len(args) > 1:
        raise Unsupported('astype with arguments %s' % sorted(extra), node)
    d = args[0] if args else kwargs.get('dtype')
    if d is None:
        raise Raised('TypeError', 'astype() missing required argument dtype', ip.loc(node))
    cp = kwargs.get('copy')
    copy = not (isinstance(cp, Const) and cp.v is False)
    return cast_value(ip, selfv, dtype_spec(ip, d, node), node, copy=copy)


def _dtype_arg(ip, args, kwargs, node):
    d = kwargs.get('dtype')
    if d is None and len(args) >= 2:
        d = args[1]
    extra = set(kwargs) - {'dtype', 'copy', 'order'}
    if extra:
        raise Unsupported('array constructor keywords %s' % sorted(extra), node)
    return dtype_spec(ip, d, node) if d is not None else None


def np_copy(ip, args, kwargs, node):
    x = args[0]
    if isinstance(x, Mask):
        return x
    if isinstance(x, Seq):
        if len(x.items) == 1:
            t, _ = ip.term_of(x, node)
            return ip.fresh_array(t)
        return Seq(list(x.items), 'list')
    if isinstance(x, Obj):
        raise Unsupported('np.copy/np.array of an object', node)
    if ip.has_cells(x):
        b = x
        while isinstance(b, View):
            b = b.base
        a = ip.fresh_array(b.t)
        a.cells = dict(b.cells)         # a copy of a stack of matrices keeps every concretely stored pair function
        if getattr(b, 'dims', None) is not None:
            a.dims = b.dims
        return a
    t, k = ip.term_of(x, node)
    return ip.fresh_array(t)


def np_array(ip, args, kwargs, node):
    spec = _dtype_arg(ip, args, kwargs, node)
    if spec is not None:
        return cast_value(ip, args[0], spec, node)
    return np_copy(ip, args[:1], {}, node)


def np_asarray(ip, args, kwargs, node):
    x = args[0]
    spec = _dtype_arg(ip, args, kwargs, node)
    if spec is not None:
        return cast_value(ip, x, spec, node, copy=False)
    if isinstance(x, (Arr, View)):
        return x          # alias
    if isinstance(x, Num) and x.kind == 'scalar':
        r = Num(x.t, 'scalar')      # np.asarray(number): a 0-d array -- it behaves like the number in arithmetic, ndim 0
        r.zero_d = True
        return r
    return np_copy(ip, args, kwargs, node)


def np_arange(ip, args, kwargs, node):
    vals = [ip.term_of(a, node)[0] for a in args]
    if any(P.is_pw(v) for v in vals):
        raise Unsupported('piecewise arange bound', node)
    if len(vals) == 1:
        lo, hi, st = N.NF.const(0), vals[0], N.NF.const(1)
    elif len(vals) == 2:
        lo, hi, st = vals[0], vals[1], N.NF.const(1)
    else:
        lo, hi, st = vals
    ip.notes.append(('arange', {'lo': lo, 'hi': hi, 'step': st, 'loc': ip.loc(node), 'node': node}))
    # number of points (when exact): (hi-lo)/step
    n = (hi - lo) / st
    int_step = all(_is_integer_valued(x) for x in (lo, st, hi))
    if int_step:
        r = ip.fresh_array(lo + st * N.fn('iota', n))
    else:
        r = ip.fresh_array(N.fn('farange', lo, hi, st))
    if args and all(ip.inty(a) for a in args) and 'dtype' not in kwargs:
        r.inty = True           # arange of Python ints is an integer array
    return r


def np_reciprocal(ip, args, kwargs, node):
    """np.reciprocal keeps the dtype of its argument: on an integer array it is the *integer* reciprocal (1 for 1, 0 for
    everything larger), not 1/x"""
    out, extra = _out_arg(args, kwargs, 1)
    if extra or not args:
        raise Unsupported('np.reciprocal with keywords %s' % extra, node)
    x = args[0]
    t, k = ip.term_of(x, node)
    r = _apply(lambda y: N.NF.const(1) / y, t, node)
    if ip.inty(x):
        ip.event('int-reciprocal', getattr(x, 'origin', None), node)
        r = _apply(lambda y: N.fn('int_trunc', y), r, node)
    if out is not None:
        return _write_out(ip, out, r, node)
    return ip.make_result(r, k)


def _is_integer_valued(x):
    """polynomial with integer coefficients over integer symbols"""
    if not x.is_poly():
        return False
    for m, c in x.num.items():
        if c.denominator != 1:
            return False
        for a, e in m:
            if a[0] != 'sym' or a[1] not in N.INT_SYMBOLS or e.denominator != 1 or e < 0:
                return False
    return True


def np_linspace(ip, args, kwargs, node):
    vals = [ip.term_of(a, node)[0] for a in args]
    num = kwargs.get('num')
    if num is not None:
        vals.append(ip.term_of(num, node)[0])
    if len(vals) != 3:
        raise Unsupported('linspace arity', node)
    extra = set(kwargs) - {'num', 'endpoint'}
    if extra:
        raise Unsupported('linspace keywords %s' % sorted(extra), node)
    ep = kwargs.get('endpoint', TRUE)
    if not isinstance(ep, Const):
        raise Unsupported('linspace endpoint=%r' % (ep,), node)
    lo, hi, n = vals
    if P.is_pw(n):
        raise Unsupported('piecewise number of points', node)
    ip.notes.append(('linspace', {'lo': lo, 'hi': hi, 'n': n, 'loc': ip.loc(node), 'endpoint': bool(ep.v)}))
    den = (n - 1) if ep.v else n
    return ip.fresh_array(P.lift2(lambda a, b: a + (b - a) / den * N.fn('iota', n), lo, hi))


def np_reduce(name):
    def g(ip, args, kwargs, node):
        x = args[0]
        if isinstance(x, Mask):
            fname = '%s(%s)' % (name, x.cond.show())
            m = Mask(P.Cond.flag(fname), 'scalar')
            ip.reduce_flags[fname] = (name, x.cond)      # the decision `all(c)` taken as True means c holds at every point
            return m
        t, k = ip.term_of(x, node)
        if P.is_pw(t):
            raise Unsupported('reduction of piecewise term', node)
        return Num(N.fn(name, t), 'scalar')
    return g


def np_allclose(ip, args, kwargs, node):
    ts = [ip.term_of(a, node)[0] for a in args[:2]]
    m = Mask(P.Cond.flag('allclose(%s,%s)' % tuple(sorted(P.show(t) for t in ts))), 'scalar')
    m.allclose = {'args': ts, 'extra_args': len(args) - 2, 'kwargs': dict(kwargs), 'loc': ip.loc(node)}
    ip.notes.append(('allclose', m.allclose))
    return m


def np_isclose(ip, args, kwargs, node):
    ts = [ip.term_of(a, node)[0] for a in args[:2]]
    if not any(P.is_pw(t) for t in ts) and ts[0].equals(ts[1]):
        return TRUE
    kinds = [getattr(a, 'kind', 'scalar') for a in args[:2]]
    m = Mask(P.Cond.flag('isclose(%s,%s)' % tuple(sorted(P.show(t) for t in ts))), 'array' if 'array' in kinds else 'scalar')
    return m


def np_assert_allclose(ip, args, kwargs, node):
    """numpy.testing.assert_allclose(actual, desired, rtol=1e-7, atol=0): an assertion whose DEFAULT tolerances are a hundred
    times tighter than those of np.allclose -- recorded as an allclose with those tolerances made explicit"""
    kw = dict(kwargs)
    kw.pop('err_msg', None)
    kw.pop('verbose', None)
    kw.pop('equal_nan', None)
    if 'rtol' not in kw:
        kw['rtol'] = Num(N.NF.const(Fraction(1, 10 ** 7)))
    if 'atol' not in kw:
        kw['atol'] = Num(N.NF.const(0))
    m = np_allclose(ip, list(args[:2]), kw, node)
    b = ip.truth(m, node, ask=True)
    ip.guards.append({'kind': 'assert', 'node': node, 'loc': ip.loc(node), 'value': b, 'func': ip.frames[-1].func.name, 'cond': m})
    if b is False:
        raise Raised('AssertionError', 'Not equal to tolerance', ip.loc(node))
    return NONE


def np_array_equal(ip, args, kwargs, node):
    ts = [ip.term_of(a, node)[0] for a in args[:2]]
    if not any(P.is_pw(t) for t in ts) and ts[0].equals(ts[1]):
        return TRUE
    m = Mask(P.Cond.flag('array_equal(%s,%s)' % tuple(sorted(P.show(t) for t in ts))), 'scalar')
    m.array_equal = ts
    ip.notes.append(('array_equal', {'args': ts, 'loc': ip.loc(node)}))
    return m


def np_loadtxt(ip, args, kwargs, node):
    kw = {}
    for k_, v_ in kwargs.items():
        kw[k_] = v_.v if isinstance(v_, Const) else (num_value(v_) if is_const_num(v_) else repr(v_))
    ip.notes.append(('loadtxt', {'args': args, 'loc': ip.loc(node), 'kwargs': kw, 'npos': len(args)}))
    name = 'fileData'
    ip.sym_kind[name] = 'file'
    return Arr(N.sym(name), None, ip)


def np_polyfit(ip, args, kwargs, node):
    if len(args) != 3:
        raise Unsupported('polyfit arity', node)
    return Obj('polyfit', {'x': args[0], 'y': args[1], 'deg': args[2], 'loc': ip.loc(node)})


def np_poly1d(ip, args, kwargs, node):
    c = args[0]
    if not (isinstance(c, Obj) and c.cls == 'polyfit'):
        raise Unsupported('poly1d of something that is not a polyfit result', node)
    return Obj('poly1d', {'fit': c})


def poly1d_call(ip, selfobj, args, kwargs, node):
    fit = selfobj.attrs['fit']
    x0 = args[0]
    tx, _ = ip.term_of(fit.attrs['x'], node)
    ty, _ = ip.term_of(fit.attrs['y'], node)
    deg, _ = ip.term_of(fit.attrs['deg'], node)
    t0, _ = ip.term_of(x0, node)
    if any(P.is_pw(v) for v in (tx, ty, deg, t0)):
        raise Unsupported('piecewise polyfit', node)
    ip.notes.append(('extrap', {'x': tx, 'y': ty, 'deg': deg, 'at': t0, 'loc': fit.attrs['loc']}))
    return Num(N.fn('polyfit_eval', tx, ty, deg, t0), 'scalar')


def _canon_einsum(spec):
    spec = spec.replace(' ', '')
    m = {}
    out = []
    for ch in spec:
        if ch.isalpha():
            if ch not in m:
                m[ch] = chr(ord('a') + len(m))
            out.append(m[ch])
        else:
            out.append(ch)
    return ''.join(out)


def np_einsum(ip, args, kwargs, node):
    spec = args[0]
    if not (isinstance(spec, Const) and isinstance(spec.v, str)):
        raise Unsupported('einsum with non-literal spec', node)
    canon = _canon_einsum(spec.v)
    if len(args) == 3 and canon in ('abc,acd->abd', 'abc,adb->adc') and any(ip.has_cells(a) for a in args[1:]) and not kwargs:
        # stacks of matrices with concretely stored pair functions and a known, small rank: the product entry by entry
        x, y = (args[1], args[2]) if canon == 'abc,acd->abd' else (args[2], args[1])
        dx, dy = _dims_of(x), _dims_of(y)
        nx = dx[1] if dx is not None and len(dx) == 3 else None
        if nx is None or not nx.is_const() or dy is None or len(dy) != 3 or not dy[1].equals(nx):
            raise Unsupported('matrix product of arrays stored entry by entry whose rank is not known', node)
        n_ = int(nx.const_value())
        bx, by = x, y
        while isinstance(bx, View):
            bx = bx.base
        while isinstance(by, View):
            by = by.base
        ip.notes.append(('einsum', {'spec': spec.v, 'canon': canon, 'loc': ip.loc(node)}))
        r = ip.fresh_array(N.NF.const(0))
        r.cells = {}
        r.dims = dx
        for i in range(n_):
            for k_ in range(n_):
                acc = N.NF.const(0)
                for j in range(n_):
                    acc = P.lift2(lambda p_, q_: p_ + q_, acc, P.lift2(lambda p_, q_: p_ * q_, ip.read_cell(bx, i, j, node),
                                                                     ip.read_cell(by, j, k_, node)))
                r.cells[(i, k_)] = acc
        return r
    ops = [ip.term_of(a, node)[0] for a in args[1:]]
    ip.notes.append(('einsum', {'spec': spec.v, 'canon': canon, 'loc': ip.loc(node)}))
    if any(P.is_pw(o) for o in ops):
        raise Unsupported('piecewise einsum operand', node)
    if canon == 'abc,acd->abd' and len(ops) == 2:
        t = N.fn('dot', ops[0], ops[1])
    elif canon == 'abc,adb->adc' and len(ops) == 2:   # 'lij,lki->lkj' = B.A
        t = N.fn('dot', ops[1], ops[0])
    else:
        t = N.fn('einsum:' + canon, *ops)
    extra = sorted(k for k in kwargs if k != 'out')
    if extra:
        raise Unsupported('einsum keywords %s' % extra, node)
    out = kwargs.get('out')
    if out is not None and not (isinstance(out, Const) and out.v is None):
        # the product is written into an existing array, which is also what the call returns
        if not isinstance(out, Arr):
            raise Unsupported('einsum out= is not a plain array', node)
        out.t = t
        if not out.fresh:
            ip.event('write', out.origin, node, via='einsum-out')
        return out
    return ip.fresh_array(t)


def np_inv(ip, args, kwargs, node):
    if ip.has_cells(args[0]):
        b = args[0]
        while isinstance(b, View):
            b = b.base
        d = _dims_of(b)
        if d is None or len(d) != 3 or not d[1].is_const() or int(d[1].const_value()) != 1:
            raise Unsupported('inverse of an array stored entry by entry (only 1x1 matrices are inverted entry-wise)', node)
        r = ip.fresh_array(N.NF.const(0))
        r.cells = {(0, 0): P.lift1(lambda y: N.NF.const(1) / y, ip.read_cell(b, 0, 0, node))}
        r.dims = d
        return r
    t, _ = ip.term_of(args[0], node)
    if P.is_pw(t):
        raise Unsupported('piecewise inverse', node)
    return ip.fresh_array(N.fn('inv', t))


def sp_dst(ip, args, kwargs, node):
    t, _ = ip.term_of(args[0], node)
    ty = kwargs.get('type', args[1] if len(args) > 1 else const_num(2))
    extra = sorted(k for k in kwargs if k != 'type')
    if not is_const_num(ty):
        raise Unsupported('dst type is not a literal', node)
    ty = int(num_value(ty))
    if len(args) > 2:
        raise Unsupported('dst with positional n/axis/norm arguments', node)
    variant = []
    overwrite = None
    for k in extra:
        v = kwargs[k]
        if k == 'norm' and isinstance(v, Const) and v.v is None:
            continue            # the default: un-normalised
        if k == 'axis' and is_const_num(v) and (int(num_value(v)) == -1 or (int(num_value(v)) == 0 and not STRICT_AXIS)):
            continue            # the default (last axis); axis=0 differs for stacked (m, length) inputs, which the
                                # transforms accept because the r/k coefficients broadcast along the last axis
        if k == 'n' and not (isinstance(v, Const) and v.v is None):
            tn, _ = ip.term_of(v, node)
            if not P.is_pw(tn) and not P.is_pw(t) and (tn.equals(length_of(ip, t)) or same_length(ip, tn, t)):
                continue        # n == len(x): the default
            variant.append('n=%s' % P.show(tn))     # zero-padded / truncated transform: another linear map
            continue
        if k == 'n':
            continue
        if k == 'overwrite_x' and (isinstance(v, Const) or is_const_num(v)):
            truthy = bool(v.v) if isinstance(v, Const) else num_value(v) != 0
            if truthy:
                # the operand may be used as work space: its contents are unspecified afterwards (same transform)
                x = args[0]
                root = x
                while isinstance(root, View):
                    root = root.base
                if isinstance(root, Arr):
                    overwrite = x
            continue
        if k in ('norm', 'axis') and (isinstance(v, Const) or is_const_num(v)):
            variant.append('%s=%s' % (k, v.v if isinstance(v, Const) else num_value(v)))
            continue
        raise Unsupported('dst keyword %s with a non-literal value' % k, node)
    ip.notes.append(('dst', {'type': ty, 'extra_kwargs': variant, 'nargs': len(args), 'loc': ip.loc(node)}))
    if P.is_pw(t):
        raise Unsupported('piecewise dst operand', node)
    # a normalised / truncated / other-axis transform is a different linear map: a distinct uninterpreted atom
    name = 'dst%d' % ty + (''.join('[%s]' % x for x in variant))
    if overwrite is not None and not variant:
        # overwrite_x=True: fftpack transforms a contiguous float64 operand in its own memory and returns that memory (what
        # happens for every array the package passes); the model takes that case -- code that is right only when the
        # result is a new array is not right
        return _write_out(ip, overwrite, N.fn(name, t), node)
    return ip.fresh_array(N.fn(name, t))


def sp_next_fast_len(ip, args, kwargs, node):
    """smallest 5-smooth (fftpack) / 11-smooth (fft) integer >= n: an uninterpreted integer function that is NOT the
    identity (next_fast_len(1022) == 1024)"""
    t, _ = ip.term_of(args[0], node)
    if P.is_pw(t):
        raise Unsupported('piecewise length', node)
    if t.is_const():
        import scipy.fftpack
        return const_num(int(scipy.fftpack.next_fast_len(int(t.const_value()))))
    return Num(N.fn('next_fast_len', t), 'scalar')


def sp_root(ip, args, kwargs, node):
    f = args[0] if args else kwargs.get('fun')
    if f is None:
        raise Raised('TypeError', 'root() missing the function argument', ip.loc(node))
    x0 = args[1] if len(args) > 1 else kwargs.get('x0')
    ip.sym_kind['root_iter'] = 'curve'
    xi = Arr(N.sym('root_iter'), 'root-callback-arg', ip)
    xi.fresh = False
    ip.notes.append(('root', {'loc': ip.loc(node), 'callback': f, 'x0': x0,
                              'method': args[3] if len(args) > 3 else kwargs.get('method'),
                              'options': kwargs.get('options'), 'jac': kwargs.get('jac'), 'tol': kwargs.get('tol'),
                              'extra': sorted(set(kwargs) - {'fun', 'x0', 'method', 'options', 'jac', 'tol', 'args', 'callback'})}))
    ip.event('root-call', 'scipy.optimize.root', node)
    ip.call(f, [xi], {}, node)
    ip.event('root-return', 'scipy.optimize.root', node)
    ip.sym_kind['root_x'] = 'curve'
    res = Obj('OptimizeResult', {'x': Arr(N.sym('root_x'), None, ip), 'success': TRUE,
                                 'fun': Arr(N.sym('root_fun'), None, ip)})
    return res


def deepcopy(ip, args, kwargs, node):
    memo = {}
    _copy_native.ip = ip
    seed = args[1] if len(args) > 1 else kwargs.get('memo')
    if seed is not None and not (isinstance(seed, Const) and seed.v is None):
        # deepcopy(x, {id(y): y}): y is "already copied" -- the result shares y with the original
        if not (isinstance(seed, Obj) and seed.cls == 'dict'):
            raise Unsupported('deepcopy with a memo that is not a dict literal', node)
        for k_, v_ in seed.attrs['items'].items():
            if isinstance(k_, tuple) and len(k_) == 3 and k_[0] == 'id':
                if k_[1] == 'obj':
                    memo[k_[2]] = v_
                else:
                    memo[('arr', k_[2])] = v_
            else:
                raise Unsupported('deepcopy memo key is not an id()', node)

    def cp(v):
        if isinstance(v, Obj):
            if v.oid in memo:
                return memo[v.oid]
            hook = ip.find_method(v, '__deepcopy__') if not isinstance(v.cls, str) else None
            if hook is not None:
                # a class that defines its own __deepcopy__: that method decides what a "copy" is
                r = ip.call(hook, [Obj('dict', {'items': {}})], {}, node)
                memo[v.oid] = r
                return r
            o = Obj(v.cls, {}, None)
            memo[v.oid] = o
            for k, x in v.attrs.items():
                o.attrs[k] = cp(x) if not k.startswith('_native_') else _copy_native(x, cp)
            return o
        if isinstance(v, Arr):
            key = ('arr', v.aid)
            if key in memo:
                return memo[key]
            a = Arr(v.t, None, ip)
            if v.cells:
                a.cells = dict(v.cells)
            if getattr(v, 'dims', None) is not None:
                a.dims = v.dims
            if getattr(v, 'inty', False):
                a.inty = True
            memo[key] = a
            return a
        if isinstance(v, View):
            t = ip.read_view(v, node)
            return Arr(t, None, ip)
        if isinstance(v, Seq):
            return Seq([cp(x) for x in v.items], v.kind)
        if isinstance(v, dict):
            return {k_: cp(x) for k_, x in v.items()}        # the contents of a dict object
        return v
    return cp(args[0])


def shallow_copy(ip, args, kwargs, node):
    """copy.copy: a new container / object whose fields are the *same* objects"""
    x = args[0]
    if isinstance(x, Obj):
        hook = ip.find_method(x, '__copy__') if not isinstance(x.cls, str) else None
        if hook is not None:
            return ip.call(hook, [], {}, node)
        o = Obj(x.cls, dict(x.attrs), None)
        if x.cls == 'dict':
            o.attrs['items'] = dict(x.attrs['items'])
        return o
    if isinstance(x, Seq):
        return Seq(list(x.items), x.kind)
    if isinstance(x, (Arr, View)):
        t, _ = ip.term_of(x, node)
        return ip.fresh_array(t)
    return x


def dict_copy(ip, o, args, kwargs, node):
    return Obj('dict', {'items': dict(o.attrs['items'])})


def _copy_native(x, cp):
    if hasattr(x, 'clone'):
        return x.clone(_copy_native.ip)
    if isinstance(x, dict):
        return {k: cp(v) for k, v in x.items()}
    if isinstance(x, list):
        out = []
        for v in x:
            if isinstance(v, dict):
                out.append({k: (cp(w) if isinstance(w, (Obj, Arr, View, Seq)) else w) for k, w in v.items()})
            else:
                out.append(cp(v))
        return out
    return x


# ---------------------------------------------------------------------------------------------
def b_len(ip, args, kwargs, node):
    x = args[0]
    if isinstance(x, Seq):
        return const_num(len(x.items))
    if isinstance(x, Types):
        return Num(ip.declare('n_types', integer=True), 'scalar')
    if isinstance(x, Obj) and x.cls == 'shape':
        return shape_len(ip, x, node)
    if isinstance(x, Const) and isinstance(x.v, str):
        return const_num(len(x.v))
    if isinstance(x, Num) and x.kind == 'scalar':
        # a Python number or a 0-d array (np.loadtxt of a one-number file): len() of unsized object
        raise Raised('TypeError', 'len() of unsized object', ip.loc(node))
    if isinstance(x, (Arr, View, Num)):
        t, k = ip.term_of(x, node)
        return Num(length_of(ip, t), 'scalar')
    if isinstance(x, Obj):
        m = ip.find_method(x, '__len__')
        if m is not None:
            return ip.call(m, [], {}, node)
    raise Unsupported('len of %r' % (x,), node)


def length_of(ip, t):
    """length of the leading axis of an array term, as a term"""
    if P.is_pw(t):
        t = next(P.leaves(t))
    kinds = set()
    for a in t.all_atoms():
        if a[0] == 'sym':
            k = ip.sym_kind.get(a[1], 'scalar')
            if k != 'scalar':
                kinds.add(a[1])
    # every array-valued ingredient is the same leading slice x[lo:hi] with constant bounds: hi - lo points (the grids of a
    # PRISM object have more points than the few lowest-k points such a slice takes; recorded as an assumption)
    sl = [a for a in t.all_atoms() if a[0] == 'fn' and a[1] == 'slice']
    if sl and not kinds - {s_ for a in sl for s_ in N.NF.atom(a).symbols()}:
        bounds = set()
        for a in sl:
            lo, hi = (N.nf_from_key(x) if N.is_nfkey(x) else None for x in a[3:5])
            if lo is None or hi is None or not lo.is_const() or not hi.is_const() or hi.const_value() < 0:
                bounds = None
                break
            bounds.add((lo.const_value(), hi.const_value()))
        top = {a for a in t.atoms() if a[0] == 'sym' and ip.sym_kind.get(a[1], 'scalar') != 'scalar'}
        if bounds and len(bounds) == 1 and not top:
            (lo, hi), = bounds
            ip.notes.append(('assumption', 'arrays have at least %s points (length of a [%s:%s] slice)' % (hi, lo, hi)))
            return N.NF.const(hi - lo)
    if len(kinds) == 1:
        name = kinds.pop()
        name = getattr(ip, 'len_alias', {}).get(name, name)      # arrays the world declares to live on one grid
        ip.sym_kind.setdefault('len(%s)' % name, 'scalar')
        N.declare_int('len(%s)' % name)
        return N.sym('len(%s)' % name)
    if not kinds:
        # an array built from index vectors only: iota(n) / farange-free terms have exactly n points
        ns = {a[2] for a in t.all_atoms() if a[0] == 'fn' and a[1] == 'iota'}
        others = [a for a in t.all_atoms() if a[0] == 'fn' and a[1] in ('farange', 'linspace', 'slice', 'dst2', 'dst3')]
        if len(ns) == 1 and not others:
            return N.nf_from_key(ns.pop())
    return N.fn('len', t)


def length_candidates(ip, t):
    """terms that all denote the length of the array term t: numpy refuses an elementwise combination of arrays of
    different lengths, so every array operand of t (and every index vector iota(n)) has the length of t"""
    out = []
    if P.is_pw(t):
        t = next(P.leaves(t))
    for a in t.all_atoms():
        if a[0] == 'sym' and ip.sym_kind.get(a[1], 'scalar') != 'scalar':
            N.declare_int('len(%s)' % a[1])
            out.append(N.sym('len(%s)' % a[1]))
        elif a[0] == 'fn' and a[1] == 'iota':
            out.append(N.nf_from_key(a[2]))
        elif a[0] == 'fn' and a[1] == 'ent' and isinstance(a[2], str):
            N.declare_int('len(%s)' % a[2])          # a pair function of the tensor named a[2]: its leading axis
            out.append(N.sym('len(%s)' % a[2]))
        elif a[0] == 'fn' and a[1] == 'len' and N.is_nfkey(a[2]):
            out.extend(length_candidates(ip, N.nf_from_key(a[2])))
    return out


def same_length(ip, n, t):
    cands = length_candidates(ip, t)
    if any(n.equals(c) for c in cands):
        return True
    mine = length_candidates(ip, n)
    return any(x.equals(c) for x in mine for c in cands)


def _dims_of(arr):
    while isinstance(arr, View) and arr.idx == ('all',):
        arr = arr.base
    return getattr(arr, 'dims', None) if isinstance(arr, Arr) else None


def shape_len(ip, sh, node):
    arr = sh.attrs['arr']
    if _dims_of(arr) is not None:
        return const_num(len(_dims_of(arr)))
    t, _ = ip.term_of(arr, node)
    nd = ndim_of(ip, t)
    if nd is not None:
        return const_num(nd)
    name = 'ndim(%s)' % P.show(t)
    N.declare_int(name)
    return Num(N.sym(name), 'scalar')


def ndim_of(ip, t):
    if P.is_pw(t):
        return None
    if t.is_monomial():
        (m, c), = t.num.items()
        if len(m) == 1 and m[0][1] == 1 and m[0][0][0] == 'sym':
            k = ip.sym_kind.get(m[0][0][1])
            return {'tensor': 3, 'mat1': 3, 'curve': 1, 'col': 3, 'row': 1}.get(k)
        # x.reshape((-1,1,1)) of a curve (Domain.long_r) and its scalar multiples / powers: three axes
        arrs = [a for a, e in m if a[0] != 'sym' or ip.sym_kind.get(a[1], 'scalar') != 'scalar']
        if len(arrs) == 1 and arrs[0][0] == 'fn' and arrs[0][1] == 'col3':
            return 3
    # an elementwise combination of stacks of matrices (and scalars) is a stack of matrices: numpy broadcasting keeps the
    # three axes.  Only decided when every array-valued ingredient is a plain tensor / mat1 symbol.
    kinds = set()
    for a in t.all_atoms():
        if a[0] == 'sym':
            kinds.add(ip.sym_kind.get(a[1], 'scalar'))
        elif a[0] == 'fn' and a[1] not in ('log', 'sin', 'cos', 'abs', 'exp'):
            return None
    kinds.discard('scalar')
    if kinds and kinds <= {'tensor', 'mat1'}:
        return 3
    return None


def b_range(ip, args, kwargs, node):
    for a in args:
        if getattr(a, 'pyfloat', False):
            raise Raised('TypeError', "'float' object cannot be interpreted as an integer", ip.loc(node))
    vals = [ip.term_of(a, node)[0] for a in args]
    if len(vals) == 1:
        lo, hi, st = N.NF.const(0), vals[0], N.NF.const(1)
    elif len(vals) == 2:
        lo, hi, st = vals[0], vals[1], N.NF.const(1)
    else:
        lo, hi, st = vals
    return Obj('range', {'lo': lo, 'hi': hi, 'step': st})


def b_minmax(which):
    """builtin min / max of scalars (several arguments or one sequence); of one array: the reduction"""
    def g(ip, args, kwargs, node):
        if kwargs:
            raise Unsupported('%s with keywords' % which, node)
        items = list(args)
        if len(items) == 1:
            x = items[0]
            if isinstance(x, Seq):
                items = list(x.items)
            elif getattr(x, 'kind', None) == 'array':
                return np_reduce(which)(ip, [x], {}, node)
            else:
                raise Raised('TypeError', '%r object is not iterable' % (x,), ip.loc(node))
        if not items:
            raise Raised('ValueError', '%s() arg is an empty sequence' % which, ip.loc(node))
        acc = None
        for it in items:
            t, k = ip.term_of(it, node)
            if k == 'array':
                raise Raised('ValueError', 'The truth value of an array with more than one element is ambiguous (%s of arrays)' % which,
                             ip.loc(node))
            if acc is None:
                acc = t
            else:
                # python keeps the first of equal arguments; as numbers they are the same
                def pick(a, b):
                    if any(x[0] == 'fn' and x[1] in ('max', 'min', 'sum', 'mean', 'ptp', 'median') for x in (a.all_atoms() | b.all_atoms())):
                        # an operand is a reduction over an array: keep the choice uninterpreted (one term, not a case split
                        # on an ordering nobody can enumerate)
                        return N.fn('s' + which, a, b)
                    return P.ite(P.Cond.cmp('>' if which == 'max' else '<', b, a), b, a)
                acc = P.lift2(pick, acc, t)
        return Num(acc, 'scalar')
    return g


def np_identity(ip, args, kwargs, node):
    n = args[0] if args else kwargs.get('n', kwargs.get('N'))
    extra = set(kwargs) - {'n', 'N', 'dtype'}
    if extra or len(args) > 1:
        raise Unsupported('np.identity / np.eye with %s' % (sorted(extra) or 'several arguments'), node)
    t, _ = ip.term_of(n, node)
    if P.is_pw(t):
        raise Unsupported('piecewise matrix size', node)
    return ip.fresh_array(N.fn('ident', t))


def op_fn(kind, name):
    def g(ip, args, kwargs, node):
        if kwargs or len(args) != 2:
            raise Unsupported('operator.%s arity' % name, node)
        if kind == 'cmp':
            return ip.compare(name, args[0], args[1], node)
        return ip.binop(name, args[0], args[1], node)
    return g


def np_size(ip, args, kwargs, node):
    x = args[0]
    if kwargs or len(args) > 1:
        raise Unsupported('np.size with an axis', node)
    if isinstance(x, Seq):
        return const_num(len(x.items))
    if isinstance(x, Num) and x.kind == 'scalar':
        return const_num(1)           # numbers and 0-d arrays have one element
    if isinstance(x, (Arr, View, Num)):
        t, k = ip.term_of(x, node)
        kinds = ip.lead_kinds(t)
        if kinds <= {'curve', 'file'}:
            return Num(length_of(ip, t), 'scalar')
        raise Unsupported('np.size of a multi-dimensional array', node)
    raise Unsupported('np.size of %r' % (x,), node)


def b_str(ip, args, kwargs, node):
    """str(x): a string stays itself (a file name, a label); anything else becomes some text"""
    if not args:
        return Const('')
    x = args[0]
    if isinstance(x, Const) and isinstance(x.v, str):
        return x
    if isinstance(x, Const) and isinstance(x.v, tuple) and len(x.v) == 2 and x.v[0] == 'path':
        return Const(x.v[1])
    return Const('<str>')


def os_path_identity(ip, args, kwargs, node):
    """os.path.expanduser / os.fspath / os.path.normpath of a name without '~': the same file"""
    x = args[0]
    if isinstance(x, Const) and isinstance(x.v, str) and not x.v.startswith('~'):
        return x
    raise Unsupported('path manipulation of %r' % (x,), node)


def np_round(ip, args, kwargs, node):
    """np.round / np.around / round: the value rounded to `decimals` places -- an uninterpreted function of the value (it is
    the identity only on numbers that already have that few decimals)"""
    if not args:
        raise Raised('TypeError', 'round() missing argument', ip.loc(node))
    t, k = ip.term_of(args[0], node)
    d = args[1] if len(args) > 1 else kwargs.get('decimals', kwargs.get('ndigits'))
    dt = ip.term_of(d, node)[0] if d is not None and not (isinstance(d, Const) and d.v is None) else N.NF.const(0)
    if P.is_pw(dt):
        raise Unsupported('piecewise number of decimals', node)
    r = P.lift1(lambda y: N.fn('round', y, dt), t)
    return ip.make_result(r, k)


def b_slice(ip, args, kwargs, node):
    """slice(None) / slice(a, b): a slice object used as a subscript later on"""
    parts = [None if (isinstance(a, Const) and a.v is None) else a for a in args]
    if len(parts) == 1:
        parts = [None, parts[0], None]
    while len(parts) < 3:
        parts.append(None)
    c = Const(('sliceobj',))
    c.slice_parts = tuple(parts)
    return c


def np_ndim(ip, args, kwargs, node):
    x = args[0]
    if isinstance(x, Num) and x.kind == 'scalar':
        return const_num(0)
    if isinstance(x, Const) and isinstance(x.v, (int, float, bool)):
        return const_num(0)
    if isinstance(x, Seq):
        if all(isinstance(i, (Num, Const)) for i in x.items):
            return const_num(1)
        raise Unsupported('np.ndim of a nested sequence', node)
    if isinstance(x, (Arr, View, Num)):
        t, k = ip.term_of(x, node)
        nd = ndim_of(ip, t)
        if nd is None and not P.is_pw(t) and ip.lead_kinds(t) <= {'curve', 'file'} and ip.lead_kinds(t):
            nd = 1
        if nd is not None:
            return const_num(nd)
    raise Unsupported('np.ndim of %r' % (x,), node)


class _FInfo(object):
    pass


def np_finfo(ip, args, kwargs, node):
    return Obj('finfo', {'eps': Num(ip.declare('machine_eps')), 'tiny': Num(ip.declare('float_tiny')),
                         'max': Num(ip.declare('float_max')), 'min': Num(-ip.declare('float_max'))})


def b_sum(ip, args, kwargs, node):
    x = args[0]
    start = args[1] if len(args) > 1 else kwargs.get('start', const_num(0))
    if isinstance(x, Seq):
        acc = start
        for it in x.items:
            acc = ip.binop('Add', acc, it, node)
        return acc
    if getattr(x, 'kind', None) == 'array':
        if len(args) > 1 or kwargs:
            raise Unsupported('sum(array, start)', node)
        return np_reduce('sum')(ip, [x], {}, node)
    raise Unsupported('sum over %r' % (x,), node)


def b_abs(ip, args, kwargs, node):
    x = args[0]
    t, k = ip.term_of(x, node)

    def f(v):
        s = ip.sign_of(v)
        if s == '+':
            return v
        if s == '-':
            return -v
        return N.absval(v)
    return ip.make_result(P.lift1(f, t), k)


def b_set(ip, args, kwargs, node):
    """set(iterable of numbers / constants): duplicates removed by term equality (two different symbolic lengths are
    different elements: the rule that calls this enumerates the equal and the unequal case explicitly)"""
    if not args:
        return Seq([], 'set')
    x = args[0]
    if not isinstance(x, Seq):
        raise Unsupported('set() of %r' % (x,), node)
    out = []
    for v in x.items:
        dup = False
        for w in out:
            if isinstance(v, Const) and isinstance(w, Const):
                dup = v.v == w.v
            elif isinstance(v, Seq) or isinstance(w, Seq):
                dup = _dict_key(v, node) == _dict_key(w, node)      # tuples of hashable elements
            elif ip.is_numeric(v) and ip.is_numeric(w):
                tv, tw = ip.term_of(v, node)[0], ip.term_of(w, node)[0]
                dup = not P.is_pw(tv) and not P.is_pw(tw) and tv.equals(tw)
            if dup:
                break
        if not dup:
            out.append(v)
    return Seq(out, 'set')


def b_anyall(which):
    def g(ip, args, kwargs, node):
        x = args[0]
        if isinstance(x, Obj) and x.cls == 'dict':
            x = Seq([Const(k) for k in x.attrs['items']], 'list')
        if not isinstance(x, Seq):
            raise Unsupported('%s() of %r' % (which, x), node)
        for v in x.items:
            t = ip.truth(v, node)
            if which == 'any' and t:
                return TRUE
            if which == 'all' and not t:
                return FALSE
        return FALSE if which == 'any' else TRUE
    return g


def dict_fromkeys(ip, args, kwargs, node):
    keys = args[0]
    val = args[1] if len(args) > 1 else NONE
    if isinstance(keys, Obj) and keys.cls == 'dict':
        keys = Seq([Const(k) for k in keys.attrs['items']], 'list')
    if not isinstance(keys, Seq):
        raise Unsupported('dict.fromkeys of %r' % (keys,), node)
    return Obj('dict', {'items': {_dict_key(k, node): val for k in keys.items}})


def b_dict(ip, args, kwargs, node):
    if not args and not kwargs:
        return Obj('dict', {'items': {}})
    if len(args) == 1 and isinstance(args[0], Obj) and args[0].cls == 'dict' and not kwargs:
        return Obj('dict', {'items': dict(args[0].attrs['items'])})
    if not args:
        return Obj('dict', {'items': dict(kwargs)})
    raise Unsupported('dict(%r)' % (args,), node)


def b_iter(ip, args, kwargs, node):
    """iter(x): only whether x is iterable matters to the package (Table.listify)"""
    x = args[0]
    if isinstance(x, (Seq, Types, Arr, View)) or (isinstance(x, Const) and isinstance(x.v, str)) or \
            (isinstance(x, Obj) and (x.cls == 'dict' or ip.find_method(x, '__iter__') is not None)):
        return Obj('iterator', {'of': x})
    if isinstance(x, Num) and x.kind == 'array':
        return Obj('iterator', {'of': x})
    if isinstance(x, (Num, Const)) or (isinstance(x, Obj) and ip.find_method(x, '__iter__') is None):
        raise Raised('TypeError', 'object is not iterable', ip.loc(node))
    raise Unsupported('iter(%r)' % (x,), node)


def b_id(ip, args, kwargs, node):
    x = args[0]
    if isinstance(x, Obj):
        return Const(('id', 'obj', x.oid))
    if isinstance(x, Arr):
        return Const(('id', 'arr', x.aid))
    raise Unsupported('id() of %r' % (x,), node)


def b_frozenset(ip, args, kwargs, node):
    x = args[0] if args else Seq([], 'list')
    if isinstance(x, Seq) and all(isinstance(i, Const) for i in x.items):
        return Const(frozenset(i.v for i in x.items))
    raise Unsupported('frozenset of %r' % (x,), node)


_NDARRAY_ATTRS = {'size', 'shape', 'ndim', 'dtype', 'item', 'tolist', 'astype', 'copy', 'reshape', 'T', 'sum', 'min', 'max', '__len__',
                  '__iter__', '__getitem__', '__array__', 'flatten', 'ravel', 'fill'}


def b_hasattr(ip, args, kwargs, node):
    o, nm = args
    if not (isinstance(nm, Const) and isinstance(nm.v, str)):
        raise Unsupported('hasattr with a computed name', node)
    if isinstance(o, Obj):
        if nm.v in o.attrs or ip.find_method(o, nm.v) is not None:
            return TRUE
        return FALSE
    if isinstance(o, (Arr, View)) or (isinstance(o, Num) and o.kind == 'array'):
        if nm.v in _NDARRAY_ATTRS:
            return TRUE
        if nm.v.startswith('__'):
            raise Unsupported('hasattr(<array>, %r)' % nm.v, node)
        return FALSE
    if isinstance(o, Num) and o.kind == 'scalar':
        # a Python number has none of the container / ndarray attributes (numpy scalars have the ndarray ones, but
        # neither __len__ nor __iter__)
        if nm.v in ('__len__', '__iter__', '__getitem__'):
            return FALSE
        raise Unsupported('hasattr(<number>, %r): a Python float has not, a numpy scalar has' % nm.v, node)
    if isinstance(o, Seq):
        if o.kind in ('generator', 'iterator'):
            return TRUE if nm.v in ('__iter__', '__next__') else FALSE
        return TRUE if nm.v in ('__len__', '__iter__', '__getitem__', '__contains__') else FALSE
    raise Unsupported('hasattr on %r' % (o,), node)


def b_type(ip, args, kwargs, node):
    if len(args) != 1:
        raise Unsupported('type() with %d arguments' % len(args), node)
    x = args[0]
    if isinstance(x, Obj) and not isinstance(x.cls, str):
        return ClassRef(x.cls)
    if isinstance(x, Const):
        return Lib('builtins.' + type(x.v).__name__)
    if isinstance(x, Num) and x.kind == 'scalar' and not P.is_pw(x.t):
        if getattr(x, 'pyfloat', False):
            return Lib('builtins.float')
        if _is_integer_valued(x.t):
            return Lib('builtins.int')
        # a number the caller passed: a Python int or a Python float -- which one is a data condition (Interp.compare)
        r = Lib('builtins.<number>')
        r.of = x.t
        return r
    if isinstance(x, Seq) and x.kind in ('list', 'tuple', 'set', 'frozenset'):
        return Lib('builtins.' + x.kind)
    if isinstance(x, Seq):
        return Lib('numpy.ndarray' if x.kind == 'ndarray' else 'builtins.' + x.kind)
    if isinstance(x, (Arr, View)):
        st = getattr(x, 'seqtype', None)
        return Lib('builtins.' + st) if st else Lib('numpy.ndarray')
    if isinstance(x, Obj) and isinstance(x.cls, str) and x.cls not in ('dict',):
        return Lib('opaque.' + x.cls)        # an object of some class outside the package (a payload, a library object)
    if isinstance(x, Obj) and x.cls == 'dict':
        return Lib('builtins.dict')
    raise Unsupported('type(%r)' % (x,), node)


def b_vars(ip, args, kwargs, node):
    """vars(obj) read as a snapshot of the instance attributes (R00.dyn admits it only in read positions)"""
    if len(args) != 1 or not isinstance(args[0], Obj) or isinstance(args[0].cls, str):
        raise Unsupported('vars() of %r' % (args[:1],), node)
    o = args[0]
    return Obj('dict', {'items': {k: v for k, v in o.attrs.items() if not k.startswith('_native_')}})


def b_setattr(ip, args, kwargs, node):
    if len(args) != 3:
        raise Raised('TypeError', 'setattr expected 3 arguments', ip.loc(node))
    o, nm, v = args
    if not (isinstance(nm, Const) and isinstance(nm.v, str)):
        raise Unsupported('setattr with a computed name', node)
    ip.set_attr(o, nm.v, v, node)
    return NONE


def b_reversed(ip, args, kwargs, node):
    x = args[0]
    if isinstance(x, Seq) and x.kind in ('list', 'tuple', 'range'):
        return Seq(list(reversed(x.items)), 'iterator')
    if isinstance(x, Const) and isinstance(x.v, str):
        return Seq([Const(c) for c in reversed(x.v)], 'iterator')
    raise Unsupported('reversed(%r)' % (x,), node)


def b_sorted(ip, args, kwargs, node):
    x = args[0]
    if kwargs and set(kwargs) - {'reverse'}:
        raise Unsupported('sorted with a key function', node)
    if isinstance(x, Seq) and all(isinstance(i, Const) for i in x.items):
        try:
            items = sorted(take_items(x), key=lambda c: c.v)
        except TypeError:
            raise Raised('TypeError', 'unorderable items in sorted()', ip.loc(node))
        rv = kwargs.get('reverse')
        if isinstance(rv, Const) and rv.v:
            items.reverse()
        return Seq(items, 'list')
    if isinstance(x, Seq) and x.items and all(isinstance(i, Seq) and i.items and isinstance(i.items[0], Const) and
                                             isinstance(i.items[0].v, str) for i in x.items):
        # (name, value) records with pairwise different names -- sorted(vars(o).items()): the first field decides
        names = [i.items[0].v for i in x.items]
        if len(set(names)) == len(names):
            items = sorted(take_items(x), key=lambda i: i.items[0].v)
            rv = kwargs.get('reverse')
            if isinstance(rv, Const) and rv.v:
                items.reverse()
            return Seq(items, 'list')
    raise Unsupported('sorted(%r)' % (x,), node)


def _repr_key(ip, x, node):
    """structural stand-in for repr(x): two values have the same key iff Python prints them alike, with symbolic numbers in
    generic position (different terms print differently)"""
    if isinstance(x, Const):
        if getattr(x, 'slice_parts', None) is not None or isinstance(x.v, tuple):
            raise Unsupported('repr of %r' % (x,), node)
        return ('c', x.v)
    if isinstance(x, Num) and x.kind == 'scalar' and not P.is_pw(x.t):
        return ('n', N.reg(x.t))
    if isinstance(x, Seq) and x.kind in ('list', 'tuple'):
        return (x.kind,) + tuple(_repr_key(ip, i, node) for i in x.items)
    if isinstance(x, Obj) and x.cls == 'dict':
        return ('dict',) + tuple((k_, _repr_key(ip, v_, node)) for k_, v_ in x.attrs['items'].items())
    if isinstance(x, Func):
        return ('function', id(x))            # <function ... at 0x...>: one text per function object
    if isinstance(x, Obj) and isinstance(x.cls, ClassInfo):
        if x.cls.find_method('__repr__') is None and x.cls.find_method('__str__') is None:
            return ('object', x.oid)          # <pkg.Class object at 0x...>: one text per object
        raise Unsupported('repr() of an object whose class formats itself (%s.__repr__)' % x.cls.name, node)
    if isinstance(x, ClassRef):
        return ('class', x.cls.qualname)
    raise Unsupported('repr of %r' % (x,), node)


def b_repr(ip, args, kwargs, node):
    if len(args) != 1:
        raise Raised('TypeError', 'repr() takes exactly one argument', ip.loc(node))
    return Const(('<repr>', _repr_key(ip, args[0], node)))


def b_zip(ip, args, kwargs, node):
    cols = []
    for a in args:
        if isinstance(a, Const) and isinstance(a.v, str):
            cols.append([Const(c) for c in a.v])
        elif isinstance(a, Types):
            raise Unsupported('zip over the symbolic type list', node)
        elif isinstance(a, Seq):
            cols.append(take_items(a))
        else:
            raise Unsupported('zip over %r' % (a,), node)
    n = min(len(c) for c in cols) if cols else 0
    return Seq([Seq([c[i] for c in cols]) for i in range(n)], 'list')


def b_getattr(ip, args, kwargs, node):
    o, nm = args[0], args[1]
    if not (isinstance(nm, Const) and isinstance(nm.v, str)):
        raise Unsupported('getattr with a computed name', node)
    if isinstance(o, Obj):
        if nm.v in o.attrs or ip.find_method(o, nm.v) is not None or len(args) < 3:
            return ip.get_attr(o, nm.v, node)
        return args[2]
    raise Unsupported('getattr on %r' % (o,), node)


SEQ_PY = {'list': ('list', 'Sequence'), 'tuple': ('tuple', 'Sequence'), 'range': ('range', 'Sequence'),
          'ndarray': ('ndarray',), 'set': ('set', 'Set'), 'frozenset': ('frozenset', 'Set'), 'generator': ('generator', 'Iterator'),
          'dict_keys': ('dict_keys', 'Set'), 'iterator': ('iterator', 'Iterator')}


def python_types_of(ip, v):
    """names of the Python types / ABCs the abstract value is an instance of (None: not known)"""
    if isinstance(v, Const):
        if isinstance(v.v, bool) and getattr(v, 'npbool', False):
            return {'np.bool_', 'Hashable'}       # numpy.bool_ (the result of a numpy comparison): truthy, not a Python bool
        if isinstance(v.v, bool):
            return {'bool', 'int', 'Hashable'}
        if isinstance(v.v, str):
            return {'str', 'Sequence', 'Iterable', 'Sized', 'Container', 'Collection', 'Reversible', 'Hashable'}
        if isinstance(v.v, int):
            return {'int', 'Hashable'}
        if isinstance(v.v, float):
            return {'float', 'Hashable'}
        if v.v is None:
            return {'NoneType', 'Hashable'}
        if isinstance(v.v, tuple):
            return {'tuple', 'Sequence', 'Iterable', 'Sized', 'Container', 'Collection', 'Reversible', 'Hashable'}
        return None
    if isinstance(v, Label):
        return None               # a site-type label is any hashable: its type is not known
    if isinstance(v, Seq):
        names = set(SEQ_PY.get(v.kind, (v.kind,)))
        names |= {'Iterable'}
        if v.kind not in ('generator', 'iterator'):
            names |= {'Sized', 'Container', 'Collection'}
        if v.kind in ('list', 'tuple', 'range'):
            names |= {'Reversible'}
        if v.kind in ('tuple', 'frozenset', 'range'):
            names |= {'Hashable'}
        if v.kind == 'list':
            names |= {'MutableSequence'}
        return names
    if isinstance(v, (Arr, View, Masked, Mask)):
        st = getattr(v, 'seqtype', None)
        if st:                    # a plain Python sequence of numbers (modelled as an array term)
            return set(SEQ_PY[st]) | {'Iterable', 'Sized', 'Container', 'Collection', 'Reversible'}
        return {'ndarray', 'Iterable', 'Sized', 'Container', 'Collection'}
    if isinstance(v, Num):
        if v.kind == 'array':
            st = getattr(v, 'seqtype', None)
            if st:
                return set(SEQ_PY[st]) | {'Iterable', 'Sized', 'Container', 'Collection', 'Reversible'}
            return {'ndarray', 'Iterable', 'Sized', 'Container', 'Collection'}
        return {'float', 'int', 'Real', 'Number', 'Hashable'} if getattr(v, 'int_literal', False) else {'float', 'Real', 'Number', 'Hashable', '?int'}
    if isinstance(v, Obj) and v.cls == 'dict':
        return {'dict', 'Mapping', 'MutableMapping', 'Iterable', 'Sized', 'Container', 'Collection'}
    return None


_NUMPY_SCALAR_TYPES = {'numpy.integer', 'numpy.floating', 'numpy.number', 'numpy.generic', 'numpy.bool_', 'numpy.int64', 'numpy.int32',
                       'numpy.float64', 'numpy.float32', 'numpy.signedinteger', 'numpy.unsignedinteger', 'numpy.inexact'}
_LIB_TYPES = {'builtins.str': 'str', 'builtins.list': 'list', 'builtins.tuple': 'tuple', 'builtins.int': 'int', 'builtins.float': 'float',
              'builtins.bool': 'bool', 'builtins.set': 'set', 'builtins.frozenset': 'frozenset', 'builtins.dict': 'dict',
              'builtins.range': 'range', 'numpy.ndarray': 'ndarray', 'numbers.Number': 'Number', 'numbers.Real': 'Real'}
for _n in ('Sequence', 'Iterable', 'Sized', 'Container', 'Collection', 'Reversible', 'Hashable', 'Mapping', 'MutableMapping',
           'MutableSequence', 'Set', 'Iterator'):
    _LIB_TYPES['collections.abc.' + _n] = _n
    _LIB_TYPES['collections.' + _n] = _n
    _LIB_TYPES['typing.' + _n] = _n


def b_isinstance(ip, args, kwargs, node):
    v, c = args
    cs = c.items if isinstance(c, Seq) else [c]
    if isinstance(v, Unknown):
        raise Unsupported('isinstance of unknown value', node)
    pending = None
    for c1 in cs:
        if isinstance(c1, ClassRef):
            if isinstance(v, Obj) and isinstance(v.cls, type(c1.cls)) and v.cls.is_subclass_of(c1.cls):
                return TRUE
            if isinstance(v, Const) and isinstance(v.v, tuple) and len(v.v) == 2 and v.v[0] == c1.cls.name:
                return TRUE       # a member of that enumeration
        elif isinstance(c1, Lib):
            want = _LIB_TYPES.get(c1.name)
            if want is None and c1.name in _NUMPY_SCALAR_TYPES:
                # numpy scalar classes: Python literals and constants are never instances; a number or a label the caller
                # supplies may be one (np.int64(3) as a site type) -- not known
                if isinstance(v, Const) or (isinstance(v, Num) and is_const_num(v)) or isinstance(v, (Obj, Seq, Arr, View, Masked, Mask)):
                    continue
                pending = 'whether %r is a numpy scalar (%s)' % (v, c1.name)
                continue
            if want is None:
                raise Unsupported('isinstance against %s' % c1.name, node)
            if isinstance(v, Obj) and v.cls != 'dict':
                continue          # an instance of a package class (or an opaque library object) is none of these
            if isinstance(v, Label):
                if want == 'str':
                    return TRUE   # type labels are strings in every shipped example
                if want == 'Hashable':
                    return TRUE
                pending = 'isinstance of a type label against %s' % c1.name
                continue
            have = python_types_of(ip, v)
            if have is None:
                pending = 'isinstance of %r against %s' % (v, c1.name)
                continue
            if want in have:
                return TRUE
            if want == 'int' and '?int' in have:
                pending = 'whether a symbolic number is an int'
        else:
            raise Unsupported('isinstance against %r' % (c1,), node)
    if pending:
        raise Unsupported(pending, node)
    return FALSE


def types_iter(ip, types):
    kind = 'types' if not getattr(types, 'partial', None) else 'types-slice'

    def make(ip2):
        l = ip2.new_label()
        return l, {'labels': [l.name], 'kind': kind, 'partial': getattr(types, 'partial', None)}
    return LabelIter(make, 'for t in types' if kind == 'types' else 'for t in %s' % types.partial)


def b_enumerate(ip, args, kwargs, node):
    x = args[0]
    if isinstance(x, Types):
        part = getattr(x, 'partial', None)

        def make(ip2):
            l = ip2.new_label()
            # over a slice of the type list the running index is the position *within the slice*, not in the list
            return Seq([Index(l.name), l]), {'labels': [l.name], 'kind': 'enumerate(types)' if not part else 'enumerate(types-slice)',
                                             'partial': part}
        return LabelIter(make, 'enumerate(types)' if not part else 'enumerate(%s)' % part)
    if isinstance(x, Seq):
        return Seq([Seq([const_num(i), v]) for i, v in enumerate(x.items)], 'list')
    if isinstance(x, LabelIter):
        raise Unsupported('enumerate of a pair iterator', node)
    raise Unsupported('enumerate(%r)' % (x,), node)


def _concrete_items(ip, x, node):
    if isinstance(x, Seq):
        return list(x.items)
    if isinstance(x, Obj) and x.cls == 'range':
        lo, hi, st = x.attrs['lo'], x.attrs['hi'], x.attrs['step']
        if all(t.is_const() for t in (lo, hi, st)):
            return [const_num(i) for i in range(int(lo.const_value()), int(hi.const_value()), int(st.const_value()))]
    return None


def it_combinations(with_replacement):
    def g(ip, args, kwargs, node):
        if len(args) != 2 or not is_const_num(args[1]) or int(num_value(args[1])) != 2:
            raise Unsupported('itertools.combinations with r != 2', node)
        items = _concrete_items(ip, args[0], node)
        if items is None:
            raise Unsupported('itertools.combinations of a symbolic iterable', node)
        import itertools as _it
        f = _it.combinations_with_replacement if with_replacement else _it.combinations
        return Seq([Seq(list(p_)) for p_ in f(items, 2)], 'list')
    return g


def it_product(ip, args, kwargs, node):
    rep = kwargs.get('repeat')
    if rep is not None and len(args) == 1 and is_const_num(rep) and int(num_value(rep)) == 2:
        args = [args[0], args[0]]
    args = [types_iter(ip, a) if isinstance(a, Types) else a for a in args]
    if len(args) == 2 and all(isinstance(a, LabelIter) for a in args):
        a, b = args

        def make(ip2):
            e1, c1 = a.make(ip2)
            e2, c2 = b.make(ip2)
            return Seq([e1, e2]), {'labels': c1['labels'] + c2['labels'], 'kind': 'product'}
        return LabelIter(make, 'product(%s,%s)' % (a.desc, b.desc))
    conc = [_concrete_items(ip, a, node) for a in args]
    if conc and all(c is not None for c in conc):
        import itertools as _it
        return Seq([Seq(list(p_)) for p_ in _it.product(*conc)], 'list')
    if len(args) == 2 and all(isinstance(a, Obj) and a.cls == 'range' for a in args):
        raise Unsupported('product of symbolic ranges', node)
    raise Unsupported('itertools.product of %r' % (args,), node)


def take_items(x):
    """the items an iteration over the sequence yields; a one-shot iterable (generator, iterator) is exhausted by it"""
    items = list(x.items)
    if x.kind in ('generator', 'iterator'):
        x.items = []
    return items


def b_list(ip, args, kwargs, node):
    if not args:
        return Seq([], 'list')
    x = args[0]
    if isinstance(x, Seq):
        return Seq(take_items(x), 'list')
    if isinstance(x, Types):
        return x
    if isinstance(x, Const) and isinstance(x.v, str):
        return Seq([Const(c) for c in x.v], 'list')
    if isinstance(x, Unknown):
        raise Unsupported('list of unknown', node)
    raise Unsupported('list(%r)' % (x,), node)


def b_int(ip, args, kwargs, node):
    x = args[0]
    if isinstance(x, Const) and isinstance(x.v, (int, float)) and not isinstance(x.v, bool):
        r = const_num(int(x.v))
        r.inty = True
        return r
    if isinstance(x, Const) and isinstance(x.v, bool):
        return const_num(int(x.v))
    if is_const_num(x):
        return const_num(int(num_value(x)))
    if isinstance(x, Num) and x.kind == 'scalar':
        if getattr(x, 'pyfloat', False):
            return Num(x.t, 'scalar')       # int(20.0): the same number, now an int
        return x
    raise Unsupported('int(%r)' % (x,), node)


def b_float(ip, args, kwargs, node):
    x = args[0]
    if isinstance(x, Num) and x.kind == 'scalar':
        return x
    if isinstance(x, (Arr, View)) or (isinstance(x, Num) and x.kind == 'array'):
        # float(<ndarray with one axis or more>): numpy (2.x, as installed) refuses -- only 0-d arrays convert
        raise Raised('TypeError', 'only 0-dimensional arrays can be converted to Python scalars', ip.loc(node))
    raise Unsupported('float(%r)' % (x,), node)


def b_noop(ip, args, kwargs, node):
    return NONE


def b_exc(name):
    def g(ip, args, kwargs, node):
        return Obj('exception', {'name': name})
    return g


def w_warn(ip, args, kwargs, node):
    ip.event('warn', 'warnings.warn', node)
    return NONE


def np_errstate(ip, args, kwargs, node):
    return Obj('contextmanager', {})


def np_trapz(ip, args, kwargs, node):
    y = args[0]
    x = kwargs.get('x', args[1] if len(args) > 1 else None)
    ty, _ = ip.term_of(y, node)
    tx = ip.term_of(x, node)[0] if x is not None else N.sym('unit_dx')
    axis = kwargs.get('axis')
    ax = int(num_value(axis)) if axis is not None and is_const_num(axis) else None
    ip.notes.append(('integrate', {'axis': ax, 'loc': ip.loc(node)}))
    if P.is_pw(ty) or P.is_pw(tx):
        raise Unsupported('piecewise integrand', node)
    r = N.fn('intx', ty, tx, 'axis=%s' % ax)
    return ip.fresh_array(r) if ax is not None else Num(r, 'scalar')


def np_meshgrid(ip, args, kwargs, node):
    ix = kwargs.get('indexing')
    if not (isinstance(ix, Const) and ix.v == 'ij') or len(args) != 2:
        raise Unsupported('meshgrid form', node)
    a, _ = ip.term_of(args[0], node)
    b, _ = ip.term_of(args[1], node)
    ip.notes.append(('meshgrid', {'loc': ip.loc(node)}))
    return Seq([ip.fresh_array(P.lift1(lambda t: N.fn('mesh0', t), a)), ip.fresh_array(P.lift1(lambda t: N.fn('mesh1', t), b))])


CALLS = {
    'numpy.exp': _elementwise(lambda x: N.drop_inf(N.exp(x))), 'numpy.log': _elementwise(N.log), 'numpy.sqrt': _elementwise(N.sqrt),
    'numpy.sin': _elementwise(N.sin), 'numpy.cos': _elementwise(N.cos), 'numpy.abs': _elementwise(N.absval),
    'numpy.absolute': _elementwise(N.absval),
    'numpy.expm1': _elementwise(_expm1), 'numpy.log1p': _elementwise(_log1p),
    'numpy.square': _elementwise(lambda x: x * x),
    'numpy.add': _binary_ufunc('Add'), 'numpy.subtract': _binary_ufunc('Sub'), 'numpy.multiply': _binary_ufunc('Mult'),
    'numpy.divide': _binary_ufunc('Div'), 'numpy.true_divide': _binary_ufunc('Div'), 'numpy.shape': np_shape, 'numpy.isscalar': np_isscalar,
    'numpy.negative': _elementwise(lambda x: -x),
    'math.exp': _scalar_only(N.exp, 'math.exp'), 'math.sin': _scalar_only(N.sin, 'math.sin'),
    'math.cos': _scalar_only(N.cos, 'math.cos'), 'math.sqrt': _scalar_only(N.sqrt, 'math.sqrt'),
    'math.log': _scalar_only(N.log, 'math.log'),
    'numpy.where': np_where,
    'numpy.empty': np_empty, 'numpy.empty_like': np_empty, 'numpy.full': np_full(False), 'numpy.full_like': np_full(True),
    'numpy.broadcast': np_broadcast,
    'numpy.minimum': np_minmax('minimum'), 'numpy.maximum': np_minmax('maximum'),
    'numpy.fmin': np_minmax('minimum'), 'numpy.fmax': np_minmax('maximum'), 'numpy.clip': np_clip,
    'numpy.searchsorted': np_position('searchsorted'), 'numpy.argmax': np_position('argmax'),
    'numpy.argmin': np_position('argmin'), 'numpy.count_nonzero': np_position('count_nonzero'),
    'numpy.zeros_like': np_fill(0), 'numpy.ones_like': np_fill(1), 'numpy.zeros': np_fill(0),
    'numpy.ones': np_fill(1),
    'numpy.copy': np_copy, 'numpy.array': np_array, 'numpy.asarray': np_asarray, 'numpy.asanyarray': np_asarray,
    'numpy.asfarray': lambda ip, a, k, n: np_asarray(ip, a, dict(k, dtype=k.get('dtype', Lib('builtins.float'))), n),
    'numpy.arange': np_arange, 'numpy.linspace': np_linspace,
    'numpy.any': np_reduce('any'), 'numpy.all': np_reduce('all'), 'numpy.min': np_reduce('min'),
    'numpy.max': np_reduce('max'), 'numpy.sum': np_reduce('sum'), 'numpy.amax': np_reduce('max'), 'numpy.amin': np_reduce('min'),
    'numpy.mean': np_reduce('mean'), 'numpy.ptp': np_reduce('ptp'), 'numpy.median': np_reduce('median'),
    'numpy.allclose': np_allclose, 'numpy.array_equal': np_array_equal, 'numpy.loadtxt': np_loadtxt,
    'numpy.polyfit': np_polyfit, 'numpy.poly1d': np_poly1d,
    'numpy.einsum': np_einsum, 'numpy.linalg.inv': np_inv,
    'numpy.errstate': np_errstate,
    'numpy.trapz': np_trapz, 'numpy.trapezoid': np_trapz, 'scipy.integrate.simps': np_trapz,
    'scipy.integrate.simpson': np_trapz, 'scipy.integrate.trapezoid': np_trapz,
    'numpy.meshgrid': np_meshgrid,
    'scipy.fftpack.dst': sp_dst, 'scipy.fft.dst': sp_dst,
    'scipy.fftpack.next_fast_len': sp_next_fast_len, 'scipy.fft.next_fast_len': sp_next_fast_len,
    'scipy.optimize.root': sp_root,
    'copy.deepcopy': deepcopy, 'copy.copy': shallow_copy,
    'itertools.product': it_product, 'itertools.combinations': it_combinations(False),
    'itertools.combinations_with_replacement': it_combinations(True),
    'warnings.warn': w_warn,
    'builtins.len': b_len, 'builtins.range': b_range, 'builtins.abs': b_abs, 'builtins.sum': b_sum, 'builtins.setattr': b_setattr, 'builtins.vars': b_vars, 'builtins.slice': b_slice, 'numpy.round': np_round, 'numpy.around': np_round, 'numpy.round_': np_round, 'builtins.round': np_round, 'builtins.str': b_str, 'os.path.expanduser': os_path_identity, 'os.fspath': os_path_identity, 'os.path.expandvars': os_path_identity, 'builtins.repr': b_repr, 'builtins.type': b_type, 'numpy.isclose': np_isclose,
    'numpy.testing.assert_allclose': np_assert_allclose, 'numpy.ascontiguousarray': np_asarray, 'numpy.asfortranarray': np_copy, 'builtins.zip': b_zip, 'builtins.reversed': b_reversed, 'builtins.sorted': b_sorted, 'numpy.size': np_size, 'numpy.ndim': np_ndim, 'numpy.reciprocal': np_reciprocal, 'numpy.finfo': np_finfo, 'numpy.identity': np_identity, 'numpy.eye': np_identity,
    'operator.lt': op_fn('cmp', 'Lt'), 'operator.le': op_fn('cmp', 'LtE'), 'operator.gt': op_fn('cmp', 'Gt'), 'operator.ge': op_fn('cmp', 'GtE'),
    'operator.eq': op_fn('cmp', 'Eq'), 'operator.ne': op_fn('cmp', 'NotEq'), 'operator.add': op_fn('bin', 'Add'), 'operator.sub': op_fn('bin', 'Sub'),
    'operator.mul': op_fn('bin', 'Mult'), 'operator.truediv': op_fn('bin', 'Div'), 'builtins.max': b_minmax('max'), 'builtins.min': b_minmax('min'),
    'builtins.isinstance': b_isinstance, 'builtins.hasattr': b_hasattr, 'builtins.frozenset': b_frozenset, 'builtins.iter': b_iter, 'builtins.any': b_anyall('any'), 'builtins.all': b_anyall('all'),
    'builtins.dict.fromkeys': dict_fromkeys, 'builtins.dict': b_dict, 'builtins.id': b_id, 'builtins.set': b_set, 'builtins.getattr': b_getattr, 'builtins.enumerate': b_enumerate, 'builtins.list': b_list,
    'builtins.tuple': b_list,
    'builtins.int': b_int, 'builtins.float': b_float, 'builtins.print': b_noop,
}
for _e in ('ValueError', 'TypeError', 'KeyError', 'NotImplementedError', 'AssertionError', 'Exception',
           'DeprecationWarning', 'UserWarning', 'RuntimeWarning', 'FutureWarning', 'Warning', 'IndexError', 'AttributeError',
           'RuntimeError', 'ZeroDivisionError', 'ArithmeticError', 'LookupError', 'OverflowError'):
    CALLS['builtins.' + _e] = b_exc(_e)


def call(ip, name, args, kwargs, node):
    ov = ip.lib_overrides.get(name)
    if ov is not None:
        return ov(ip, args, kwargs, node)
    f = CALLS.get(name)
    if f is None:
        # power-like binary ufuncs
        if name == 'numpy.power':
            t = ip.arith('Pow', args[0], args[1], node)
            k = 'array' if any(getattr(a, 'kind', '') == 'array' for a in args) else 'scalar'
            return ip.make_result(t, k)
        if name in ('numpy.multiply', 'numpy.add', 'numpy.subtract', 'numpy.divide', 'numpy.true_divide'):
            op = {'multiply': 'Mult', 'add': 'Add', 'subtract': 'Sub', 'divide': 'Div', 'true_divide': 'Div'}[
                name.split('.')[1]]
            if 'out' in kwargs:
                raise Unsupported('ufunc with out=', node)
            return ip.binop(op, args[0], args[1], node)
        aliased = [a for a in list(args) + list(kwargs.values())
                   if isinstance(a, (Arr, View)) or (isinstance(a, Obj) and a.origin)]
        ip.event('unknown-call', name, node, mutable_args=len(aliased))
        raise Unsupported('library call %s is not in the semantics table' % name, node)
    return f(ip, args, kwargs, node)


# ---------------------------------------------------------------------------------------------
# attributes / methods of numeric values
# ---------------------------------------------------------------------------------------------
def num_attr(ip, o, name, node):
    hook = ip.num_methods.get(name)
    if hook is not None:
        return Native('num.' + name, hook, o)
    if name == 'shape':
        return Obj('shape', {'arr': o})
    if name == 'size':
        if isinstance(o, Num) and o.kind == 'scalar':
            return const_num(1)
        return np_size(ip, [o], {}, node)
    if name == 'item':
        def item(ip2, s_, a, k, n):
            if a or k:
                raise Unsupported('ndarray.item with an index', n)
            if isinstance(s_, Num) and s_.kind == 'scalar':
                return Num(s_.t, 'scalar')
            t_, _ = ip2.term_of(s_, n)
            # the single element of a one-element array (ValueError for any other size): a plain Python number
            return Num(P.lift1(lambda y: N.fn('item', y), t_), 'scalar')
        return Native('ndarray.item', item, o)
    if name == 'ndim':
        if isinstance(o, Num) and o.kind == 'scalar':
            return const_num(0)            # a number (or the 0-d array np.asarray makes of it) has no axes
        return shape_len(ip, Obj('shape', {'arr': o}), node)
    if name == 'reshape':
        return Native('ndarray.reshape', nd_reshape, o)
    if name == 'copy':
        return Native('ndarray.copy', lambda ip2, s, a, k, n: np_copy(ip2, [s], {}, n), o)
    if name == 'astype':
        return Native('ndarray.astype', nd_astype, o)
    if name == 'dtype':
        return Obj('dtype', {'arr': o})
    if name == 'T':
        raise Unsupported('transpose', node)
    if name in ('sum', 'min', 'max', 'any', 'all'):
        return Native('ndarray.' + name, lambda ip2, s, a, k, n: np_reduce(name)(ip2, [s], {}, n), o)
    raise Unsupported('attribute %s of an array/number' % name, node)


def nd_reshape(ip, selfv, args, kwargs, node):
    shp = args[0] if len(args) == 1 else Seq(args)
    if not isinstance(shp, Seq):
        raise Unsupported('reshape argument', node)
    dims = []
    for d in shp.items:
        t, _ = ip.term_of(d, node)
        dims.append(t)

    def isc(x, v):
        return x.is_const() and x.const_value() == v
    if len(dims) == 3 and isc(dims[0], -1) and isc(dims[1], 1) and isc(dims[2], 1):
        kindname, n = 'col3', None
    elif len(dims) == 3 and isc(dims[0], -1) and dims[1].equals(dims[2]):
        kindname, n = 'unflat', dims[1]
    elif len(dims) == 1 and isc(dims[0], -1):
        kindname, n = 'flat', None
    else:
        raise Unsupported('reshape to %s' % [N.show(d) for d in dims], node)
    ip.notes.append(('reshape', {'kind': kindname, 'loc': ip.loc(node)}))
    if isinstance(selfv, Arr):
        return View(selfv, ('reshape', kindname, n))     # same memory
    t, _ = ip.term_of(selfv, node)
    return Num(reshape_term(ip, t, kindname, n, node), 'array')


_INV = {'unflat': 'flat', 'flat': 'unflat', 'col3': 'uncol3', 'uncol3': 'col3'}


def nonspatial_split(ip, t):
    """True when every condition a piecewise term branches on involves only quantities that do not vary along the grid
    axis (scalars, length-1 stacks): such a case split commutes with re-indexing and with the transforms"""
    ps, fs = P.conds(t)
    for pair in ps:
        for key in pair:
            kinds = {ip.sym_kind.get(sn, 'scalar') for sn in N.nf_from_key(key).symbols()}
            if not kinds <= {'scalar', 'mat1'}:
                return False
    return True


def reshape_term(ip, t, kindname, n, node=None):
    if P.is_pw(t):
        if not nonspatial_split(ip, t):
            raise Unsupported('reshape of a piecewise term', node)
        return P.lift1(lambda leaf: reshape_term(ip, leaf, kindname, n, node), t)

    def leaf(a):
        if a[0] == 'fn' and a[1] in ('log', 'sin', 'cos', 'abs'):
            return None
        if ip.atom_is_array(a):
            if a[0] == 'fn' and a[1] == _INV[kindname]:
                k = a[2]
                return N.nf_from_key(k) if N.is_nfkey(k) else N.NF.atom(k)
            return N.fn(kindname, a)
        return None
    return N.transform(t, leaf)


def shape_getitem(ip, o, args, kwargs, node):
    arr = o.attrs['arr']
    i = args[0]
    if not is_const_num(i):
        raise Unsupported('symbolic shape index', node)
    i = int(num_value(i))
    dims = _dims_of(arr)
    if dims is not None and ip.has_cells(arr):
        if -len(dims) <= i < len(dims):
            return Num(dims[i], 'scalar')
        raise Raised('IndexError', 'tuple index out of range', ip.loc(node))
    t, _ = ip.term_of(arr, node)
    if P.is_pw(t):
        t = next(P.leaves(t))
    nd = ndim_of(ip, t)
    kinds = {ip.sym_kind.get(a[1]) for a in t.all_atoms() if a[0] == 'sym'} - {'scalar', None}
    if kinds == {'row'} and i in (0, -1):
        return Num(ip.declare('n_types', integer=True), 'scalar')       # one value per column of each matrix
    if kinds <= {'tensor', 'mat1'} and kinds:
        if i in (1, 2):
            return Num(ip.declare('n_types', integer=True), 'scalar')
        if i == 0 and 'tensor' in kinds:
            return Num(ip.declare('L', integer=True), 'scalar')      # a length-1 stack broadcasts against a full-length one
        if i == 0 and kinds == {'mat1'}:
            return const_num(1)
    if i == 0:
        return Num(length_of(ip, t), 'scalar')
    name = 'shape%d(%s)' % (i, P.show(t))
    N.declare_int(name)
    return Num(N.sym(name), 'scalar')


def seq_attr(ip, o, name, node):
    if name == 'append':
        def app(ip2, s, a, k, n):
            ip2.touch(s, 'w', n)
            s.items.append(a[0])
            return NONE
        return Native('list.append', app, o)
    if name in ('index', 'count'):
        def find(ip2, s, a, k, n):
            hits = []
            for pos, x in enumerate(s.items):
                e = x is a[0] or ip2.compare('Eq', a[0], x, n)
                if e is True or (isinstance(e, Const) and e.v is True):
                    hits.append(pos)
                elif not (isinstance(e, Const) and e.v is False):
                    raise Unsupported('list.%s with symbolic equality' % name, n)
            if name == 'count':
                return const_num(len(hits))
            if not hits:
                raise Raised('ValueError', '%r is not in list' % (getattr(a[0], 'v', a[0]),), ip2.loc(n))
            return const_num(hits[0])
        return Native('list.' + name, find, o)
    if name in ('add', 'discard', 'remove', 'update') and o.kind in ('set',):
        def same(ip2, x, y, n):
            if x is y:
                return True
            try:
                return _dict_key(x, n) == _dict_key(y, n)
            except Unsupported:
                e = ip2.compare('Eq', x, y, n)
                if isinstance(e, Const):
                    return bool(e.v)
                raise Unsupported('set membership with symbolic equality', n)

        def setop(ip2, s, a, k, n):
            ip2.touch(s, 'w', n)
            items = a[0].items if name == 'update' and isinstance(a[0], Seq) else [a[0]]
            for it in items:
                present = [w for w in s.items if same(ip2, it, w, n)]
                if name in ('add', 'update'):
                    if not present:
                        s.items.append(it)
                else:
                    if present:
                        s.items.remove(present[0])
                    elif name == 'remove':
                        raise Raised('KeyError', repr(getattr(it, 'v', it)), ip2.loc(n))
            return NONE
        return Native('set.' + name, setop, o)
    if name == 'copy':
        return Native('list.copy', lambda ip2, s, a, k, n: Seq(list(s.items), s.kind), o)
    if name == 'extend':
        def ext(ip2, s, a, k, n):
            if not isinstance(a[0], Seq):
                raise Unsupported('list.extend with %r' % (a[0],), n)
            s.items.extend(a[0].items)
            return NONE
        return Native('list.extend', ext, o)
    raise Unsupported('attribute %s of a sequence' % name, node)


def types_getitem(ip, types, idx, node):
    if idx[0] == 'slice':
        _, lo, hi, st = idx
        if lo is None and hi is None and st is None:
            return types
        # any other slice is a sub-list: code iterating it does not visit every type
        return Types(types.name, partial='a slice of the type list (line %d)' % getattr(node, 'lineno', 0))
    raise Unsupported('indexing the type list', node)


def types_attr(ip, types, name, node):
    if name == 'index':
        def index(ip2, s, a, k, n):
            if len(a) == 1 and isinstance(a[0], Label):
                return Index(a[0].name)
            raise Unsupported('types.index of %r' % (a,), n)
        return Native('list.index', index, types)
    raise Unsupported('attribute %s of the type list' % name, node)


def dictcomp(ip, node, env):
    if len(node.generators) != 1:
        raise Unsupported('nested dict comprehension', node)
    g = node.generators[0]
    it = ip.eval(g.iter, env)
    if isinstance(it, LabelIter) and it.desc == 'enumerate(types)':
        return Obj('typemap', {})
    if isinstance(it, Types):
        return Obj('labeldict', {})
    if isinstance(it, Obj) and it.cls == 'range':
        conc = _concrete_items(ip, it, node)
        if conc is None:
            raise Unsupported('dict comprehension over a symbolic range', node)
        it = Seq(conc, 'list')
    if isinstance(it, Seq):
        # concrete comprehension: a real (ordered) dict with constant keys
        from .interp import Env
        items = {}
        for x in it.items:
            e2 = Env(env)
            ip.assign(g.target, x, e2, node)
            if not all(ip.truth(ip.eval(c, e2), node) for c in g.ifs):
                continue
            k = ip.eval(node.key, e2)
            if isinstance(k, Num) and is_const_num(k):
                k = Const(num_value(k))
            if not isinstance(k, Const):
                raise Unsupported('dict comprehension with a non-constant key', node)
            items[k.v] = ip.eval(node.value, e2)
        return Obj('dict', {'items': items})
    raise Unsupported('dict comprehension over %r' % (it,), node)


def listcomp(ip, node, env):
    from .interp import Env
    out = []

    def level(i, env_):
        if i == len(node.generators):
            out.append(ip.eval(node.elt, env_))
            return
        g = node.generators[i]
        if getattr(g, 'is_async', 0):
            raise Unsupported('async comprehension', node)
        it = ip.eval(g.iter, env_)
        if isinstance(it, Obj):
            m = ip.find_method(it, '__iter__')
            if m is not None:
                it = ip.call(m, [], {}, node)
        if isinstance(it, Obj) and it.cls == 'dict':
            it = Seq([_key_value(it, k) for k in it.attrs['items']], 'list')
        if isinstance(it, Types):
            it = types_iter(ip, it)
        if not isinstance(it, Seq):
            raise Unsupported('comprehension over %r' % (it,), node)
        for x in take_items(it):
            e2 = Env(env_)
            ip.assign(g.target, x, e2, node)
            if all(ip.truth(ip.eval(c, e2), node) for c in g.ifs):
                level(i + 1, e2)
    level(0, env)
    return Seq(out, 'list')


def setcomp(ip, node, env):
    return b_set(ip, [listcomp(ip, node, env)], {}, node)


def _dict_key(k, node):
    """hashable stand-in for a dictionary key.  A symbolic number is keyed by its canonical term: two keys are the same
    entry iff their terms are identical (generic position: distinct terms are assumed to be distinct numbers -- a cache
    keyed on f(x) is therefore never credited with an accidental collision f(x) == f(y))"""
    if isinstance(k, Num) and is_const_num(k):
        return num_value(k)
    if isinstance(k, Num) and k.kind == 'scalar' and not P.is_pw(k.t):
        return ('term', N.reg(k.t))
    if isinstance(k, Const):
        return k.v
    if isinstance(k, Label):
        return ('label', k.name)
    if isinstance(k, Lib):
        return ('lib', k.name)
    if isinstance(k, ClassRef):
        return ('class', k.cls.qualname)
    if isinstance(k, Seq) and k.kind != 'list':
        return tuple(_dict_key(x, node) for x in k.items)
    raise Unsupported('dictionary key %r is not hashable in the model' % (k,), node)


def _key_value(o, hk):
    kv = o.attrs.get('keyvals', {})
    return kv[hk] if hk in kv else Const(hk)


def _by_label(ip, o, key, node):
    """a dictionary filled as `for t in types: d[t] = f(t)` (one symbolic iteration that stands for every type) is the map
    t -> f(t): reading it under another type label gives f of that label"""
    bl = o.attrs.get('by_label')
    if not bl or not isinstance(key, Label) or len(bl) != 1:
        return None
    (name, value), = bl.items()
    cache = o.attrs.setdefault('by_label_cache', {})
    if key.name in cache:
        return cache[key.name]
    from .interp import relabel
    m = {name: key.name}
    if isinstance(value, Num):
        r = Num(P.lift1(lambda x: relabel(x, m, ip.symmetric), value.t), value.kind)
    elif isinstance(value, (Arr, View)):
        t, _ = ip.term_of(value, node)
        r = ip.fresh_array(P.lift1(lambda x: relabel(x, m, ip.symmetric), t))
    else:
        raise Unsupported('per-type table whose entries are %r' % (value,), node)
    cache[key.name] = r
    return r


def dict_getitem(ip, o, args, kwargs, node):
    ip.touch(o, 'r', node)
    k = _dict_key(args[0], node)
    if k in o.attrs['items']:
        return o.attrs['items'][k]
    r = _by_label(ip, o, args[0], node)
    if r is not None:
        return r
    raise Raised('KeyError', repr(k), ip.loc(node))


def dict_setitem(ip, o, args, kwargs, node):
    ip.touch(o, 'w', node)
    hk = _dict_key(args[0], node)
    o.attrs['items'][hk] = args[1]
    if isinstance(args[0], Label):
        # stored under the label of an unfiltered symbolic loop over ALL types: the entry stands for every type
        full = [c for c in ip.loopctx if args[0].name in c.get('labels', ()) and not c.get('partial') and not c.get('filters')
                and c.get('kind') in ('types', 'enumerate(types)')]
        if full and len(ip.loopctx) == 1:
            o.attrs['by_label'] = {args[0].name: args[1]}
            o.attrs.pop('by_label_cache', None)
        else:
            o.attrs.pop('by_label', None)
    if not isinstance(args[0], Const):
        o.attrs.setdefault('keyvals', {})[hk] = args[0]
    if o.origin is not None:
        ip.event('write', o.origin, node, via='dict store')
    return NONE


def dict_get(ip, o, args, kwargs, node):
    ip.touch(o, 'r', node)
    k = _dict_key(args[0], node)
    return o.attrs['items'].get(k, args[1] if len(args) > 1 else NONE)


def dict_values(ip, o, args, kwargs, node):
    return Seq(list(o.attrs['items'].values()), 'list')


def dict_keys(ip, o, args, kwargs, node):
    return Seq([_key_value(o, k) for k in o.attrs['items']], 'list')


def dict_items(ip, o, args, kwargs, node):
    return Seq([Seq([_key_value(o, k), v]) for k, v in o.attrs['items'].items()], 'list')


def dict_update(ip, o, args, kwargs, node):
    src = args[0] if args else None
    if src is not None:
        if isinstance(src, Obj) and src.cls == 'dict':
            for k, v in src.attrs['items'].items():
                o.attrs['items'][k] = v
                if k in src.attrs.get('keyvals', {}):
                    o.attrs.setdefault('keyvals', {})[k] = src.attrs['keyvals'][k]
        elif isinstance(src, Seq):
            for it in src.items:
                if not (isinstance(it, Seq) and len(it.items) == 2):
                    raise Unsupported('dict.update with %r' % (it,), node)
                dict_setitem(ip, o, [it.items[0], it.items[1]], {}, node)
        else:
            raise Unsupported('dict.update with %r' % (src,), node)
    for k, v in kwargs.items():
        o.attrs['items'][k] = v
    if o.origin is not None:
        ip.event('write', o.origin, node, via='dict update')
    return NONE


DICT_METHODS = {'update': dict_update, 'copy': dict_copy, '__getitem__': dict_getitem, '__setitem__': dict_setitem, 'get': dict_get, 'values': dict_values,
                'keys': dict_keys, 'items': dict_items, '__iter__': dict_keys}
