"""Builders for the abstract initial states ("worlds") the rules analyse functions in."""
from . import nf as N
from . import pw as P
from .interp import (Interp, Num, Arr, View, Const, Obj, Seq, Types, Label, Index, Unknown, NONE, TRUE, FALSE,
                     Unsupported)
from . import natives as NAT

SPACE = {'Real': Const(('Space', 'Real')), 'Fourier': Const(('Space', 'Fourier')),
         'NonSpatial': Const(('Space', 'NonSpatial'))}


def matrixarray(ip, name, space, origin=None, kind='tensor', symmetric=True, term=None, types=None):
    """abstract MatrixArray whose .data is a heap cell holding the tensor symbol `name`"""
    cls = ip.prog.cls('pyPRISM.core.MatrixArray::MatrixArray')
    ip.declare(name, kind, symmetric=symmetric)
    data = Arr(term if term is not None else N.sym(name), (origin + '.data') if origin else None, ip)
    if origin is None:
        data.fresh = True
    n = ip.declare('n_types', integer=True)
    o = Obj(cls, {'data': data,
                  'space': SPACE[space] if isinstance(space, str) else space,
                  'types': types if types is not None else Types(),
                  'rank': Num(n),
                  'length': Num(ip.declare('L', integer=True) if kind == 'tensor' else N.NF.const(1)),
                  'typeMap': Obj('typemap', {})}, origin)
    return o


def attr_term(ip, v):
    """term of an attribute value for comparison, or a printable marker"""
    if isinstance(v, (Num, Arr, View)):
        t, _ = ip.term_of(v)
        return t
    return None


def fresh_domain(ip, length, dr=None, dk=None):
    cls = ip.prog.cls('pyPRISM.core.Domain::Domain')
    kw = {'length': length}
    if dr is not None:
        kw['dr'] = dr
    if dk is not None:
        kw['dk'] = dk
    return ip.construct(cls, [], kw)


def symbolic_domain(ip, origin='domain'):
    """a Domain whose grid arrays are opaque symbols (for the higher layers)"""
    cls = ip.prog.cls('pyPRISM.core.Domain::Domain')
    ip.declare('r', 'curve')
    ip.declare('k', 'curve')
    ip.declare('dr')
    ip.declare('dk')
    L = ip.declare('L', integer=True)
    r = Arr(N.sym('r'), origin + '.r', ip)
    k = Arr(N.sym('k'), origin + '.k', ip)
    long_r = View(r, ('reshape', 'col3', None))
    o = Obj(cls, {'_dr': Num(N.sym('dr')), '_dk': Num(N.sym('dk')), '_length': Num(L), 'r': r, 'k': k,
                  'long_r': long_r,
                  'DST_II_coeffs': Arr(2 * N.PI * N.sym('r') * N.sym('dr'), origin + '.DST_II_coeffs', ip),
                  'DST_III_coeffs': Arr(N.sym('k') * N.sym('dk') / (4 * N.PI * N.PI), origin + '.DST_III_coeffs', ip)},
            origin)
    return o
