"""Builders for the abstract initial states ("worlds") the rules analyse functions in."""
from . import nf as N
from . import pw as P
from .interp import (Interp, Num, Arr, View, Const, Obj, Seq, Types, Label, Index, Unknown, NONE, TRUE, FALSE,
                     Unsupported)
from . import natives as NAT

SPACE = {'Real': Const(('Space', 'Real')), 'Fourier': Const(('Space', 'Fourier')),
         'NonSpatial': Const(('Space', 'NonSpatial'))}


def matrixarray(ip, name, space, origin=None, kind='tensor', symmetric=True, term=None, types=None):
    """abstract MatrixArray whose .data is a heap cell holding the tensor symbol `name`"""
    cls = ip.prog.cls('pyPRISM.core.MatrixArray::MatrixArray')
    ip.declare(name, kind, symmetric=symmetric)
    data = Arr(term if term is not None else N.sym(name), (origin + '.data') if origin else None, ip)
    if origin is None:
        data.fresh = True
    n = ip.declare('n_types', integer=True)
    o = Obj(cls, {'data': data,
                  'space': SPACE[space] if isinstance(space, str) else space,
                  'types': types if types is not None else Types(),
                  'rank': Num(n),
                  'length': Num(ip.declare('L', integer=True) if kind == 'tensor' else N.NF.const(1)),
                  'typeMap': Obj('typemap', {})}, origin)
    return o


def attr_term(ip, v):
    """term of an attribute value for comparison, or a printable marker"""
    if isinstance(v, (Num, Arr, View)):
        t, _ = ip.term_of(v)
        return t
    return None


def fresh_domain(ip, length, dr=None, dk=None):
    cls = ip.prog.cls('pyPRISM.core.Domain::Domain')
    kw = {'length': length}
    if dr is not None:
        kw['dr'] = dr
    if dk is not None:
        kw['dk'] = dk
    return ip.construct(cls, [], kw)


def symbolic_domain(ip, origin='domain'):
    """a Domain whose grid arrays are opaque symbols (for the higher layers)"""
    cls = ip.prog.cls('pyPRISM.core.Domain::Domain')
    ip.declare('r', 'curve')
    ip.declare('k', 'curve')
    ip.declare('dr')
    ip.declare('dk')
    L = ip.declare('L', integer=True)
    r = Arr(N.sym('r'), origin + '.r', ip)
    k = Arr(N.sym('k'), origin + '.k', ip)
    long_r = View(r, ('reshape', 'col3', None))
    o = Obj(cls, {'_dr': Num(N.sym('dr')), '_dk': Num(N.sym('dk')), '_length': Num(L), 'r': r, 'k': k,
                  'long_r': long_r,
                  'DST_II_coeffs': Arr(2 * N.PI * N.sym('r') * N.sym('dr'), origin + '.DST_II_coeffs', ip),
                  'DST_III_coeffs': Arr(N.sym('k') * N.sym('dk') / (4 * N.PI * N.PI), origin + '.DST_III_coeffs', ip)},
            origin)
    return o


# ---------------------------------------------------------------------------------------------
# the PRISM object as seen by post-processing code
# ---------------------------------------------------------------------------------------------
SPATIAL = (('totalCorr', 'HF'), ('directCorr', 'CF'), ('omega', 'OmF'))


def _vt(ip, cls, types, name, fname, origin):
    o = NAT.new_valuetable(ip, cls, types, name, elem=lambda ip2, t, n: Num(N.NF.atom(('fn', fname, ip2.canon_label(t)))))
    o.origin = origin
    return o


def system_world(ip, origin='PRISM.sys', table_elems=None):
    prog = ip.prog
    types = Types()
    vtc = prog.cls('pyPRISM.core.ValueTable::ValueTable')
    ptc = prog.cls('pyPRISM.core.PairTable::PairTable')
    dom = symbolic_domain(ip, origin + '.domain')
    dens = Obj(prog.cls('pyPRISM.core.Density::Density'), {
        'types': types,
        'density': _vt(ip, vtc, types, 'density', 'rho', origin + '.density.density'),
        'total': Num(ip.declare('rho_total')),
        'pair': matrixarray(ip, 'rho_pair', 'NonSpatial', origin + '.density.pair', kind='mat1', types=types),
        'site': matrixarray(ip, 'rho_site', 'NonSpatial', origin + '.density.site', kind='mat1', types=types),
    }, origin + '.density')
    sig = NAT.new_pairtable(ip, ptc, types, 'sigma', True,
                            elem=lambda ip2, a, b, n: Num(N.NF.atom(('fn', 'sig') + tuple(sorted((ip2.canon_label(a), ip2.canon_label(b)))))))
    sig.origin = origin + '.diameter.sigma'
    diam = Obj(prog.cls('pyPRISM.core.Diameter::Diameter'), {
        'types': types,
        'diameter': _vt(ip, vtc, types, 'diameter', 'dia', origin + '.diameter.diameter'),
        'volume': _vt(ip, vtc, types, 'volume', 'vol', origin + '.diameter.volume'),
        'sigma': sig,
    }, origin + '.diameter')
    attrs = {'types': types, 'rank': Num(ip.declare('n_types', integer=True)), 'kT': Num(ip.declare('kT')),
             'domain': dom, 'density': dens, 'diameter': diam}
    table_elems = table_elems or {}
    for nm in ('potential', 'closure', 'omega'):
        t = NAT.new_pairtable(ip, ptc, types, nm, True, elem=table_elems.get(nm))
        t.origin = origin + '.' + nm
        attrs[nm] = t
    ip.nonneg.add('n_types')
    syscls = prog.cls('pyPRISM.core.System::System')
    o = Obj(syscls, attrs, origin)
    # Attributes the class derives itself are not guessed: System.__init__ is interpreted with the construction-time
    # temperature kT0 and every attribute it creates beyond the modelled ones is taken over with its own term.
    # Every documented attribute is plainly assignable, and temperature sweeps assign `sys.kT` after construction:
    # the re-assignment is performed through the class's own attribute protocol (a property setter, if the class
    # grows one, runs).  State that is derived from kT once and then read by PRISM.__init__ is therefore visible as a
    # term in kT0 instead of kT.
    from .interp import Raised as _Raised
    ev0 = len(ip.events)
    try:
        kT0 = Num(ip.declare('kT0'))
        o0 = ip.construct(syscls, [types], {'kT': kT0})
        for k_, v_ in o0.attrs.items():
            if k_ not in attrs:
                attrs[k_] = v_
        if 'kT' in o0.attrs:
            ip.set_attr(o, 'kT', Num(N.sym('kT')), None)
        else:       # kT kept behind a property: install the construction-time state, then assign like a user
            for k_, v_ in o0.attrs.items():
                if k_ not in ('types', 'rank', 'domain', 'density', 'diameter', 'potential', 'closure', 'omega'):
                    attrs[k_] = v_
            attrs.pop('kT', None)
            ip.set_attr(o, 'kT', Num(N.sym('kT')), None)
    except (Unsupported, _Raised):
        pass
    del ip.events[ev0:]
    return o


def prism_world(ip, spaces=None, table_elems=None):
    """abstract solved PRISM object.  spaces: {'totalCorr'|'directCorr'|'omega': 'Real'|'Fourier'};
    the *content* of each spatial array is one symbol (its Fourier representation XF): an array that is
    currently in real space holds toR(XF)."""
    NAT.install_containers(ip)
    spaces = dict(spaces or {})
    prog = ip.prog
    sysobj = system_world(ip, 'PRISM.sys', table_elems)
    types = sysobj.attrs['types']
    attrs = {'sys': sysobj}
    for nm, sym in SPATIAL:
        sp = spaces.get(nm, 'Fourier')
        ip.declare(sym, 'tensor', symmetric=True)
        term = N.sym(sym) if sp == 'Fourier' else N.fn('toR', N.sym(sym))
        attrs[nm] = matrixarray(ip, sym, sp, 'PRISM.' + nm, term=term, types=types)
    for nm, sym, sp in (('GammaIn', 'Gin', 'Real'), ('GammaOut', 'Gout', 'Real'), ('OC', 'OC0', 'Fourier'),
                        ('IOC', 'IOC0', 'Fourier')):
        attrs[nm] = matrixarray(ip, sym, sp, 'PRISM.' + nm, types=types, symmetric=False)
    icls = prog.cls('pyPRISM.core.IdentityMatrixArray::IdentityMatrixArray')
    iden = matrixarray(ip, 'Iden', 'Fourier', 'PRISM.I', types=types)
    iden.cls = icls
    attrs['I'] = iden
    ip.declare('x_last', 'curve')
    ip.declare('y_last', 'curve')
    attrs['x'] = Arr(N.sym('x_last'), 'PRISM.x', ip)
    attrs['y'] = Arr(N.sym('y_last'), 'PRISM.y', ip)
    attrs['minimize_result'] = Obj('OptimizeResult', {'x': Arr(N.sym('x_last'), 'PRISM.minimize_result.x', ip),
                                                      'success': TRUE}, 'PRISM.minimize_result')
    return Obj(prog.cls('pyPRISM.core.PRISM::PRISM'), attrs, 'PRISM')
