"""Semantic rules R15.f / R15.s / R15.k -- Density and Diameter decided by abstract execution of the *real* classes on concrete labels.

The property quantifies over type lists of 1-4 types and over assignment histories (single types or lists, any order,
re-assignment) of bounded depth.  That is a finite set once the *values* are kept symbolic: the classes treat labels only
through dictionary look-ups, equality tests and positions in the type list, and never inspect the assigned numbers except
for `is None`.  The rule enumerates the histories below, executes Density / Diameter (with the real ValueTable,
PairTable and MatrixArray underneath) in the abstract interpreter with one fresh symbol per assignment, and compares
every observable with the value the property states, as canonical terms:

    density[t], total, pair[a,b] (both orders), site[a,b] (both orders), check()
    diameter[t], volume[t], sigma[a,b] (both orders), check()

Label sets: 'A'.. (strings), and a list of integers (any hashable is a legal site type: the tables are dictionaries).
Nothing is matched against the spelling of the setters, so a refactoring that keeps the behaviour keeps the verdict.
"""
import itertools
from .. import nf as N
from .. import pw as P
from ..interp import Interp, Const, Num, Arr, Seq, Obj, Unsupported, Raised, NeedDecision, NONE, explore
from ..model import AnalysisError

DENS = 'pyPRISM.core.Density::Density'
DIAM = 'pyPRISM.core.Diameter::Diameter'

STR_LABELS = ('A', 'B', 'C', 'D')
INT_LABELS = (11, 22, 33)


def keys_for(labels):
    """assignment keys: every single type, every ordered list of two types, the whole list and its reverse"""
    singles = [(l,) for l in labels]
    lists = [tuple(p) for p in itertools.permutations(labels, 2)]
    if len(labels) > 2:
        lists += [tuple(labels), tuple(reversed(labels))]
    return singles, lists


def histories(labels, tier):
    """bounded-depth assignment histories (each a tuple of keys)"""
    singles, lists = keys_for(labels)
    allk = singles + lists
    out = [()]
    out += [(k,) for k in allk]
    n = len(labels)
    if not isinstance(labels[0], str):
        # non-string labels: what matters is that nothing depends on the labels being strings; the history space was
        # covered with the string labels
        out += list(itertools.product(singles, repeat=2)) + [(l, a) for l in lists[:2] for a in singles]
        return out
    if n <= 3:
        out += list(itertools.product(allk, repeat=2))
    else:
        out += list(itertools.product(singles, allk)) + list(itertools.product(lists, singles))
    if n <= 3:
        out += list(itertools.product(singles, repeat=3))
        # a list assignment in the middle of / after single assignments, and re-assignment of the first type at the end
        out += [(a, l, b) for a in singles for l in lists for b in singles]
        # every type assigned one by one, then a list key re-assigns several of them at once
        out += [tuple(singles) + (l,) for l in lists]
        out += [(a, b, l) for a in singles for b in singles if a != b for l in lists[:4]]
    if n <= 2 or (n == 3 and tier == 'thorough'):
        out += list(itertools.product(singles, repeat=4))
    if n == 4:
        # every order in which the four types can be assigned, followed by a re-assignment of each type
        for perm in itertools.permutations(singles):
            out.append(tuple(perm))
        for perm in itertools.permutations(singles, 3):
            for again in singles:
                out.append(tuple(perm) + (again,))
    if n >= 2 and isinstance(labels[0], str):
        g = ('<generator>',) + tuple(labels[:2])
        gr = ('<generator>',) + tuple(reversed(labels))
        out += [(g,), (gr,), (singles[0], g), (g, singles[-1]), (gr, g)]
    seen = set()
    uniq = []
    for h in out:
        if h not in seen:
            seen.add(h)
            uniq.append(h)
    return uniq


def label(x):
    """a site-type label as the caller holds it: an object equal to -- but not the same object as -- the one in the type
    list (names built at run time, read from a file, integers above the small-int cache)"""
    c = Const(x)
    c.boxed = True
    return c


def key_value(k):
    if len(k) == 1:
        return label(k[0])
    if k[0] == '<generator>':
        # a group of types handed over as a one-shot iterable (generator expression, filter(), map(), reversed())
        return Seq([label(x) for x in k[1:]], 'generator')
    return Seq([label(x) for x in k], 'list')


_PRESET = []


def _with_preset(after, prog, labels, h, preset):
    _PRESET[:] = [list(preset)]
    try:
        r = after(prog, labels, h)
    finally:
        ip = _PRESET.pop() if _PRESET and not isinstance(_PRESET[-1], list) else None
        _PRESET[:] = []
    return ip, r


class Run(object):
    def __init__(self, prog, qual, labels):
        self.ip = Interp(prog)
        if _PRESET and isinstance(_PRESET[0], list):
            self.ip.preset = list(_PRESET[0])
            _PRESET.append(self.ip)
        self.cls = prog.cls(qual)
        self.labels = labels
        self.o = self.ip.construct(self.cls, [Seq([label(l) for l in labels], 'list')], {})
        self.o.origin = 'self'
        self.value = {}          # label -> symbol of the last assignment that covered it
        self.n = 0

    def assign(self, key):
        self.n += 1
        name = 'v%d' % self.n
        sym = self.ip.declare(name)
        m = self.ip.find_method(self.o, '__setitem__')
        if m is None:
            raise AnalysisError('%s.__setitem__ vanished' % self.cls.name)
        self.ip.call(m, [key_value(key), Num(sym)], {})
        for l in key:
            if l != '<generator>':
                self.value[l] = sym

    # -- observation ------------------------------------------------------------------------------------------------
    def attr(self, name):
        """an attribute of the object under test as a client reads it (plain attribute, property, class default)"""
        try:
            return self.ip.get_attr(self.o, name, None)
        except Raised:
            return NONE

    def table_cells(self, attr):
        t = self.attr(attr)
        if not isinstance(t, Obj):
            raise Unsupported('attribute %s is %r' % (attr, t))
        try:
            v = self.ip.get_attr(t, 'values', None)
        except Raised:
            v = None
        if not (isinstance(v, Obj) and v.cls == 'dict'):
            raise Unsupported('%s does not keep its entries in a dict named values' % attr)
        out = {}
        for a, row in v.attrs['items'].items():
            if isinstance(row, Obj) and row.cls == 'dict':
                for b, x in row.attrs['items'].items():
                    out[(a, b)] = x
            else:
                out[a] = row
        return out

    def matrix_cell(self, attr, a, b):
        ma = self.attr(attr)
        if not (isinstance(ma, Obj) and ma.isa('MatrixArray')):
            raise Unsupported('attribute %s is %r, not a MatrixArray' % (attr, ma))
        data = ma.attrs.get('data')
        if not isinstance(data, Arr):
            raise Unsupported('%s.data is not a heap array' % attr)
        i, j = self.labels.index(a), self.labels.index(b)
        return self.ip.read_cell(data, i, j)

    def term(self, x):
        if isinstance(x, Const) and x.v is None:
            return None
        if isinstance(x, Seq) and len(x.items) == 1:
            x = x.items[0]
        t, _ = self.ip.term_of(x)
        return t

    def check_raises(self):
        m = self.ip.find_method(self.o, 'check')
        if m is None:
            raise AnalysisError('%s.check vanished' % self.cls.name)
        try:
            self.ip.call(m, [], {})
            return None
        except Raised as e:
            return e.exc


def same(t, want):
    return t is not None and not P.compare(t, want)[0]


def show(t):
    return 'None' if t is None else P.show(t)


def hist_name(h):
    def kn(k):
        if k[0] == '<generator>':
            return '(t for t in %s)' % (list(k[1:]),)
        return ','.join(map(repr, k)) if len(k) > 1 else repr(k[0])
    return ' ; '.join('[%s]=v%d' % (kn(k), i + 1) for i, k in enumerate(h)) or '(nothing assigned)'


def _density_after(prog, labels, h):
    bad = []
    r = Run(prog, DENS, labels)
    for k in h:
        r.assign(k)
    val = r.value
    # per-type table and total
    cells = r.table_cells('density')
    for l in labels:
        got = r.term(cells.get(l, NONE))
        want = val.get(l)
        if (want is None) != (got is None) or (want is not None and not same(got, want)):
            bad.append('density[%r] is %s, expected %s' % (l, show(got), show(want)))
    tot = r.term(r.attr('total'))
    want_tot = N.NF.const(0)
    for l in labels:
        if l in val:
            want_tot = want_tot + val[l]
    if not same(tot, want_tot):
        bad.append('total is %s, expected the sum of the assigned densities %s' % (show(tot), show(want_tot)))
    for a in labels:
        for b in labels:
            if a in val and b in val:
                wp = val[a] * val[b]
                ws = val[a] if a == b else val[a] + val[b]
                gp, gs = r.matrix_cell('pair', a, b), r.matrix_cell('site', a, b)
                if not same(gp, wp):
                    bad.append('pair[%r,%r] is %s, expected %s' % (a, b, show(gp), show(wp)))
                if not same(gs, ws):
                    bad.append('site[%r,%r] is %s, expected %s' % (a, b, show(gs), show(ws)))
    exc = r.check_raises()
    complete = all(l in val for l in labels)
    if complete and exc is not None:
        bad.append('check() raises %s although every type is assigned' % exc)
    if not complete and exc != 'ValueError':
        bad.append('check() %s while %r is unassigned (ValueError required)' % (
            'raises %s' % exc if exc else 'returns normally', [l for l in labels if l not in val][0]))
    return bad


def _diameter_after(prog, labels, h):
    bad = []
    r = Run(prog, DIAM, labels)
    for k in h:
        r.assign(k)
    val = r.value
    dc = r.table_cells('diameter')
    vc = r.table_cells('volume')
    sc = r.table_cells('sigma')
    for l in labels:
        got = r.term(dc.get(l, NONE))
        want = val.get(l)
        if (want is None) != (got is None) or (want is not None and not same(got, want)):
            bad.append('diameter[%r] is %s, expected %s' % (l, show(got), show(want)))
        if want is not None:
            gv = r.term(vc.get(l, NONE))
            wv = N.PI * want ** 3 / 6
            if not same(gv, wv):
                bad.append('volume[%r] is %s, expected %s' % (l, show(gv), show(wv)))
    for a in labels:
        for b in labels:
            if a in val and b in val:
                gs = r.term(sc.get((a, b), NONE))
                ws = (val[a] + val[b]) / 2
                if not same(gs, ws):
                    bad.append('sigma[%r,%r] is %s, expected %s' % (a, b, show(gs), show(ws)))
    # the documented read interface agrees with the tables
    g = r.ip.find_method(r.o, '__getitem__')
    if g is not None and len(labels) >= 2 and all(l in val for l in labels[:2]):
        a, b = labels[0], labels[1]
        got = r.term(r.ip.call(g, [Seq([Const(a), Const(b)])], {}))
        if not same(got, (val[a] + val[b]) / 2):
            bad.append('diameter[%r,%r] reads %s, expected %s' % (a, b, show(got), show((val[a] + val[b]) / 2)))
    exc = r.check_raises()
    complete = all(l in val for l in labels)
    if complete and exc is not None:
        bad.append('check() raises %s although every type is assigned' % exc)
    if not complete and exc != 'ValueError':
        bad.append('check() %s while %r is unassigned (ValueError required)' % (
            'raises %s' % exc if exc else 'returns normally', [l for l in labels if l not in val][0]))
    return bad


def _label_sets():
    return [STR_LABELS[:n] for n in (1, 2, 3, 4)] + [INT_LABELS]


def _rule(ctx, rule, qual, after, what):
    cls = ctx.prog.cls(qual)
    m = cls.find_method('__setitem__')
    construct = qual + '::histories'
    total = 0
    any_bad = False
    for labels in _label_sets():
        hs = histories(labels, ctx.tier)
        bad, und = [], []
        for h in hs:
            try:
                try:
                    b = after(ctx.prog, labels, h)
                except NeedDecision:
                    # a data-dependent branch (np.isclose(new, old) ...): every way it can go must give the stated values
                    b = []
                    for d_, ip_, r_ in explore(lambda preset: (_with_preset(after, ctx.prog, labels, h, preset)), keep_raised=True):
                        if ip_ is None:
                            b.append('raises %s' % r_.exc)
                        else:
                            where = ' (when %s)' % ', '.join('%s is %s' % (c.show(), v) for c, v, _ in d_) if d_ else ''
                            b += [x + where for x in r_]
            except (Unsupported, NeedDecision) as e:
                und.append('after %s: abstract execution of the real class not possible: %s' % (hist_name(h), e))
                if len(und) > 2:
                    break
                continue
            except Raised as e:
                b = ['a valid assignment raises %s: %s (at %s)' % (e.exc, e.msg, e.loc)]
            total += 1
            if b:
                bad.append('types %s, after %s: %s' % (list(labels), hist_name(h), '; '.join(b[:3])))
                if len(bad) >= 2:
                    break
        key = 'types=%s' % (','.join(map(str, labels)))
        if bad:
            any_bad = True
            ctx.violation(rule, construct, key, bad[0] + ((' || ' + bad[1]) if len(bad) > 1 else ''), m.loc())
        elif und:
            ctx.undecided(rule, construct, '%s: %s' % (key, und[0]), m.loc())
        else:
            ctx.holds(rule, construct, '%s: %s hold after each of %d assignment histories (values symbolic)' % (key, what, len(hs)),
                      m.loc(), key=key, sample={'types': list(labels), 'histories': len(hs), 'example': hist_name(hs[-1])})
    if not any_bad:       # a violation stops the enumeration of that label set early
        ctx.floor(rule, total, 300, 'assignment histories executed')


def rule_density_histories(ctx, rule='R15.f'):
    """Density: every observable equals the stated function of the last assigned values after every bounded history"""
    return _rule(ctx, rule, DENS, _density_after,
                 'density, total, pair (both orders), site (both orders) and check()')


def rule_diameter_histories(ctx, rule='R15.s'):
    """Diameter: likewise (diameter, volume, sigma both orders, the two-key read, check())"""
    return _rule(ctx, rule, DIAM, _diameter_after,
                 'diameter, volume, sigma (both orders), the pair read and check()')


def rule_total_no_stale_operand(ctx, rule='R15.c'):
    """floating-point half of "nothing derived is stale after a re-assignment": the operations that produce `total` after a
    type was re-assigned do not involve the value that was overwritten.  An incremental update `total += new - old` is the sum
    of the current densities only in exact arithmetic; in floating point the overwritten value stays in the result as a
    rounding residue of its own size (1e27 replaced by 0.8 leaves total = 0.0).  Decided by running the real setter in
    uninterpreted arithmetic and listing the inputs of the resulting expression."""
    cls = ctx.prog.cls(DENS)
    m = cls.find_method('__setitem__')
    n = 0
    for labels, hist in ((('A',), (('A',), ('A',))), (('A', 'B'), (('A',), ('B',), ('A',))),
                         (('A', 'B'), (('A', 'B'), ('B',))), (('A', 'B', 'C'), (('A',), ('B',), ('C',), ('B',), ('A',)))):
        construct = '%s::total' % DENS
        try:
            r = Run(ctx.prog, DENS, labels)
            r.ip.opaque_arith = True
            for k in hist:
                r.assign(k)
            current = set()
            for v_ in r.value.values():
                current |= set(v_.symbols())
            overwritten = {'v%d' % i for i in range(1, r.n + 1)} - current
            tot = r.term(r.attr('total'))
            if tot is None or P.is_pw(tot):
                raise Unsupported('total is %s' % show(tot))
            ins = N.opaque_inputs(tot)
        except (Unsupported, Raised) as e:
            ctx.undecided(rule, construct, '%s: %s' % (hist_name(hist), e), m.loc() if m else None)
            continue
        n += 1
        stale = sorted(ins & overwritten)
        if stale:
            ctx.violation(rule, construct, 'stale-operand',
                          'types %s, after %s: total is computed as %s -- the overwritten value %s takes part in the arithmetic, so it '
                          'cancels only in exact arithmetic (catastrophic cancellation when it is much larger than the new densities)'
                          % (list(labels), hist_name(hist), N.show_opaque(tot, 6)[:160], ', '.join(stale)), m.loc() if m else None)
        else:
            ctx.holds(rule, construct, 'types %s, after %s: total is computed from the current densities only (%s)' % (
                list(labels), hist_name(hist), N.show_opaque(tot, 6)[:80]), m.loc() if m else None, key=hist_name(hist))
    ctx.floor(rule, n, 4, 're-assignment histories run in uninterpreted arithmetic')


def rule_checks(ctx, rule='R15.k'):
    """check() of both classes raises ValueError exactly while some type is unassigned (histories that leave each subset of
    the types unassigned; string and non-string labels)"""
    n = 0
    for qual in (DENS, DIAM):
        cls = ctx.prog.cls(qual)
        m = cls.find_method('check')
        for labels in (STR_LABELS[:1], STR_LABELS[:3], INT_LABELS):
            bad, und = [], []
            for r_ in range(len(labels) + 1):
                for subset in itertools.combinations(labels, r_):
                    try:
                        run = Run(ctx.prog, qual, labels)
                        for l in subset:
                            run.assign((l,))
                        exc = run.check_raises()
                    except (Unsupported, NeedDecision) as e:
                        und.append('abstract execution of the real class not possible: %s' % e)
                        continue
                    except Raised as e:
                        bad.append('assigning %r raises %s' % (list(subset), e.exc))
                        continue
                    n += 1
                    complete = len(subset) == len(labels)
                    if complete and exc is not None:
                        bad.append('check() raises %s although every type of %s is assigned' % (exc, list(labels)))
                    if not complete and exc != 'ValueError':
                        bad.append('check() %s while %s of %s are unassigned (ValueError required)' % (
                            'raises %s' % exc if exc else 'returns normally', [l for l in labels if l not in subset], list(labels)))
            key = 'types=%s' % ','.join(map(str, labels))
            if bad:
                ctx.violation(rule, qual + '.check', key, '; '.join(sorted(set(bad))[:2]), m.loc())
            elif und:
                ctx.undecided(rule, qual + '.check', '%s: %s' % (key, und[0]), m.loc())
            else:
                ctx.holds(rule, qual + '.check', '%s: ValueError exactly while a type is unassigned (every subset of assigned types)' % key,
                          m.loc(), key=key)
    ctx.floor(rule, n, 30, 'check() runs')
