"""Semantic rule R16.x / R16.s -- System.check decided by abstract execution of the *real* classes.

A real System (real Density, Diameter, PairTable, ValueTable, MatrixArray and Domain underneath) is built over concrete
type lists, every ingredient is supplied through the public setters (symbolic numbers for densities and diameters, opaque
objects for potentials, closures and omegas, a Domain with symbolic length and spacing), and check() is executed on
  * the complete system            -> every path returns normally and nothing reachable from the System is written,
  * the system with exactly one ingredient left out (the domain; the density or the diameter of one type; the potential,
    closure or omega of one unordered pair), each in turn -> every path raises ValueError.
Data-dependent branches inside check() (the on-grid warnings) are explored.  Nothing is matched against the spelling of
check(), so a refactoring that keeps the behaviour keeps the verdict.  Labels are boxed (equal to, never identical with,
the entries of the type list); one label set consists of integers.
"""
from .. import nf as N
from .. import worlds as W
from ..interp import Interp, Const, Num, Seq, Obj, Unsupported, Raised, NeedDecision, explore
from ..model import AnalysisError
from .density_sem import label

SYSQ = 'pyPRISM.core.System::System'
LABEL_SETS = (('A',), ('A', 'B'), ('A', 'B', 'C'), (11, 22))


def ingredients(labels):
    out = [('domain',)]
    for l in labels:
        out += [('density', l), ('diameter', l)]
    for nm in ('potential', 'closure', 'omega'):
        for i, a in enumerate(labels):
            for b in labels[i:]:
                out.append((nm, a, b))
    return out


def build(prog, labels, missing, preset, mirrored=False):
    ip = Interp(prog)
    ip.preset = list(preset)
    cls = prog.cls(SYSQ)
    o = ip.construct(cls, [Seq([label(x) for x in labels], 'list')], {'kT': Num(ip.declare('kT'))})
    o.origin = 'self'

    def setitem(attr, key, val):
        try:
            tbl = ip.get_attr(o, attr, None)            # plain attribute or property
        except Raised:
            tbl = None
        if not isinstance(tbl, Obj):
            raise Unsupported('System.%s is %r' % (attr, tbl))
        m = ip.find_method(tbl, '__setitem__')
        if m is None:
            raise AnalysisError('%s.__setitem__ vanished' % attr)
        ip.call(m, [key, val], {})
    if missing != ('domain',):
        L, d = ip.declare('L', integer=True), ip.declare('dr')
        ip.set_attr(o, 'domain', W.fresh_domain(ip, Num(L), dr=Num(d)), None)
    for l in labels:
        if missing != ('density', l):
            setitem('density', label(l), Num(ip.declare('rho_%s' % l)))
        if missing != ('diameter', l):
            setitem('diameter', label(l), Num(ip.declare('d_%s' % l)))
    for nm in ('potential', 'closure', 'omega'):
        for i, a in enumerate(labels):
            for b in labels[i:]:
                if missing != (nm, a, b):
                    key = Seq([label(b), label(a)]) if mirrored else Seq([label(a), label(b)])
                    setitem(nm, key, Obj('payload', {'tag': Const('%s[%s,%s]' % (nm, a, b))}))
    e0 = len(ip.events)
    m = ip.find_method(o, 'check')
    if m is None:
        raise AnalysisError('System.check vanished')
    ip.call(m, [], {})
    return ip, {'o': o, 'events': ip.events[e0:]}


def rule_system_check(ctx, rule='R16.x'):
    cls = ctx.prog.cls(SYSQ)
    m = cls.find_method('check')
    construct = SYSQ + '.check'
    runs = 0
    for labels in LABEL_SETS:
        key = 'types=%s' % ','.join(map(str, labels))
        bad, und, writes = [], [], []
        try:
            for mirrored in (False, True):
                ws = explore(lambda preset: build(ctx.prog, labels, None, preset, mirrored), keep_raised=True, limit=512)
                for d, ip, r in ws:
                    runs += 1
                    if ip is None:
                        bad.append('check() raises %s (%s) on a fully specified system%s' % (
                            r.exc, (r.msg or '')[:80], ' whose pair tables were filled through the mirrored keys' if mirrored else ''))
                        continue
                    for e in r['events']:
                        if e['kind'] in ('write', 'bind', 'transform') and (e['target'] or '').startswith('self'):
                            writes.append('%s %s at %s' % (e['kind'], e['target'], e['loc']))
            for miss in ingredients(labels):
                ws = explore(lambda preset: build(ctx.prog, labels, miss, preset), keep_raised=True, limit=512)
                for d, ip, r in ws:
                    runs += 1
                    what = 'the %s%s' % (miss[0], (' of ' + ','.join(map(repr, miss[1:]))) if len(miss) > 1 else '')
                    if ip is not None:
                        bad.append('check() accepts a system without %s' % what)
                    elif r.exc != 'ValueError':
                        bad.append('without %s check() raises %s, not ValueError' % (what, r.exc))
        except (Unsupported, NeedDecision) as e:
            und.append('abstract execution of the real classes not possible: %s' % e)
        if bad:
            ctx.violation(rule, construct, key, '; '.join(sorted(set(bad))[:3]), m.loc())
        elif und:
            ctx.undecided(rule, construct, '%s: %s' % (key, und[0]), m.loc())
        else:
            ctx.holds(rule, construct, '%s: the complete system passes; each of the %d single omissions (domain, a density, a diameter, '
                      'a potential / closure / omega pair) is refused with ValueError' % (key, len(ingredients(labels))), m.loc(), key=key)
        if writes:
            ctx.violation('R16.s', construct, 'writes:' + key, 'check modifies the System: %s' % sorted(set(writes))[:4], m.loc())
        elif not und:
            ctx.holds('R16.s', construct, '%s: check writes nothing' % key, m.loc(), nontrivial=False, key=key)
    ctx.floor(rule, runs, 60, 'System.check executions')


def rule_system_iterpairs(ctx, rule='R16.i'):
    """System.iterpairs is the third implementation of the pair enumeration (next to PairTable.iterpairs and
    MatrixArray.iterpairs) and must agree with them: every unordered pair once by default, off-diagonal pairs only with
    diagonal=False, every ordered pair with full=True, in type-list order, each with its own indices and labels.  The real
    generator is executed on a System over 1..4 concrete labels."""
    cls = ctx.prog.cls(SYSQ)
    m = cls.find_method('iterpairs')
    construct = SYSQ + '.iterpairs'
    if m is None:
        ctx.holds(rule, construct, 'System has no pair enumerator of its own', nontrivial=False)
        return
    bad, und, runs = [], [], 0
    for labels in (('A',), ('A', 'B'), ('A', 'B', 'C'), ('A', 'B', 'C', 'D')):
        n = len(labels)
        want = {(False, True): [(i, j) for i in range(n) for j in range(n) if i <= j],
                (False, False): [(i, j) for i in range(n) for j in range(n) if i < j],
                (True, True): [(i, j) for i in range(n) for j in range(n)],
                (True, False): [(i, j) for i in range(n) for j in range(n)],
                None: [(i, j) for i in range(n) for j in range(n) if i <= j]}
        for flags, pairs in want.items():
            try:
                ip = Interp(ctx.prog)
                o = ip.construct(cls, [Seq([label(x) for x in labels], 'list')], {})
                kw = {} if flags is None else {'full': Const(flags[0]), 'diagonal': Const(flags[1])}
                res = ip.call(ip.find_method(o, 'iterpairs'), [], kw)
                if not isinstance(res, Seq):
                    raise Unsupported('iterpairs returns %r' % (res,))
                got = []
                for item in res.items:
                    ij, tt = item.items[0], item.items[1]
                    i, j = (int(x.t.const_value()) for x in ij.items)
                    got.append((i, j))
                    if tuple(getattr(x, 'v', None) for x in tt.items) != (labels[i], labels[j]):
                        bad.append('%d types, %s: labels %s yielded with indices (%d,%d)' % (
                            n, flags, tuple(getattr(x, 'v', x) for x in tt.items), i, j))
                runs += 1
            except (Unsupported, NeedDecision) as e:
                und.append(str(e))
                continue
            except Raised as e:
                bad.append('%d types, flags %s: raises %s' % (n, flags, e.exc))
                continue
            if got != pairs:
                tag = 'default' if flags is None else 'full=%s,diagonal=%s' % flags
                bad.append('%d types, %s: visits %s, the table enumerators visit %s' % (n, tag, got[:8], pairs[:8]))
    if bad:
        ctx.violation(rule, construct, 'iteration', '; '.join(sorted(set(bad))[:3]), m.loc())
    elif und:
        ctx.undecided(rule, construct, und[0], m.loc())
    else:
        ctx.holds(rule, construct, 'agrees with the table enumerators for every flag combination on 1..4 types (%d executions)' % runs, m.loc())
