"""R00.sig -- the public call interface of the package is compatible with the reference interface (spec/signatures.json).

A caller written against the documented signatures passes arguments by position or by name and relies on the defaults.
For every public callable of the reference interface (constructors, public methods, module-level functions of the
non-test modules) the current definition must accept every call the reference accepts and bind it the same way:
  * the reference positional parameters are a prefix of the current ones, in the same order, with the same names,
  * a parameter that had a default still has one, and the *value* of a literal default is unchanged,
  * keyword-only parameters of the reference still exist,
  * whatever is new comes after them and is optional (has a default, is keyword-only, or is *args / **kwargs).
Each reported difference changes the meaning of an existing call (an argument lands in another parameter, a default
silently changes, a call raises TypeError); additions that no existing call can observe are accepted.  A non-literal
default that is spelled differently is UNDECIDED (it may denote the same object).

The reference was extracted from the pinned tree with tools/gen_signatures.py and is data, not a copy of source text:
only parameter names, order, kinds and default values are kept.
"""
import ast
import json
import os
from ..report import VERIF

REF = os.path.join(VERIF, 'spec', 'signatures.json')


def _named_constant(node, scopes):
    """the literal a default such as DEFAULT_HIGH_VALUE / Cls.DEFAULT_HIGH_VALUE denotes: the name is bound exactly once, to a
    literal, in the enclosing class body or at module level (defaults are evaluated when the function is defined)"""
    if isinstance(node, ast.Attribute) and isinstance(node.value, ast.Name):
        name = node.attr
    elif isinstance(node, ast.Name):
        name = node.id
    else:
        return None
    for body in scopes:
        hits = []
        for st in body:
            if not isinstance(st, ast.Assign):
                continue
            for t in st.targets:
                if isinstance(t, ast.Name) and t.id == name:
                    hits.append(st.value)
                elif isinstance(t, (ast.Tuple, ast.List)) and isinstance(st.value, (ast.Tuple, ast.List)) and \
                        len(t.elts) == len(st.value.elts):
                    hits += [v for te, v in zip(t.elts, st.value.elts) if isinstance(te, ast.Name) and te.id == name]
                elif isinstance(t, (ast.Tuple, ast.List)) and any(isinstance(te, ast.Name) and te.id == name for te in t.elts):
                    hits.append(None)
        if len(hits) == 1 and hits[0] is not None:
            try:
                return {'lit': repr(ast.literal_eval(hits[0]))}
            except Exception:
                return None
        if hits:
            return None
    return None


def default_repr(node, scopes=()):
    if node is None:
        return None
    try:
        return {'lit': repr(ast.literal_eval(node))}
    except Exception:
        return _named_constant(node, scopes) or {'expr': ast.unparse(node)}


def signature_of(fn, scopes=()):
    a = fn.args
    pos = [x.arg for x in a.posonlyargs + a.args]
    nd = len(a.defaults)
    defaults = [None] * (len(pos) - nd) + [default_repr(d, scopes) for d in a.defaults]
    return {'pos': pos, 'defaults': defaults, 'vararg': a.vararg.arg if a.vararg else None,
            'kwonly': [x.arg for x in a.kwonlyargs],
            'kwdefaults': [default_repr(d, scopes) for d in a.kw_defaults],
            'kwarg': a.kwarg.arg if a.kwarg else None}


def public_callables(prog):
    """{qualified name: (FunctionDef, relpath, lineno)} for the non-test modules"""
    out = {}
    for m in prog.modules.values():
        if '/test/' in m.relpath or m.relpath.endswith('version.py'):
            continue
        for st in m.tree.body:
            if isinstance(st, ast.FunctionDef) and not st.name.startswith('_'):
                out['%s::%s' % (m.name, st.name)] = (st, m.relpath, (m.tree.body,))
            elif isinstance(st, ast.ClassDef) and not st.name.startswith('_'):
                for x in st.body:
                    if isinstance(x, ast.FunctionDef) and (not x.name.startswith('_') or x.name in ('__init__', '__call__')):
                        out['%s::%s.%s' % (m.name, st.name, x.name)] = (x, m.relpath, (st.body, m.tree.body))
    return out


def compare(ref, cur):
    """(violations, undecided) of one callable"""
    bad, und = [], []
    rp, cp = ref['pos'], cur['pos']
    if cp[:len(rp)] != rp:
        if sorted(cp[:len(rp)]) == sorted(rp) or set(rp) <= set(cp):
            bad.append('positional parameters are %s, the interface is %s: an argument passed by position lands in another '
                       'parameter' % (cp, rp))
        else:
            bad.append('positional parameters are %s, the interface is %s: calls by position or by name no longer bind as '
                       'before' % (cp, rp))
        return bad, und
    for i, name in enumerate(rp):
        rd, cd = ref['defaults'][i], cur['defaults'][i]
        if rd is not None and cd is None:
            bad.append('parameter %s lost its default: calls that omit it raise TypeError' % name)
        elif rd is None and cd is not None:
            pass        # a new default only makes more calls legal
        elif rd != cd:
            if 'lit' in rd and 'lit' in cd:
                bad.append('default of %s changed from %s to %s' % (name, rd['lit'], cd['lit']))
            else:
                und.append('default of %s is spelled %s, the interface has %s' % (name, list(cd.values())[0], list(rd.values())[0]))
    for j, name in enumerate(cp[len(rp):]):
        if cur['defaults'][len(rp) + j] is None and not ref['vararg']:
            bad.append('new required positional parameter %s: existing calls raise TypeError' % name)
    if ref['vararg'] and not cur['vararg']:
        bad.append('*%s was removed' % ref['vararg'])
    if ref['kwarg'] and not cur['kwarg']:
        bad.append('**%s was removed' % ref['kwarg'])
    for j, name in enumerate(ref['kwonly']):
        if name not in cur['kwonly'] and name not in cp:
            bad.append('keyword parameter %s was removed' % name)
        elif name in cur['kwonly']:
            rd, cd = ref['kwdefaults'][j], cur['kwdefaults'][cur['kwonly'].index(name)]
            if rd != cd:
                if rd and cd and 'lit' in rd and 'lit' in cd:
                    bad.append('default of %s changed from %s to %s' % (name, rd['lit'], cd['lit']))
                elif rd is not None and cd is None:
                    bad.append('keyword parameter %s lost its default' % name)
                elif rd is not None:
                    und.append('default of %s is spelled differently' % name)
    for j, name in enumerate(cur['kwonly']):
        if name not in ref['kwonly'] and cur['kwdefaults'][j] is None:
            bad.append('new required keyword parameter %s' % name)
    return bad, und


def rule_signatures(ctx, rule='R00.sig', files=None):
    """files: restrict to callables defined in these repository-relative files (the property's anchor files)"""
    if not os.path.exists(REF):
        ctx.undecided(rule, 'reference', 'spec/signatures.json is missing')
        return
    ref = json.load(open(REF))
    cur = public_callables(ctx.prog)
    n = 0
    for q in sorted(ref):
        r = ref[q]
        if files is not None and r['file'] not in files:
            continue
        n += 1
        if q not in cur:
            # a removed or renamed public callable: callers get AttributeError / ImportError
            ctx.violation(rule, q, 'removed', 'public callable of the reference interface no longer exists', r['file'])
            continue
        fn, rel, scopes = cur[q]
        bad, und = compare(r['sig'], signature_of(fn, scopes))
        if bad:
            ctx.violation(rule, q, 'signature', '; '.join(bad), '%s:%d' % (rel, fn.lineno))
        elif und:
            ctx.undecided(rule, q, '; '.join(und), '%s:%d' % (rel, fn.lineno))
    if files is None or n:
        ctx.holds(rule, 'package', '%d public callables accept and bind every call of the reference interface' % n, nontrivial=False) \
            if not any(o['rule'] == rule and o['status'] != 'HOLDS' for o in ctx.obl) else None
    ctx.floor(rule, n, 1, 'public callables compared with the reference interface')
