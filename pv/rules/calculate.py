"""Rules R05.* (every calculate.* quantity equals its definition) and R06.* (post-processing is history
independent and never corrupts the solved object)."""
import ast
import itertools
from fractions import Fraction as F
from .. import nf as N
from .. import pw as P
from .. import worlds as W
from .. import series as S
from ..interp import (Interp, Arr, Num, View, Const, Obj, Seq, Unsupported, Raised, NONE, TRUE, FALSE, explore, relabel)
from ..model import AnalysisError
from spec import calculate as SPEC

FUNCS = ('pair_correlation', 'pmf', 'structure_factor', 'second_virial', 'chi', 'spinodal_condition',
         'solvation_potential')
STR_FLAGS = {'closure': ('HNC', 'PY')}
SPATIAL = [nm for nm, _ in W.SPATIAL]


def finfo(prog, fname):
    return prog.func('pyPRISM.calculate.%s::%s' % (fname, fname))


def valuations(f):
    """enumerate the declared configuration flags of a calculate function from its signature"""
    a = f.node.args
    params = [x.arg for x in a.args][1:]
    defaults = a.defaults[len(a.defaults) - len(params):] if params else []
    doms = []
    for p, d in zip(params, defaults):
        if isinstance(d, ast.Constant) and isinstance(d.value, bool):
            doms.append((p, [True, False]))
        elif p in STR_FLAGS:
            doms.append((p, list(STR_FLAGS[p])))
        elif isinstance(d, ast.Constant) and (d.value is None or isinstance(d.value, (int, float, str))):
            # an optional parameter that is not one of the documented configuration flags (the property quantifies over
            # normalize, extrapolate and closure): analysed as every existing caller leaves it, at its default
            continue
        else:
            raise Unsupported('parameter %s of %s has no declared finite domain' % (p, f.name))
    out = []
    for combo in itertools.product(*[d for _, d in doms]):
        out.append(dict(zip([p for p, _ in doms], combo)))
    return out or [{}]


def valname(v):
    return ','.join('%s=%s' % kv for kv in sorted(v.items())) or '-'


def run_calc(prog, fname, val, spaces=None, preset=()):
    ip = Interp(prog)
    ip.preset = list(preset)
    PR = W.prism_world(ip, spaces)
    f = finfo(prog, fname)
    kw = {k: Const(v) for k, v in val.items()}
    e0 = len(ip.events)
    res = ip.call(ip.make_func(f), [PR], kw)
    return ip, {'PRISM': PR, 'res': res, 'events': ip.events[e0:]}


def worlds_of(prog, fname, val, spaces=None, keep_raised=False):
    return explore(lambda preset: run_calc(prog, fname, val, spaces, preset), keep_raised=keep_raised)


def canon(ip, t, degree=8):
    return S.Canon(ip.atom_is_array, degree=degree).canon(t)


def ma_term(ip, res):
    if not (isinstance(res, Obj) and res.isa('MatrixArray')):
        raise Unsupported('result is not a MatrixArray: %r' % (res,))
    d = res.attrs.get('data')
    t = W.attr_term(ip, d)
    if t is None or P.is_pw(t):
        raise Unsupported('result data is not a plain term')
    return t


def pt_records(ip, res):
    if not (isinstance(res, Obj) and res.isa('PairTable')):
        raise Unsupported('result is not a PairTable: %r' % (res,))
    recs = res.attrs['_native_store']
    out = []
    for rec in recs:
        t, _ = ip.term_of(rec['value'])
        if P.is_pw(t):
            raise Unsupported('piecewise pair value')
        la, lb = rec['labels']
        out.append({'labels': (la, lb), 'term': t, 'coverage': ip.coverage(rec['ctx_chain'], la, lb),
                    'loc': rec['loc']})
    return out


# ---------------------------------------------------------------------------------------------
# C05
# ---------------------------------------------------------------------------------------------
def _check_matrix(ctx, rule, fname, val, want_fn, space):
    f = finfo(ctx.prog, fname)
    construct = 'pyPRISM.calculate.%s' % fname
    for d, ip, r in worlds_of(ctx.prog, fname, val):
        t = ma_term(ip, r['res'])
        want = want_fn()
        a, b = canon(ip, t), canon(ip, want)
        sp = r['res'].attrs.get('space')
        bad = []
        if not a.equals(b):
            bad.append('returns %s; definition is %s' % (N.show(a), N.show(b)))
        if not (isinstance(sp, Const) and sp.v == ('Space', space)):
            bad.append('result is flagged %r, expected %s space' % (getattr(sp, 'v', sp), space))
        if r['res'].attrs.get('types') is not r['PRISM'].attrs['sys'].attrs['types']:
            bad.append('result does not carry the system\'s type list')
        if bad:
            ctx.violation(rule, construct, 'definition:' + valname(val), '; '.join(bad), f.loc())
            return
    ctx.holds(rule, construct, '%s: == %s in %s space' % (valname(val), N.show(canon(ip, want_fn())), space), f.loc(),
              key=valname(val), sample={'function': fname, 'flags': valname(val), 'extracted': N.show(a)})


def rule_pair_correlation(ctx, rule='R05.g'):
    _check_matrix(ctx, rule, 'pair_correlation', {}, SPEC.pair_correlation, 'Real')
    # the cache attribute holds the same term
    for d, ip, r in worlds_of(ctx.prog, 'pair_correlation', {}):
        pc = r['PRISM'].attrs.get('pairCorr')
        if pc is not None and pc is not r['res']:
            t = ma_term(ip, pc)
            if not canon(ip, t).equals(canon(ip, SPEC.pair_correlation())):
                ctx.violation(rule, 'pyPRISM.calculate.pair_correlation', 'cache', 'PRISM.pairCorr holds %s' % N.show(t))


def rule_pmf(ctx, rule='R05.w'):
    _check_matrix(ctx, rule, 'pmf', {}, SPEC.pmf, 'Real')


def rule_structure_factor(ctx, rule='R05.s'):
    for val in valuations(finfo(ctx.prog, 'structure_factor')):
        _check_matrix(ctx, rule, 'structure_factor', val, lambda v=val: SPEC.structure_factor(v.get('normalize', True)), 'Fourier')


def rule_solvation(ctx, rule='R05.p'):
    for val in valuations(finfo(ctx.prog, 'solvation_potential')):
        _check_matrix(ctx, rule, 'solvation_potential', val, lambda v=val: SPEC.solvation(v.get('closure', 'HNC')), 'Real')


def _check_pairs(ctx, rule, fname, val, want_fn, want_cov):
    f = finfo(ctx.prog, fname)
    construct = 'pyPRISM.calculate.%s' % fname
    got = None
    for d, ip, r in worlds_of(ctx.prog, fname, val):
        recs = pt_records(ip, r['res'])
        bad = []
        if len(recs) != 1:
            bad.append('expected one per-pair definition, found %d' % len(recs))
        else:
            rec = recs[0]
            la, lb = rec['labels']
            want = want_fn(ip, la, lb)
            got = rec['term']
            if not got.equals(want):
                bad.append('value for pair (%s,%s) is %s; definition is %s' % (la, lb, N.show(got)[:400], N.show(want)[:400]))
            if rec['coverage'] not in want_cov:
                bad.append('pairs visited: %s (expected %s)' % (rec['coverage'], '/'.join(want_cov)))
            # label symmetry: (a,b) and (b,a) give the same value
            sw = relabel(got, {la: lb, lb: la}, ip.symmetric)
            if not sw.equals(got):
                bad.append('value changes when the two type labels are exchanged')
        if not bool(r['res'].attrs['symmetric'].v):
            bad.append('result table is not symmetric: (a,b) and (b,a) are different cells')
        if r['res'].attrs.get('types') is not r['PRISM'].attrs['sys'].attrs['types']:
            bad.append('result table is not keyed by the system\'s type list')
        if bad:
            ctx.violation(rule, construct, 'definition:' + valname(val), '; '.join(bad), f.loc())
            return None
        carried = loop_carried(ip)
        if carried:
            ctx.violation(rule, construct, 'loop-carried:' + valname(val), carried[0], f.loc())
            return None
    ctx.holds(rule, construct, '%s: per-pair value equals its definition; pairs %s; symmetric in the labels'
              % (valname(val), recs[0]['coverage']), f.loc(), key=valname(val),
              sample={'function': fname, 'flags': valname(val), 'extracted': N.show(got)[:300]})
    return got


def loop_carried(ip):
    """The pair loop is analysed once with symbolic labels, which is sound only when no iteration reads what an
    earlier one wrote.  An in-place write, made inside a pair loop, to a *diagonal* entry (a,a) of an array that
    existed before the call is read again by every later pair that contains type a: for rank >= 3 those pairs are
    then computed from modified data and no longer equal their definition.  (Entry (a,b) of the iteration's own
    pair is visited once and is harmless here; C06 reports the corruption of the object itself.)"""
    out = []
    for w in ip.entry_writes:
        la, lb = w['pair']
        if w['arr'].fresh or not w.get('loop_labels'):
            continue
        if la == lb and la in w['loop_labels']:
            out.append('the iteration for pair (a,b) overwrites entry (%s,%s) of %s at %s, which the iterations of every '
                       'other pair containing that type read afterwards: for three or more types later pairs are not '
                       'computed from the object\'s data' % (la, lb, w['arr'].origin, w['loc']))
    return out


def rule_second_virial(ctx, rule='R05.b2'):
    for val in valuations(finfo(ctx.prog, 'second_virial')):
        _check_pairs(ctx, rule, 'second_virial', val,
                     lambda ip, a, b, v=val: SPEC.second_virial(ip, a, b, v.get('extrapolate', True)),
                     ('ordered-all', 'unordered-all'))


def rule_spinodal(ctx, rule='R05.l'):
    for val in valuations(finfo(ctx.prog, 'spinodal_condition')):
        _check_pairs(ctx, rule, 'spinodal_condition', val, lambda ip, a, b: SPEC.spinodal(ip, a, b),
                     ('unordered-offdiag',))


def rule_chi(ctx, rule='R05.x'):
    """linear and homogeneous in (C_aa, C_bb, C_ab); weights 1/R : R : -2; equal volumes -> rho/2 (Caa+Cbb-2Cab)"""
    f = finfo(ctx.prog, 'chi')
    construct = 'pyPRISM.calculate.chi'
    for val in valuations(f):
        for d, ip, r in worlds_of(ctx.prog, 'chi', val):
            recs = pt_records(ip, r['res'])
            bad = []
            if len(recs) != 1:
                ctx.violation(rule, construct, 'definition:' + valname(val), 'expected one per-pair definition, found %d' % len(recs), f.loc())
                return
            rec = recs[0]
            a, b = rec['labels']
            t = rec['term']
            if val.get('extrapolate', True):
                # peel the extrapolation idiom: polyfit_eval(k[:3], y[:3], 2, 0)
                y = _peel_extrap(ip, t)
                if y is None:
                    bad.append('extrapolated value is not the quadratic through the three lowest-k points at k=0: %s' % N.show(t)[:300])
                    t = None
                else:
                    t = y
            if t is not None:
                sl = (lambda x: SPEC.sl3(ip, x)) if val.get('extrapolate', True) else (lambda x: x)
                caa, cbb, cab = (sl(SPEC.ent(ip, SPEC.CF, *p)) for p in ((a, a), (b, b), (a, b)))
                names = {}
                for nm, c in (('cAA', caa), ('cBB', cbb), ('cAB', cab)):
                    (m, _), = c.num.items()
                    names[m[0][0]] = nm
                t2 = N.transform(t, lambda at: N.sym(names[at]) if at in names else None)
                leftover = [N.show_atom(x) for x in t2.all_atoms() if x[0] == 'fn' and x[1] in ('ent', 'slice', 'at')]
                if leftover:
                    bad.append('depends on correlation data other than C_aa, C_bb, C_ab of the pair: %s' % leftover[:3])
                elif not N.is_linear_homogeneous(t2, ['cAA', 'cBB', 'cAB']):
                    bad.append('not linear and homogeneous in (C_aa, C_bb, C_ab)')
                else:
                    kaa, kbb, kab = (N.diff(t2, s) for s in ('cAA', 'cBB', 'cAB'))
                    da, db = N.NF.atom(('fn', 'dia', a)), N.NF.atom(('fn', 'dia', b))
                    R = (N.PI * da ** 3 / 6) / (N.PI * db ** 3 / 6)
                    if kab.is_zero() or not (kaa / kab).equals((1 / R) / (-2)) or not (kbb / kab).equals(R / (-2)):
                        bad.append('weights of (C_aa, C_bb, C_ab) are not in the ratio 1/R : R : -2 with R = v_a/v_b: '
                                   'C_aa/C_ab = %s, C_bb/C_ab = %s' % (N.show(kaa / kab) if not kab.is_zero() else 'inf',
                                                                       N.show(kbb / kab) if not kab.is_zero() else 'inf'))
                    eq = N.transform(t2, lambda at: N.NF.atom(('fn', 'dia', a)) if at == ('fn', 'dia', b) else None)
                    want = F(1, 2) * N.sym('rho_total') * (N.sym('cAA') + N.sym('cBB') - 2 * N.sym('cAB'))
                    if not eq.equals(want):
                        bad.append('for equal site volumes the value is %s, not (rho/2)(C_aa+C_bb-2C_ab)' % N.show(eq))
                sw = relabel(rec['term'], {a: b, b: a}, ip.symmetric)
                if not sw.equals(rec['term']):
                    bad.append('value changes when the two type labels are exchanged')
            if rec['coverage'] != 'unordered-offdiag':
                bad.append('pairs visited: %s (expected every pair i<j once)' % rec['coverage'])
            if not bool(r['res'].attrs['symmetric'].v):
                bad.append('result table is not symmetric')
            if bad:
                ctx.violation(rule, construct, 'definition:' + valname(val), '; '.join(bad), f.loc())
                return
        ctx.holds(rule, construct, '%s: linear in (C_aa,C_bb,C_ab) with weights 1/R : R : -2; equal volumes give (rho/2)(C_aa+C_bb-2C_ab); '
                  'pairs i<j; label symmetric' % valname(val), f.loc(), key=valname(val),
                  sample={'flags': valname(val), 'extracted': N.show(rec['term'])[:300]})


def _peel_extrap(ip, t):
    """y such that t == polyfit_eval(k[:3], y, 2, 0), else None"""
    if not t.is_monomial():
        return None
    (m, c), = t.num.items()
    if c != 1 or len(m) != 1 or m[0][1] != 1:
        return None
    a = m[0][0]
    if a[0] != 'fn' or a[1] != 'polyfit_eval':
        return None
    x, y, deg, at = [N.nf_from_key(k) for k in a[2:]]
    if not x.equals(SPEC.sl3(ip, SPEC.K)) or not deg.equals(N.NF.const(2)) or not at.is_zero():
        return None
    return y


def rule_matrix_symmetry(ctx, rule='R05.sym'):
    """matrix-valued results are symmetric in the two labels: entrywise combinations of symmetric arrays,
    and matrix products whose word series equals its own reversal"""
    for fname in ('pair_correlation', 'pmf', 'structure_factor', 'solvation_potential'):
        f = finfo(ctx.prog, fname)
        construct = 'pyPRISM.calculate.%s' % fname
        for val in valuations(f):
            for d, ip, r in worlds_of(ctx.prog, fname, val):
                t = ma_term(ip, r['res'])
                cn = S.Canon(ip.atom_is_array, degree=8)
                ok, why = _symmetric_term(ip, cn, t)
                if ok:
                    ctx.holds(rule, construct, '%s: result is a symmetric matrix function (%s)' % (valname(val), why), f.loc(), key=valname(val))
                else:
                    ctx.violation(rule, construct, 'symmetry:' + valname(val), why, f.loc())
                break


def _symmetric_term(ip, cn, t):
    """True when every tensor leaf is a symmetric symbol and every outermost matrix product equals its own
    word reversal (transpose of a product of symmetric matrices)"""
    notes = []

    def leaf_ok(x):
        for a in x.all_atoms():
            if a[0] == 'sym' and ip.sym_kind.get(a[1], 'scalar') in ('tensor', 'mat1') and a[1] not in ip.symmetric:
                return 'non-symmetric array %s' % a[1]
            if a[0] == 'fn' and a[1] in ('dot', 'inv'):
                return 'matrix product inside an entrywise factor'
        return None

    def walk(x):
        for a in x.atoms():
            if a[0] == 'fn' and a[1] in ('dot', 'inv'):
                s = cn.series(N.NF.atom(a))
                for w, k in s.items():
                    r = tuple(reversed(w))
                    if r not in s or not s[r].equals(k):
                        return 'matrix product is not invariant under transposition: word %s' % ' . '.join(w)
                    for l in w:
                        why = leaf_ok(cn.letters[l])
                        if why:
                            return why
                notes.append('product equals its reversal')
            elif a[0] == 'sym':
                why = leaf_ok(N.NF.atom(a))
                if why:
                    return why
            else:
                for ch in N.atom_children(a):
                    why = walk(ch)
                    if why:
                        return why
        return None
    why = walk(t)
    return (why is None), (why or ', '.join(sorted(set(notes))) or 'entrywise combination of symmetric arrays')


# ---------------------------------------------------------------------------------------------
# C06
# ---------------------------------------------------------------------------------------------
def space_valuations():
    for combo in itertools.product(('Fourier', 'Real'), repeat=len(SPATIAL)):
        yield dict(zip(SPATIAL, combo))


def _norm_labels(text):
    """loop labels are numbered per interpreter run (t1, t2, ...): rename them in order of appearance so that two runs of
    the same code compare equal"""
    import re
    seen = {}

    def sub(m):
        return seen.setdefault(m.group(0), '@l%d' % (len(seen) + 1))
    return re.sub(r'\bt\d+\b', sub, text)


def _result_key(ip, res):
    """canonical description of a result for comparison across histories"""
    if isinstance(res, Obj) and res.isa('MatrixArray'):
        t = ma_term(ip, res)
        sp = res.attrs.get('space')
        return ('MA', _norm_labels(N.show(canon(ip, t))), getattr(sp, 'v', None))
    if isinstance(res, Obj) and res.isa('PairTable'):
        out = []
        for rec in pt_records(ip, res):
            la, lb = rec['labels']
            t = relabel(rec['term'], {la: '@a', lb: '@b'}, ip.symmetric)
            out.append((N.show(t), rec['coverage']))
        return ('PT', tuple(out))
    raise Unsupported('unexpected result %r' % (res,))


def _content(ip, PR, nm, sym):
    """Fourier-space content of a spatial array after the call"""
    ma = PR.attrs[nm]
    t = ma_term(ip, ma)
    sp = ma.attrs['space']
    if isinstance(sp, Const) and sp.v == ('Space', 'Real'):
        t = N.fn('toF', t)
    return canon(ip, t)


def attribute_loads(prog):
    """attribute names that are read somewhere in the package other than straight after being stored by the
    same function (a function reading back the value it has just stored carries no state between calls)"""
    from ..flow import Flow
    loads = set()
    for f in prog.all_functions():
        fl = None
        stores = {}
        for n in ast.walk(f.node):
            if isinstance(n, ast.Attribute) and isinstance(n.ctx, ast.Store):
                stores.setdefault(n.attr, []).append(n)
        for n in ast.walk(f.node):
            if isinstance(n, ast.Attribute) and isinstance(n.ctx, ast.Load):
                ss = stores.get(n.attr)
                if ss:
                    fl = fl or Flow(f.node)
                    if any(fl.dominates(s_, n) and ast.unparse(s_.value) == ast.unparse(n.value) for s_ in ss):
                        continue
                loads.add(n.attr)
    for m in prog.modules.values():
        for st in m.tree.body:
            if not isinstance(st, (ast.FunctionDef, ast.ClassDef)):
                for n in ast.walk(st):
                    if isinstance(n, ast.Attribute) and isinstance(n.ctx, ast.Load):
                        loads.add(n.attr)
    return loads


def rule_frame_and_typestate(ctx, rules=('R06.f', 'R06.s', 'R06.r', 'R06.c')):
    """for every function, flag valuation and every combination of spaces the three stored arrays may be in:
    no exception, the same result, contents of the object unchanged, only sanctioned transforms as writes,
    results share no memory with the object"""
    loads = attribute_loads(ctx.prog)
    n = 0
    for fname in FUNCS:
        f = finfo(ctx.prog, fname)
        construct = 'pyPRISM.calculate.%s' % fname
        try:
            vals = valuations(f)
        except Unsupported as e:
            ctx.undecided('R06.s', construct, str(e), f.loc())
            continue
        for val in vals:
            ref = None
            problems = {'R06.f': [], 'R06.s': [], 'R06.r': [], 'R06.c': []}
            nsp = 0
            asserts = []
            for spaces in space_valuations():
                nsp += 1
                tag = ','.join('%s=%s' % (k, v[0]) for k, v in sorted(spaces.items()))
                try:
                    ws = worlds_of(ctx.prog, fname, val, spaces, keep_raised=True)
                except Unsupported as e:
                    problems['R06.s'].append(('UNDECIDED', '%s: %s' % (tag, e)))
                    continue
                for d, ip, r in ws:
                    if ip is None:   # the call raised
                        e = r
                        # a refusal that is raised whatever space the arrays are in (rank>1, an input validation on a data
                        # condition) is not about the spaces; one that appears only for some combinations of spaces is
                        # judged after the loop
                        asserts.append((tag, e))
                        continue
                    n += 1
                    try:
                        key = _result_key(ip, r['res'])
                    except Unsupported as e:
                        problems['R06.s'].append(('UNDECIDED', '%s: %s' % (tag, e)))
                        continue
                    if ref is None:
                        ref = (tag, key)
                    elif key != ref[1]:
                        problems['R06.s'].append(('result-depends-on-space',
                                                  'result with %s differs from the result with %s: %s vs %s'
                                                  % (tag, ref[0], str(key)[:200], str(ref[1])[:200])))
                    # frame: events
                    for e in r['events']:
                        if e['kind'] == 'write':
                            problems['R06.f'].append(('write:%s' % e['target'],
                                                      'in-place write to %s at %s (%s, via %s)' % (e['target'], e['loc'], e.get('how'), e.get('via'))))
                        elif e['kind'] == 'bind' and not e.get('sanctioned'):
                            attr = e['target'].split('.')[-1]
                            if e['target'].startswith('PRISM.') and (e.get('existed') or attr in loads):
                                problems['R06.f'].append(('bind:%s' % e['target'],
                                                          'attribute %s is (re)bound at %s and is read elsewhere in the package' % (e['target'], e['loc'])))
                        elif e['kind'] == 'transform' and not e.get('fresh'):
                            if e['target'] not in ('PRISM.totalCorr.data', 'PRISM.directCorr.data', 'PRISM.omega.data'):
                                problems['R06.f'].append(('transform:%s' % e['target'], 'transform of %s at %s' % (e['target'], e['loc'])))
                        elif e['kind'] == 'unknown-call':
                            problems['R06.f'].append(('UNDECIDED', 'unknown call %s' % e['target']))
                    # frame: contents
                    for nm, sym in W.SPATIAL:
                        try:
                            c = _content(ip, r['PRISM'], nm, sym)
                        except Unsupported as e:
                            problems['R06.f'].append(('UNDECIDED', str(e)))
                            continue
                        if not c.equals(N.sym(sym)):
                            problems['R06.f'].append(('content:%s' % nm, 'after the call (%s) the content of PRISM.%s is %s instead of its original value'
                                                      % (tag, nm, N.show(c)[:200])))
                    # freshness of the result
                    res = r['res']
                    protected = [r['PRISM'].attrs[nm].attrs['data'] for nm in SPATIAL]
                    if isinstance(res, Obj) and res.isa('MatrixArray'):
                        d_ = res.attrs.get('data')
                        base = d_.base if isinstance(d_, View) else d_
                        if any(base is p for p in protected) or (isinstance(base, Arr) and not base.fresh):
                            problems['R06.c'].append(('alias', 'returned MatrixArray shares its data with %s' % getattr(base, 'origin', '?')))
                        if any(res is r['PRISM'].attrs[nm] for nm in SPATIAL):
                            problems['R06.c'].append(('alias', 'returns a stored array object itself'))
                    elif isinstance(res, Obj) and res.isa('PairTable'):
                        for rec in res.attrs['_native_store']:
                            v = rec['value']
                            base = v.base if isinstance(v, View) else v
                            if isinstance(base, Arr) and not base.fresh:
                                problems['R06.c'].append(('alias', 'table value is a view of %s' % base.origin))
            by_site = {}
            for t_, e in asserts:
                by_site.setdefault((e.exc, e.loc), []).append((t_, e))
            for (exc_, loc_), lst in sorted(by_site.items()):
                if len({t_ for t_, _ in lst}) < nsp:
                    t_, e = lst[0]
                    problems['R06.r'].append(('%s:space-dependent' % exc_,
                                              'with %s the call raises %s (%s) at %s although it does not for other combinations '
                                              'of spaces' % (t_, exc_, e.msg, e.loc)))
            for rid, probs in problems.items():
                und = [p for p in probs if p[0] == 'UNDECIDED']
                real = [p for p in probs if p[0] != 'UNDECIDED']
                if real:
                    seen = set()
                    for k, msg in real:
                        if k in seen:
                            continue
                        seen.add(k)
                        ctx.violation(rid, construct, k, '%s: %s' % (valname(val), msg), f.loc())
                elif und:
                    ctx.undecided(rid, construct, '%s: %s' % (valname(val), und[0][1]), f.loc())
                else:
                    what = {'R06.f': 'writes nothing persistent besides sanctioned space transforms; contents of totalCorr/directCorr/omega preserved',
                            'R06.s': 'same result in all %d combinations of stored spaces' % nsp,
                            'R06.r': 'no exception in any combination of stored spaces',
                            'R06.c': 'result shares no memory with the object'}[rid]
                    ctx.holds(rid, construct, '%s: %s' % (valname(val), what), f.loc(), key=valname(val))
    ctx.floor('R06.s', n, 11 * 8, 'function x flag x space-valuation runs')


# ---------------------------------------------------------------------------------------------
# R06.h  a calculate function called again after the object was re-solved
# ---------------------------------------------------------------------------------------------
def _run_history(prog, fname, val, mode, preset):
    """call f(PRISM); give the object new contents the way a re-solve does (cost() re-binds totalCorr/directCorr to new
    MatrixArrays; their data are new arrays); call f(PRISM) again"""
    ip = Interp(prog)
    ip.preset = list(preset)
    after_solve = {'totalCorr': 'Real', 'directCorr': 'Fourier', 'omega': 'Fourier'}
    PR = W.prism_world(ip, after_solve)
    f = finfo(prog, fname)
    kw = {k: Const(v) for k, v in val.items()}
    r1 = None
    if mode != 'fresh':
        r1 = ip.call(ip.make_func(f), [PR], dict(kw))
    types = PR.attrs['sys'].attrs['types']
    for nm, sym in W.SPATIAL:
        if nm == 'omega':
            continue            # omega is fixed at construction; a re-solve does not touch it
        sym2 = sym + '2'
        ip.declare(sym2, 'tensor', symmetric=True)
        sp = after_solve[nm]
        term = N.sym(sym2) if sp == 'Fourier' else N.fn('toR', N.sym(sym2))
        if mode in ('rebound', 'fresh'):
            # (the reference: an object that holds the new contents and on which nothing was called before)
            PR.attrs[nm] = W.matrixarray(ip, sym2, sp, 'PRISM.' + nm, term=term, types=types)
        else:                   # the same MatrixArray objects, new contents (in-place update of .data)
            ma = PR.attrs[nm]
            ma.attrs['data'].t = term
            ma.attrs['space'] = W.SPACE[sp]
    r2 = ip.call(ip.make_func(f), [PR], dict(kw))
    return ip, {'PRISM': PR, 'res': r2, 'first': r1}


def _rename_back(t):
    ren = {sym + '2': sym for _, sym in W.SPATIAL}

    def leaf(a):
        if a[0] == 'sym' and a[1] in ren:
            return N.sym(ren[a[1]])
        if a[0] == 'fn' and all(isinstance(k, str) for k in a[2:]) and any(k in ren for k in a[2:]):
            return N.NF.atom((a[0], a[1]) + tuple(ren.get(k, k) for k in a[2:]))   # ent(HF2, a, b): array named by string
        return None
    return N.transform(t, leaf)


def _hist_key(ip, res, rename):
    if isinstance(res, Obj) and res.isa('MatrixArray'):
        t = ma_term(ip, res)
        if rename:
            t = _rename_back(t)
        return ('MA', _norm_labels(N.show(canon(ip, t))), getattr(res.attrs.get('space'), 'v', None))
    if isinstance(res, Obj) and res.isa('PairTable'):
        out = []
        for rec in pt_records(ip, res):
            la, lb = rec['labels']
            t = rec['term']
            if rename:
                t = _rename_back(t)
            t = relabel(t, {la: '@a', lb: '@b'}, ip.symmetric)
            out.append((N.show(t), rec['coverage']))
        return ('PT', tuple(out))
    raise Unsupported('unexpected result %r' % (res,))


def rule_resolve_history(ctx, rule='R06.h'):
    """After the object has been re-solved (new totalCorr / directCorr, either as new MatrixArray objects or as new
    contents of the old ones) every calculate function returns what it returns on a fresh object with those contents:
    nothing computed during an earlier call (a cached pair correlation, a remembered structure factor) is re-used."""
    n = 0
    for fname in FUNCS:
        f = finfo(ctx.prog, fname)
        construct = 'pyPRISM.calculate.%s' % fname
        try:
            vals = valuations(f)
        except Unsupported as e:
            ctx.undecided(rule, construct, str(e), f.loc())
            continue
        for val in vals:
            tag = valname(val)
            try:
                fresh = explore(lambda preset: _run_history(ctx.prog, fname, val, 'fresh', preset))
                keys_f = {_hist_key(ip, r['res'], False) for d, ip, r in fresh}
                bad = []
                paths = 0
                for mode in ('rebound', 'inplace'):
                    for d, ip, r in explore(lambda preset: _run_history(ctx.prog, fname, val, mode, preset)):
                        paths += 1
                        k2 = _hist_key(ip, r['res'], False)
                        if k2 not in keys_f:
                            bad.append('after a re-solve (%s) the call returns %s; a fresh object with the new contents gives %s'
                                       % ('new MatrixArray objects' if mode == 'rebound' else 'same objects, new contents',
                                          str(k2)[:220], str(sorted(keys_f)[0])[:220]))
                        if r['res'] is r.get('first'):
                            bad.append('the second call returns the object returned by the first call')
            except (Unsupported, Raised) as e:
                ctx.undecided(rule, construct, '%s: %s' % (tag, e), f.loc())
                continue
            n += 1
            if bad:
                ctx.violation(rule, construct, 'resolve-history:' + tag, '%s: %s' % (tag, bad[0]), f.loc())
            else:
                ctx.holds(rule, construct, '%s: called again after a re-solve, returns the value of a fresh object (%d paths)' % (tag, paths),
                          f.loc(), key=tag)
    ctx.floor(rule, n, 11, 'calculate function x flag valuation re-solve histories')
