"""Semantic rules R14.* -- PairTable / ValueTable decided by abstract execution of the *real* classes.

The tables handle type labels only through dictionary look-ups and (in)equality tests, and positions only through
order comparisons; stored values are never inspected except for `is None`.  Their behaviour on any table is therefore
determined by the pattern of equalities among the labels involved (data independence), and an operation involves at
most two pairs of labels at a time.  The rules below execute the real methods in the abstract interpreter on a table
over the four concrete labels A,B,C,D, with stored values that are opaque heap objects with identity (plus a few
constants that are falsy but set: 0, '', [] -- and a numpy array), and read the resulting dictionary of dictionaries.
Nothing is matched against the spelling of the methods, so any refactoring that keeps the behaviour keeps the verdict.

A scenario the interpreter cannot execute makes the obligation UNDECIDED; the older shape-based rules in tables.py are
then used as the deciding rules for that obligation (see props.py).
"""
from .. import nf as N
from ..interp import (Interp, Const, Num, Arr, Seq, Obj, Unsupported, Raised, NeedDecision, NONE, TRUE, FALSE, const_num)
from ..model import AnalysisError

PT = 'pyPRISM.core.PairTable::PairTable'
VT = 'pyPRISM.core.ValueTable::ValueTable'
LABELS = ('A', 'B', 'C', 'D')


class World(object):
    def __init__(self, prog, qual, symmetric=True, labels=LABELS):
        self.ip = Interp(prog)
        self.cls = prog.cls(qual)
        self.labels = labels
        self.types = Seq([Const(l) for l in labels], 'list')
        kw = {}
        if qual == PT and symmetric is not True:
            kw['symmetric'] = Const(symmetric)
        self.t = self.ip.construct(self.cls, [self.types, Const('tbl')], kw)
        self.t.origin = 'self'
        self.pair = qual == PT

    def payload(self, tag):
        return Obj('payload', {'tag': Const(tag)})

    def key(self, *parts):
        def one(p):
            if isinstance(p, (list, tuple)):
                return Seq([Const(x) for x in p], 'list')
            return Const(p)
        if self.pair:
            return Seq([one(parts[0]), one(parts[1])])
        return one(parts[0])

    def call(self, name, *args, **kw):
        m = self.ip.find_method(self.t, name)
        if m is None:
            raise AnalysisError('%s.%s vanished' % (self.cls.name, name))
        return self.ip.call(m, list(args), dict(kw))

    def cells(self):
        try:
            v = self.ip.get_attr(self.t, 'values', None)          # plain attribute or property
        except Raised:
            v = None
        if not (isinstance(v, Obj) and v.cls == 'dict'):
            raise Unsupported('the table does not keep its entries in a dict named values')
        out = {}
        for a, row in v.attrs['items'].items():
            if self.pair:
                if not (isinstance(row, Obj) and row.cls == 'dict'):
                    raise Unsupported('row %r of the table is not a dict' % (a,))
                for b, x in row.attrs['items'].items():
                    out[(a, b)] = x
            else:
                out[a] = row
        return out


def ident(x):
    if isinstance(x, Obj):
        return ('obj', x.oid)
    if isinstance(x, Arr):
        return ('arr', x.aid)
    if isinstance(x, Const):
        return ('const', repr(x.v))
    if isinstance(x, Num):
        return ('num', N.show(x.t))
    if isinstance(x, Seq):
        return ('seq', id(x))
    return ('other', id(x))


def tag(x):
    if isinstance(x, Obj) and isinstance(x.attrs.get('tag'), Const):
        return x.attrs['tag'].v
    if isinstance(x, Const):
        return x.v
    return None


def is_none(x):
    return isinstance(x, Const) and x.v is None


def _guard(ctx, rule, construct, loc, fn):
    try:
        return fn()
    except (Unsupported, NeedDecision) as e:
        ctx.undecided(rule, construct, 'abstract execution of the real class not possible: %s' % e, loc)
    except Raised as e:
        ctx.violation(rule, construct, 'raises', 'a valid use raises %s: %s (at %s)' % (e.exc, e.msg, e.loc), loc)
    return None


# ---------------------------------------------------------------------------------------------------------------
def rule_setitem(ctx, rule='R14.c'):
    """assignment: every addressed cell gets its own deep copy (never the caller's object, never a copy shared with
    another pair), the mirrored cell holds the same object as its primary, nothing else changes; last write wins"""
    cls = ctx.prog.cls(PT)
    m = cls.find_method('__setitem__')
    construct = PT + '.__setitem__'

    def run():
        bad = []
        # (1) single key
        w = World(ctx.prog, PT)
        X = w.payload('X')
        w.call('__setitem__', w.key('A', 'B'), X)
        c = w.cells()
        if is_none(c[('A', 'B')]) or is_none(c[('B', 'A')]):
            bad.append("T['A','B'] = X does not fill both ('A','B') and ('B','A')")
        else:
            if c[('A', 'B')] is X or c[('B', 'A')] is X:
                bad.append("T['A','B'] = X stores the caller's object itself (no copy): later changes to X leak into the table")
            if c[('A', 'B')] is not c[('B', 'A')]:
                bad.append("('A','B') and ('B','A') hold different objects after one assignment: the two orders can diverge")
            if tag(c[('A', 'B')]) != 'X':
                bad.append('the stored value is not a copy of the assigned one')
        others = [k for k, v in c.items() if k not in (('A', 'B'), ('B', 'A')) and not is_none(v)]
        if others:
            bad.append("T['A','B'] = X also writes %s" % others)
        # (1b) a numpy array as value: stored as a copy (never the caller's array, whatever its memory layout), one per pair
        w = World(ctx.prog, PT)
        w.ip.declare('curve0', 'curve')
        A0 = Arr(N.sym('curve0'), 'caller_array', w.ip)
        w.call('__setitem__', w.key(['A', 'B'], ['C']), A0)
        c = w.cells()

        def root(v):
            while hasattr(v, 'base'):
                v = v.base
            return v
        got = [root(c[p]) for p in (('A', 'C'), ('B', 'C'))]
        if any(is_none(x) for x in got):
            bad.append('an array value is not stored')
        else:
            if any(x is A0 for x in got):
                bad.append("an ndarray value is stored without copying (the table holds the caller's own array: later in-place "
                           "changes on either side show up on the other)")
            elif got[0] is got[1]:
                bad.append('one ndarray copy is shared by several pairs')
        # (1c) a group of types handed over as a one-shot iterable (generator expression, filter(), map()): every named
        # pair is assigned -- the iterable is consumed exactly once on the way
        w = World(ctx.prog, PT)
        X = w.payload('X')
        w.call('__setitem__', Seq([Seq([Const('A'), Const('B')], 'generator'), Const('D')]), X)
        c = w.cells()
        left = [p_ for p_ in (('A', 'D'), ('B', 'D'), ('D', 'A'), ('D', 'B')) if is_none(c[p_])]
        if left:
            bad.append("T[(t for t in ['A','B']),'D'] = X leaves %s unset (a one-shot iterable key is exhausted before the "
                       "assignment loop runs)" % left)
        # (2) list keys: 2 x 2 pairs at once
        w = World(ctx.prog, PT)
        X = w.payload('X')
        w.call('__setitem__', w.key(['A', 'B'], ['C', 'D']), X)
        c = w.cells()
        prim = [('A', 'C'), ('A', 'D'), ('B', 'C'), ('B', 'D')]
        unset = [p for p in prim if is_none(c[p])]
        if unset:
            bad.append("T[['A','B'],['C','D']] = X leaves %s unset" % unset)
        else:
            ids = [ident(c[p]) for p in prim]
            if len(set(ids)) != len(ids):
                shared = [p for p in prim if ids.count(ident(c[p])) > 1]
                bad.append('pairs %s assigned in one statement share one stored object: mutating one changes the others' % shared)
            if any(c[p] is X for p in prim):
                bad.append("a list-key assignment stores the caller's object itself")
            for (a, b) in prim:
                if c[(b, a)] is not c[(a, b)]:
                    bad.append('mirror (%s,%s) does not hold the object of (%s,%s)' % (b, a, a, b))
                    break
        others = [k for k, v in c.items() if k not in prim and (k[1], k[0]) not in prim and not is_none(v)]
        if others:
            bad.append('a list-key assignment also writes %s' % others)
        # (2b) overlapping, non-square key lists, on a table that already holds other values: every addressed pair gets
        # the new value in both orders (last write wins), nothing else changes
        for k1, k2 in ((['A', 'B', 'C'], 'A'), (['A', 'B', 'C'], ['A', 'B']), ('C', ['A', 'B', 'C']), (['B', 'A'], ['A', 'B', 'D'])):
            w = World(ctx.prog, PT)
            w.call('__setitem__', w.key(list(LABELS), list(LABELS)), w.payload('old'))
            w.call('__setitem__', w.key(k1, k2), w.payload('new'))
            c = w.cells()
            l1 = k1 if isinstance(k1, list) else [k1]
            l2 = k2 if isinstance(k2, list) else [k2]
            addressed = {(a, b) for a in l1 for b in l2} | {(b, a) for a in l1 for b in l2}
            stale = sorted(p for p in addressed if tag(c[p]) != 'new')
            touched = sorted(p for p in c if p not in addressed and tag(c[p]) != 'old')
            if stale:
                bad.append('after T[%r,%r] = new (on a filled table) the pairs %s still hold the old value' % (k1, k2, stale[:4]))
            if touched:
                bad.append('T[%r,%r] = new also changes %s' % (k1, k2, touched[:4]))
            if not stale and any(c[(a, b)] is not c[(b, a)] for (a, b) in addressed):
                bad.append('after T[%r,%r] = new the two orders of some pair hold different objects' % (k1, k2))
        # (3) whole table, then an overwrite in the other order: last write wins for both orders
        w = World(ctx.prog, PT)
        w.call('__setitem__', w.key(list(LABELS), list(LABELS)), w.payload('X'))
        c = w.cells()
        if any(is_none(v) for v in c.values()):
            bad.append('T[types,types] = X leaves cells unset')
        else:
            byobj = {}
            for k, v in c.items():
                byobj.setdefault(ident(v), set()).add(tuple(sorted(k)))
            multi = [sorted(ps) for ps in byobj.values() if len(ps) > 1]
            if multi:
                bad.append('after T[types,types] = X the unordered pairs %s share one object' % multi[0])
            for (a, b), v in c.items():
                if v is not c[(b, a)]:
                    bad.append('after T[types,types] = X cells (%s,%s) and (%s,%s) hold different objects' % (a, b, b, a))
                    break
        w.call('__setitem__', w.key('D', 'B'), w.payload('Z'))
        c = w.cells()
        if tag(c[('B', 'D')]) != 'Z' or tag(c[('D', 'B')]) != 'Z' or c[('B', 'D')] is not c[('D', 'B')]:
            bad.append("after T['D','B'] = Z the pair reads %r / %r: the last assignment does not win for both orders"
                       % (tag(c[('B', 'D')]), tag(c[('D', 'B')])))
        if tag(c[('A', 'B')]) != 'X':
            bad.append("T['D','B'] = Z changed another pair")
        # (4) a non-symmetric table writes exactly the addressed cell
        w = World(ctx.prog, PT, symmetric=False)
        w.call('__setitem__', w.key('A', 'B'), w.payload('X'))
        c = w.cells()
        if is_none(c[('A', 'B')]) or not is_none(c[('B', 'A')]):
            bad.append('symmetric=False: assignment to (A,B) %s' % ('does not set it' if is_none(c[('A', 'B')]) else 'also sets (B,A)'))
        # (5) diagonal
        w = World(ctx.prog, PT)
        X = w.payload('X')
        w.call('__setitem__', w.key('C', 'C'), X)
        c = w.cells()
        if is_none(c[('C', 'C')]) or c[('C', 'C')] is X or [k for k, v in c.items() if k != ('C', 'C') and not is_none(v)]:
            bad.append("T['C','C'] = X does not store exactly one copy in the diagonal cell")
        return bad
    bad = _guard(ctx, rule, construct, m.loc(), run)
    if bad is None:
        return
    if bad:
        ctx.violation(rule, construct, 'copy-and-mirror', '; '.join(bad[:3]), m.loc())
    else:
        ctx.holds(rule, construct, 'own deep copy per addressed pair, mirrored cell is the same object, caller object never stored, '
                  'nothing else written, last write wins, symmetric=False writes one cell (5 scenarios on labels A-D)', m.loc())
        ctx.holds('R14.m', construct, 'mirrored write exactly when the table is symmetric and the labels differ', m.loc(), nontrivial=False)


def rule_getitem(ctx, rule='R14.g'):
    cls = ctx.prog.cls(PT)
    m = cls.find_method('__getitem__')
    construct = PT + '.__getitem__'

    def run():
        bad = []
        w = World(ctx.prog, PT, symmetric=False)
        w.call('__setitem__', w.key('A', 'B'), w.payload('AB'))
        w.call('__setitem__', w.key('B', 'A'), w.payload('BA'))
        w.call('__setitem__', w.key('B', 'B'), w.payload('BB'))
        c = w.cells()
        for k in (('A', 'B'), ('B', 'A'), ('B', 'B')):
            got = w.call('__getitem__', w.key(*k))
            if got is not c[k]:
                bad.append('T[%r,%r] returns %r, not the object stored in that cell' % (k[0], k[1], tag(got)))
        # site types may be any hashable -- integers that are not their own positions included: a key is a label, never an
        # index into the type list
        ints = (1, 2, 0)
        w = World(ctx.prog, PT, symmetric=False, labels=ints)
        for a in ints:
            for b in ints:
                w.call('__setitem__', w.key(a, b), w.payload('%d%d' % (a, b)))
        c = w.cells()
        for a in ints:
            for b in ints:
                try:
                    got = w.call('__getitem__', w.key(a, b))
                except Raised as e:
                    bad.append('types %s: T[%r,%r] raises %s' % (list(ints), a, b, e.exc))
                    continue
                if got is not c[(a, b)]:
                    bad.append('types %s: T[%r,%r] returns the entry %r, not the one stored under that pair of labels (an integer '
                               'label is taken for a position)' % (list(ints), a, b, tag(got)))
        return bad
    bad = _guard(ctx, rule, construct, m.loc(), run)
    if bad is None:
        return
    if bad:
        ctx.violation(rule, construct, 'getter', '; '.join(bad), m.loc())
    else:
        ctx.holds(rule, construct, 'returns the object stored in cell [t1][t2] (three cells of an asymmetric table)', m.loc())


def _order(w, res):
    out = []
    if not isinstance(res, Seq):
        raise Unsupported('iteration does not yield a sequence')
    for it in res.items:
        if not (isinstance(it, Seq) and len(it.items) == 3):
            raise Unsupported('iteration yields %r' % (it,))
        out.append(it.items)
    return out


def rule_iterpairs(ctx, rule='R14.i'):
    """iterpairs: each unordered pair once (default), each ordered pair (full=True), off-diagonal pairs only
    (diagonal=False), in type-list order, with the pair's own indices, labels and value"""
    cls = ctx.prog.cls(PT)
    m = cls.find_method('iterpairs')
    construct = PT + '.iterpairs'
    n = len(LABELS)
    want = {
        (False, True): [(i, j) for i in range(n) for j in range(n) if i <= j],
        (False, False): [(i, j) for i in range(n) for j in range(n) if i < j],
        (True, True): [(i, j) for i in range(n) for j in range(n)],
        (True, False): [(i, j) for i in range(n) for j in range(n)],
    }

    def run():
        bad = []
        w = World(ctx.prog, PT, symmetric=False)
        for a in LABELS:
            for b in LABELS:
                w.call('__setitem__', w.key(a, b), w.payload(a + b))
        c = w.cells()
        for (full, diag), pairs in want.items():
            res = w.call('iterpairs', full=Const(full), diagonal=Const(diag))
            got = []
            for ij, tt, val in _order(w, res):
                i, j = (int(x.t.const_value()) for x in ij.items)
                la, lb = (x.v for x in tt.items)
                got.append((i, j))
                if (la, lb) != (LABELS[i], LABELS[j]):
                    bad.append('full=%s,diagonal=%s: labels %s yielded with indices (%d,%d)' % (full, diag, (la, lb), i, j))
                elif val is not c[(la, lb)]:
                    bad.append('full=%s,diagonal=%s: the value yielded for (%s,%s) is not that pair\'s entry' % (full, diag, la, lb))
            if got != pairs:
                miss = [p for p in pairs if p not in got]
                extra = [p for p in got if p not in pairs]
                dup = sorted({p for p in got if got.count(p) > 1})
                bad.append('full=%s,diagonal=%s: visits %s%s%s%s' % (
                    full, diag, 'index pairs in another order' if sorted(got) == sorted(pairs) else '',
                    (' misses %s' % miss[:4]) if miss else '', (' also visits %s' % extra[:4]) if extra else '',
                    (' repeats %s' % dup[:3]) if dup else ''))
        res = w.call('iterpairs')
        if [tuple(int(x.t.const_value()) for x in it[0].items) for it in _order(w, res)] != want[(False, True)]:
            bad.append('the default iterpairs() is not "every unordered pair once"')
        return bad
    bad = _guard(ctx, rule, construct, m.loc(), run)
    if bad is None:
        return
    if bad:
        ctx.violation(rule, construct, 'iteration', '; '.join(sorted(set(bad))[:3]), m.loc())
    else:
        ctx.holds(rule, construct, 'default: i<=j; diagonal=False: i<j; full=True: all ordered pairs; type-list order; own labels and value '
                  '(4 flag valuations on a 4-type table)', m.loc())


def rule_setunset_check(ctx, rule='R14.u'):
    """setUnset fills exactly the entries that are None (entries holding 0, '', [] or an array are *set*), through the
    copying setter; check() raises ValueError exactly while some entry is None"""
    falsy = lambda w: [const_num(0), Const(''), Seq([], 'list')]
    for qual in (PT, VT):
        cls = ctx.prog.cls(qual)
        pair = qual == PT
        # ---- setUnset
        m = cls.find_method('setUnset')
        construct = qual + '.setUnset'

        def run_su():
            bad = []
            w = World(ctx.prog, qual)
            keys = [('A', 'B'), ('C', 'C'), ('B', 'D')] if pair else [('A',), ('B',), ('C',)]
            vals = falsy(w)
            for k, v in zip(keys, vals):
                w.call('__setitem__', w.key(*k), v)
            if pair:
                # a pair named in the other orientation is the same (symmetric) entry: assigned, not unset
                w.call('__setitem__', w.key('D', 'A'), w.payload('P'))
            before = {k: ident(v) for k, v in w.cells().items()}
            W_ = w.payload('W')
            w.call('setUnset', W_)
            c = w.cells()
            for k, v in c.items():
                was = before[k]
                if was != ident(NONE):
                    if ident(v) != was:
                        bad.append('setUnset overwrites entry %s, which had been assigned (a value that is falsy but set)' % (k,))
                else:
                    if is_none(v):
                        bad.append('setUnset leaves entry %s unset' % (k,))
                    elif tag(v) != 'W':
                        bad.append('setUnset stores %r in %s' % (tag(v), k))
                    elif pair and v is W_:
                        bad.append('setUnset stores the caller\'s object itself in %s (bypasses the copying setter)' % (k,))
            if pair:
                filled = {}
                for k, v in c.items():
                    if before[k] == ident(NONE) and not is_none(v):
                        filled.setdefault(ident(v), set()).add(tuple(sorted(k)))
                multi = [sorted(ps) for ps in filled.values() if len(ps) > 1]
                if multi:
                    bad.append('pairs %s filled by setUnset share one object' % multi[0])
                for (a, b), v in c.items():
                    if before[(a, b)] == ident(NONE) and v is not c[(b, a)]:
                        bad.append('setUnset fills (%s,%s) and (%s,%s) with different objects' % (a, b, b, a))
                        break
            return bad
        bad = _guard(ctx, 'R14.u', construct, m.loc(), run_su)
        if bad is not None:
            if bad:
                ctx.violation('R14.u', construct, 'setUnset', '; '.join(sorted(set(bad))[:3]), m.loc())
            else:
                ctx.holds('R14.u', construct, 'fills exactly the None entries (0, \'\' and [] count as set) %s'
                          % ('with independent copies, mirrored' if pair else ''), m.loc())
        # ---- check
        m = cls.find_method('check')
        construct = qual + '.check'

        def run_ck():
            bad = []

            def outcome(w):
                try:
                    w.call('check')
                    return None
                except Raised as e:
                    return e.exc
            allkeys = [(a, b) for i, a in enumerate(LABELS) for b in LABELS[i:]] if pair else [(a,) for a in LABELS]
            # complete tables: objects, falsy constants, arrays
            for what, mk in (('opaque objects', lambda w, i: w.payload('v%d' % i)), ('zeros', lambda w, i: const_num(0)),
                             ('empty strings', lambda w, i: Const('')),
                             ('numpy arrays', lambda w, i: Arr(N.sym('arr%d' % i), None, w.ip))):
                w = World(ctx.prog, qual)
                for i in range(4):
                    w.ip.declare('arr%d' % i, 'curve')
                for i, k in enumerate(allkeys):
                    w.call('__setitem__', w.key(*k), mk(w, i % 4))
                r = outcome(w)
                if r is not None:
                    bad.append('check() raises %s on a fully specified table of %s' % (r, what))
            if pair:
                # the same complete table with every pair named in the other orientation (b,a)
                w = World(ctx.prog, qual)
                for i, k in enumerate(allkeys):
                    w.call('__setitem__', w.key(*reversed(k)), w.payload('v%d' % (i % 4)))
                r = outcome(w)
                if r is not None:
                    bad.append('check() raises %s on a fully specified table whose pairs were assigned as (b,a) rather than (a,b)' % r)
            # exactly one entry missing, every position
            for miss in allkeys:
                w = World(ctx.prog, qual)
                for i, k in enumerate(allkeys):
                    if k != miss:
                        w.call('__setitem__', w.key(*k), w.payload('v'))
                r = outcome(w)
                if r is None:
                    bad.append('check() accepts a table whose only unset entry is %s' % (miss,))
                elif r != 'ValueError':
                    bad.append('check() raises %s, not ValueError, when %s is unset' % (r, miss))
            w = World(ctx.prog, qual)
            r = outcome(w)
            if r != 'ValueError':
                bad.append('check() on an empty table: %s' % (r or 'no exception'))
            # labels are any hashable: the same with integer site types (a message built with str.join over the labels
            # raises TypeError instead of the promised ValueError)
            ints = (11, 22, 33)
            ikeys = [(a, b) for i, a in enumerate(ints) for b in ints[i:]] if pair else [(a,) for a in ints]
            for miss in ikeys[:2] + ikeys[-1:]:
                w = World(ctx.prog, qual, labels=ints)
                for k in ikeys:
                    if k != miss:
                        w.call('__setitem__', w.key(*k), w.payload('v'))
                r = outcome(w)
                if r != 'ValueError':
                    bad.append('integer site types %s: check() %s when %s is unset (ValueError required)'
                               % (list(ints), 'passes' if r is None else 'raises ' + r, miss))
            w = World(ctx.prog, qual, labels=ints)
            for k in ikeys:
                w.call('__setitem__', w.key(*k), w.payload('v'))
            r = outcome(w)
            if r is not None:
                bad.append('integer site types: check() raises %s on a fully specified table' % r)
            # histories with re-assignments and overwrites: one entry assigned as often as the table has entries, the
            # others never (a bookkeeping counter instead of looking at the values is fooled by this)
            w = World(ctx.prog, qual)
            for i in range(len(allkeys) * (2 if pair else 1) + 1):
                w.call('__setitem__', w.key(*allkeys[0]), w.payload('again%d' % i))
            r = outcome(w)
            if r != 'ValueError':
                bad.append('check() %s after one entry was assigned %d times while all others are unset'
                           % ('passes' if r is None else 'raises ' + r, len(allkeys) * (2 if pair else 1) + 1))
            # list-key assignment followed by corrections, one entry left out
            w = World(ctx.prog, qual)
            some = allkeys[:-1]
            for k in some:
                w.call('__setitem__', w.key(*k), w.payload('v'))
            for k in some[:2]:
                w.call('__setitem__', w.key(*k), w.payload('w'))
            r = outcome(w)
            if r != 'ValueError':
                bad.append('check() %s although %s was never assigned (other entries were re-assigned)'
                           % ('passes' if r is None else 'raises ' + r, allkeys[-1]))
            return bad
        bad = _guard(ctx, 'R14.k', construct, m.loc(), run_ck)
        if bad is not None:
            if bad:
                ctx.violation('R14.k', construct, 'check', '; '.join(sorted(set(bad))[:3]), m.loc())
            else:
                ctx.holds('R14.k', construct, 'ValueError exactly while some entry is None (%d single-omission tables, 4 complete tables '
                          'incl. falsy values and arrays)' % (10 if pair else 4), m.loc())


def rule_valuetable(ctx, rule='R14.v'):
    """ValueTable: assignment by single key and by list of keys stores the value under every listed type and nowhere
    else; reading returns it; iteration yields (index, type, value) in type-list order"""
    cls = ctx.prog.cls(VT)
    m = cls.find_method('__setitem__')
    construct = VT + '.__setitem__'

    def run():
        bad = []
        w = World(ctx.prog, VT)
        X, Y = w.payload('X'), w.payload('Y')
        w.call('__setitem__', w.key(['A', 'C']), X)
        w.call('__setitem__', w.key('B'), Y)
        c = w.cells()
        if tag(c['A']) != 'X' or tag(c['C']) != 'X' or tag(c['B']) != 'Y' or not is_none(c['D']):
            bad.append('after T[[A,C]] = X; T[B] = Y the table holds %s' % {k: tag(v) for k, v in c.items()})
        for k in ('A', 'B', 'C'):
            if w.call('__getitem__', w.key(k)) is not c[k]:
                bad.append('T[%r] does not return the stored value' % k)
        w.call('__setitem__', w.key('A'), w.payload('Z'))
        if tag(w.cells()['A']) != 'Z' or tag(w.cells()['C']) != 'X':
            bad.append('re-assignment of one type does not replace exactly that entry')
        res = w.call('__iter__')
        got = [(int(it[0].t.const_value()), it[1].v, it[2]) for it in _order(w, res)]
        c = w.cells()
        if [(i, l) for i, l, _ in got] != list(enumerate(LABELS)) or any(v is not c[l] for _, l, v in got):
            bad.append('iteration does not yield (index, type, value) in type-list order: %s' % [(i, l, tag(v)) for i, l, v in got])
        return bad
    bad = _guard(ctx, rule, construct, m.loc(), run)
    if bad is None:
        return
    if bad:
        ctx.violation(rule, construct, 'valuetable', '; '.join(bad[:3]), m.loc())
    else:
        ctx.holds(rule, construct, 'single and list keys, re-assignment, getter and iteration order (labels A-D)', m.loc())


def rule_apply(ctx, rule='R14.a'):
    """apply(func, inplace=False) returns a new table (same types/name/symmetric) whose every pair holds func(own value),
    isolated from the original even when func returns its argument; inplace=True updates self"""
    cls = ctx.prog.cls(PT)
    m = cls.find_method('apply')
    construct = PT + '.apply'
    from ..interp import Native

    def run():
        bad = []
        for inplace in (False, True):
            w = World(ctx.prog, PT)
            allkeys = [(a, b) for i, a in enumerate(LABELS) for b in LABELS[i:]]
            for k in allkeys:
                w.call('__setitem__', w.key(*k), w.payload(''.join(k)))
            before = {k: v for k, v in w.cells().items()}
            seen = []

            def ident_fn(ip2, s_, a_, k_, n_):
                seen.append(a_[0])
                return a_[0]                    # the adversarial func: returns its very argument
            res = w.call('apply', Native('func', ident_fn), inplace=Const(inplace))
            after = w.cells()
            if not (isinstance(res, Obj) and res.isa('PairTable')):
                bad.append('inplace=%s: does not return a PairTable' % inplace)
                continue
            if inplace:
                if res is not w.t:
                    bad.append('inplace=True does not return the table itself')
                continue
            if res is w.t:
                bad.append('inplace=False returns the original table')
                continue
            for k, v in after.items():
                if v is not before[k]:
                    bad.append('inplace=False changes entry %s of the original table' % (k,))
                    break
            try:
                rv = w.ip.get_attr(res, 'values', None)
            except Raised:
                rv = None
            rc = {(a, b): x for a, row in rv.attrs['items'].items() for b, x in row.attrs['items'].items()}
            for k, v in rc.items():
                if is_none(v):
                    bad.append('inplace=False: pair %s of the new table is unset' % (k,))
                    break
                if tag(v) != ''.join(sorted(k)):
                    bad.append('inplace=False: pair %s of the new table holds the value of %r' % (k, tag(v)))
                    break
                if any(v is o for o in before.values()):
                    bad.append('inplace=False: pair %s of the new table IS an object of the original table (func returned its '
                               'argument and the result was stored without a copy): editing one edits the other' % (k,))
                    break
            for a in ('types', 'name', 'symmetric'):
                x, y = res.attrs.get(a), w.t.attrs.get(a)
                if not (x is y or (isinstance(x, Const) and isinstance(y, Const) and x.v == y.v)):
                    bad.append('new table has another %s' % a)
            if len(seen) < len(allkeys):
                bad.append('func is applied to %d of the %d unordered pairs' % (len(seen), len(allkeys)))
        return bad
    bad = _guard(ctx, rule, construct, m.loc(), run)
    if bad is None:
        return
    if bad:
        ctx.violation(rule, construct, 'apply', '; '.join(sorted(set(bad))[:3]), m.loc())
    else:
        ctx.holds(rule, construct, 'inplace=False: new table, every pair = func(own value), isolated from the original even for the '
                  'identity func; inplace=True returns self', m.loc())
