"""Rules R01.* (the cost function is the PRISM/closure self-consistency map; solve leaves the arrays of the
returned root) and R16.* (a PRISM object is a faithful, isolated snapshot of a fully specified System)."""
import ast
from .. import nf as N
from .. import pw as P
from .. import worlds as W
from .. import natives as NAT
from .. import series as S
from .. import lib as L
from ..flow import Flow, norm, call_name
from ..interp import (Interp, Arr, Num, View, Const, Obj, Seq, Types, Label, Unsupported, Raised, NONE, TRUE, FALSE,
                      explore, relabel)
from ..model import AnalysisError

PRISMQ = 'pyPRISM.core.PRISM::PRISM'
SYSQ = 'pyPRISM.core.System::System'


def table_elems():
    return {'potential': NAT.ElemFactory('potential', 'sys.potential', NAT.make_potential),
            'closure': NAT.ElemFactory('closure', 'sys.closure', NAT.make_closure),
            'omega': NAT.ElemFactory('omega', 'sys.omega', NAT.make_omega)}


def build_prism(prog, preset=()):
    """abstractly execute PRISM(sys) on a fully specified symbolic System"""
    ip = Interp(prog)
    ip.preset = list(preset)
    NAT.install_containers(ip)
    NAT.install_elements(ip)
    sysobj = W.system_world(ip, 'sys', table_elems())
    cls = prog.cls(PRISMQ)
    e0 = len(ip.events)
    pr = ip.construct(cls, [sysobj], {})
    return ip, {'sys': sysobj, 'PRISM': pr, 'events': ip.events[e0:]}


def reachable(v, seen=None, acc=None):
    """all heap cells (Arr) and objects reachable from a value"""
    seen = set() if seen is None else seen
    acc = {'arr': [], 'obj': []} if acc is None else acc
    if isinstance(v, Obj):
        if v.oid in seen:
            return acc
        seen.add(v.oid)
        acc['obj'].append(v)
        for k, x in v.attrs.items():
            if k == '_native_elem' and hasattr(x, 'cache'):
                for o in x.cache.values():
                    reachable(o, seen, acc)
            elif k == '_native_store':
                for rec in x:
                    reachable(rec.get('value'), seen, acc)
            else:
                reachable(x, seen, acc)
    elif isinstance(v, Arr):
        if ('a', v.aid) not in seen:
            seen.add(('a', v.aid))
            acc['arr'].append(v)
    elif isinstance(v, View):
        reachable(v.base, seen, acc)
    elif isinstance(v, Seq):
        for x in v.items:
            reachable(x, seen, acc)
    elif isinstance(v, dict):          # the contents of a dict object
        for x in v.values():
            reachable(x, seen, acc)
    return acc


# ---------------------------------------------------------------------------------------------
# C16
# ---------------------------------------------------------------------------------------------
def _delegated(ctx, rule, construct, m, exc, clause):
    """The constructor keeps state between the iterations of its pair loop (a dictionary created before the loop and read and
    written inside it): one symbolic iteration cannot represent that, so this rule's extraction does not apply.  The same
    clauses are decided by R16.v, which executes the real constructor on concrete two-component Systems; when that holds
    the obligation is recorded as held by delegation (an assumption: what holds for every pair of two types holds for every
    pair of n), otherwise it stays undecided here and R16.v reports."""
    if 'carried from one iteration to the next' not in str(exc):
        return False
    from . import prism_sem
    bad, und = prism_sem.verdict(ctx.prog)
    if bad or und:
        ctx.undecided(rule, construct, '%s (and R16.v on concrete types: %s)' % (exc, (bad or und)[0][:120]), m.loc())
    else:
        ctx.holds(rule, construct, 'the pair loop carries state between iterations, so the symbolic single-iteration extraction does '
                  'not apply; %s decided by R16.v on concrete two-component Systems (fresh and re-used)' % clause, m.loc(),
                  key='delegated', nontrivial=False)
    return True


def rule_copy_and_frame(ctx, rule='R16.c'):
    """PRISM.__init__ works on a deep copy: nothing reachable from the caller's System is written or retained"""
    cls = ctx.prog.cls(PRISMQ)
    m = cls.find_method('__init__')
    construct = PRISMQ + '.__init__'
    try:
        worlds = explore(lambda preset: build_prism(ctx.prog, preset))
    except Unsupported as e:
        if _delegated(ctx, rule, construct, m, e, 'isolation'):
            return
        raise
    bad = []
    for d, ip, r in worlds:
        for e in r['events']:
            tgt = e['target'] or ''
            if e['kind'] in ('write', 'bind', 'transform') and (tgt == 'sys' or tgt.startswith('sys.') or tgt.startswith('sys[')):
                bad.append('%s of the caller\'s %s at %s' % (e['kind'], tgt, e['loc']))
            if e['kind'] == 'unknown-call':
                bad.append('unknown call %s' % tgt)
        mine = reachable(r['PRISM'])
        theirs = reachable(r['sys'])
        shared_a = [a for a in mine['arr'] if any(a is b for b in theirs['arr'])]
        shared_o = [o for o in mine['obj'] if any(o is b for b in theirs['obj'])]
        for a in shared_a:
            bad.append('the PRISM object retains the caller\'s array %s' % a.origin)
        for o in shared_o:
            bad.append('the PRISM object retains the caller\'s object %s' % (o.origin or o.clsname))
        if r['PRISM'].attrs.get('sys') is r['sys']:
            bad.append('self.sys is the caller\'s System itself')
    if bad:
        ctx.violation(rule, construct, 'isolation', '; '.join(sorted(set(bad))[:6]), m.loc())
    else:
        ctx.holds(rule, construct, 'self.sys is a deep copy; no write to and no retained mutable alias of the caller\'s System '
                  '(%d cases of potential sigma set/unset); only the immutable-by-convention type list is shared' % len(worlds), m.loc(),
                  sample={'worlds': len(worlds)})


def rule_wiring(ctx, rule='R16.w'):
    """each pair's closure sees that pair's potential on the r grid divided by kT and that pair's contact distance;
    U.sigma defaulted only when None; omega evaluated on the k grid, exported in Fourier space, scaled by site density"""
    cls = ctx.prog.cls(PRISMQ)
    m = cls.find_method('__init__')
    construct = PRISMQ + '.__init__'
    try:
        worlds = explore(lambda preset: build_prism(ctx.prog, preset))
    except Unsupported as e:
        if _delegated(ctx, rule, construct, m, e, 'wiring'):
            return
        raise
    seen_unset = set()
    bad = []
    sample = None
    for d, ip, r in worlds:
        pr = r['PRISM']
        psys = pr.attrs.get('sys')
        if not (isinstance(psys, Obj) and psys.isa('System')):
            bad.append('self.sys is not a System')
            continue
        loops = [c for k, c in ip.notes if k == 'pairloop' and c.get('kind') == 'PairTable.iterpairs']
        if not loops:
            bad.append('no loop over the pair tables')
            continue
        lp = loops[0]
        a, b = lp['labels']
        cov = ip.coverage([lp], a, b)
        if cov != 'unordered-all':
            bad.append('closure/potential wiring visits pairs: %s (expected every unordered pair incl. the diagonal)' % cov)
        clo = psys.attrs['closure'].attrs['_native_elem'](ip, a, b, None)
        pot = psys.attrs['potential'].attrs['_native_elem'](ip, a, b, None)
        ca, cb = sorted((a, b))
        sig = N.NF.atom(('fn', 'sig', ca, cb))
        unset = ip.decided.get(P.Cond.flag('potential(%s,%s).sigma is None' % (ca, cb)).key())
        seen_unset.add(unset)
        usig = sig if unset else N.NF.atom(('fn', 'usig', ca, cb))
        # potential sigma
        ps = pot.attrs.get('sigma')
        if not (isinstance(ps, Num) and not P.is_pw(ps.t) and ps.t.equals(usig)):
            bad.append('potential sigma (initially %s) is %r after construction, expected %s'
                       % ('None' if unset else 'given', ps, N.show(usig)))
        cs = clo.attrs.get('sigma')
        if not (isinstance(cs, Num) and not P.is_pw(cs.t) and cs.t.equals(sig)):
            bad.append('closure(%s,%s).sigma is %r, expected the contact distance of the same pair' % (ca, cb, cs))
        cp = clo.attrs.get('potential')
        want = N.fn('Ucalc', ca, cb, usig, N.sym('r')) / N.sym('kT')
        got = W.attr_term(ip, cp)
        if got is None or P.is_pw(got) or not got.equals(want):
            bad.append('closure(%s,%s).potential is %s, expected potential(%s,%s).calculate(domain.r)/kT'
                       % (ca, cb, P.show(got) if got is not None else cp, ca, cb))
        # omega
        om = pr.attrs.get('omega')
        if not (isinstance(om, Obj) and om.isa('MatrixArray')):
            bad.append('self.omega is not a MatrixArray')
        else:
            ot = W.attr_term(ip, om.attrs['data'])
            wo = N.fn('tab', N.fn('omega', '@a', '@b', N.sym('k'))) * N.sym('rho_site')
            if ot is None or P.is_pw(ot) or not ot.equals(wo):
                bad.append('self.omega.data is %s, expected omega(pair).calculate(domain.k) for every pair times site density'
                           % (P.show(ot) if ot is not None else om.attrs['data']))
            sp = om.attrs.get('space')
            if not (isinstance(sp, Const) and sp.v == ('Space', 'Fourier')):
                bad.append('self.omega is flagged %r' % (getattr(sp, 'v', sp),))
        sample = {'closure.potential': P.show(got) if got is not None else None,
                  'omega.data': P.show(ot) if isinstance(om, Obj) else None}
        # declared spaces of the work arrays
        for nm, want_sp in (('directCorr', 'Real'), ('totalCorr', 'Fourier')):
            ma = pr.attrs.get(nm)
            sp = ma.attrs.get('space') if isinstance(ma, Obj) else None
            if not (isinstance(sp, Const) and sp.v == ('Space', want_sp)):
                bad.append('self.%s is constructed with space %r' % (nm, getattr(sp, 'v', sp)))
    if seen_unset != {True, False}:
        bad.append('sigma defaulting not exercised in both cases (explicit / None): %s' % seen_unset)
    if bad:
        ctx.violation(rule, construct, 'wiring', '; '.join(sorted(set(bad))[:6]), m.loc())
    else:
        ctx.holds(rule, construct, 'closure[a,b].sigma = diameter[a,b]; closure[a,b].potential = potential[a,b](r)/kT; '
                  'potential sigma defaulted only when None; omega = table(k) in Fourier space x site density; every unordered pair',
                  m.loc(), sample=sample)


def _system_obj(ip, complete=True, domain=True):
    """System built by its own __init__ (so that every table the class creates is seen), then populated"""
    cls = ip.prog.cls(SYSQ)
    types = Types()
    o = ip.construct(cls, [types], {})
    o.origin = 'self'
    if domain:
        o.attrs['domain'] = W.symbolic_domain(ip, 'self.domain')
    for k, v in o.attrs.items():
        if isinstance(v, Obj) and v.origin is None:
            v.origin = 'self.' + k
    return o


def rule_system_check(ctx, rule='R16.x'):
    """System.check covers every table System.__init__ creates and refuses a missing domain; createPRISM and solve
    call it before PRISM(self)"""
    cls = ctx.prog.cls(SYSQ)
    m = cls.find_method('check')
    construct = SYSQ + '.check'
    ip = Interp(ctx.prog)
    NAT.install_containers(ip)
    NAT.install_elements(ip)
    o = _system_obj(ip)
    tables = sorted(k for k, v in o.attrs.items() if isinstance(v, Obj) and ip.find_method(v, 'check') is not None)
    worlds = explore(lambda preset: _run_check(ctx.prog, preset, True), keep_raised=True)
    checked = set()
    for d, ip2, r in worlds:
        if ip2 is None:
            ctx.violation(rule, construct, 'raises', 'check raises %s on a fully specified system' % r, m.loc())
            return
        checked |= {x['table'] for k, x in ip2.notes if k == 'check'}
    # Density/Diameter delegate to their ValueTable named density/diameter
    missing = [t for t in tables if t not in checked]
    if missing:
        ctx.violation(rule, construct, 'missing-table:' + ','.join(missing),
                      'tables created by System.__init__ but not checked: %s (checked: %s)' % (missing, sorted(checked)), m.loc())
    else:
        ctx.holds(rule, construct, 'all %d tables created by System.__init__ are checked: %s' % (len(tables), tables), m.loc(),
                  sample={'tables': tables})
    # missing domain
    w2 = explore(lambda preset: _run_check(ctx.prog, preset, False), keep_raised=True)
    if w2 and all(ip2 is None and r.exc == 'ValueError' for d, ip2, r in w2):
        ctx.holds(rule, construct, 'domain None -> ValueError', m.loc(), key='domain')
    else:
        ctx.violation(rule, construct, 'domain', 'a System without a domain is not refused with ValueError', m.loc())
    # writes
    bad = []
    for d, ip2, r in worlds:
        for e in ip2.events:
            if e['kind'] in ('write', 'bind', 'transform') and (e['target'] or '').startswith('self'):
                bad.append('%s %s at %s' % (e['kind'], e['target'], e['loc']))
    if bad:
        ctx.violation('R16.s', construct, 'writes', 'check modifies the System: %s' % sorted(set(bad))[:4], m.loc())
    else:
        ctx.holds('R16.s', construct, 'check writes nothing', m.loc(), nontrivial=False)


def _run_check(prog, preset, domain):
    ip = Interp(prog)
    ip.preset = list(preset)
    NAT.install_containers(ip)
    NAT.install_elements(ip)
    o = _system_obj(ip, domain=domain)
    # per-type tables answer with symbolic values
    for nm, fn_ in (('diameter', 'dia'), ):
        d = o.attrs.get(nm)
        if isinstance(d, Obj):
            for k, v in d.attrs.items():
                if isinstance(v, Obj) and v.isa('ValueTable'):
                    v.attrs['_native_elem'] = (lambda f: (lambda ip2, t, n: Num(N.NF.atom(('fn', f, ip2.canon_label(t))))))(k)
                if isinstance(v, Obj) and v.isa('PairTable'):
                    v.attrs['_native_elem'] = lambda ip2, a, b, n: Num(N.NF.atom(('fn', 'sig') + tuple(sorted((a, b)))))
    ip.call(ip.find_method(o, 'check'), [], {})
    return ip, o


def _run_entry(prog, name, check_raises):
    """abstract execution of System.createPRISM / System.solve with `check` and the PRISM constructor replaced by
    recording stubs (what they do themselves is R16.x / R16.c / R16.w)"""
    from ..interp import Native
    ip = Interp(prog)
    cls = prog.cls(SYSQ)
    o = Obj(cls, {'types': Types(), 'kT': Num(ip.declare('kT'))}, 'self')
    log = []

    def check(ip2, s_, a_, k_, n_):
        log.append(('check', s_ is o))
        if check_raises:
            raise Raised('ValueError', 'not fully specified', ip2.loc(n_))
        return NONE
    ip.natives[('System', 'check')] = check
    stub = Obj('prism-stub', {})

    def prism_new(ip2, cls_, a_, k_, n_):
        vals = list(a_) + list(k_.values())
        log.append(('construct', len(vals) == 1 and vals[0] is o, sorted(k_)))
        return stub
    ip.natives[('PRISM', '__new__')] = prism_new

    def stub_solve(ip2, s_, a_, k_, n_):
        log.append(('solve', list(a_), dict(k_)))
        return Obj('OptimizeResult', {})
    ip.natives[('prism-stub', 'solve')] = stub_solve
    ip.declare('g0', 'curve')
    guess = Arr(N.sym('g0'), 'guess', ip)
    args, kwargs = ([], {})
    if name == 'solve':
        args, kwargs = [guess], {'method': Const('hybr')}
    e0 = len(ip.events)
    res = ip.call(ip.find_method(o, name), args, kwargs)
    return ip, {'res': res, 'log': log, 'stub': stub, 'guess': guess, 'events': ip.events[e0:], 'obj': o}


def rule_check_dominates(ctx, rule='R16.d'):
    """createPRISM and solve: self.check() runs first on every path, a failing check propagates as ValueError before any
    PRISM object is constructed, the PRISM object is constructed from this System itself, solve forwards its arguments
    to PRISM.solve and returns the PRISM object, nothing is written to the System (abstract execution with check and the
    PRISM constructor replaced by recording stubs)"""
    cls = ctx.prog.cls(SYSQ)
    for name in ('createPRISM', 'solve'):
        m = cls.find_method(name)
        construct = '%s.%s' % (SYSQ, name)
        bad = []
        try:
            # (a) check passes
            for d, ip, r in explore(lambda preset, name=name: _with_preset(ctx.prog, name, False, preset), keep_raised=True):
                if ip is None:
                    bad.append('raises %s on a fully specified system' % r)
                    continue
                kinds = [x[0] for x in r['log']]
                if 'construct' not in kinds:
                    bad.append('no PRISM object is constructed')
                    continue
                ci = kinds.index('construct')
                if 'check' not in kinds[:ci]:
                    bad.append('the PRISM object is constructed before / without self.check()')
                if not r['log'][ci][1]:
                    bad.append('the PRISM object is not constructed from this System itself')
                if not all(x[1] for x in r['log'] if x[0] == 'check'):
                    bad.append('check is called on another object')
                if r['res'] is not r['stub']:
                    bad.append('does not return the PRISM object it constructed')
                if name == 'solve':
                    sv = [x for x in r['log'] if x[0] == 'solve']
                    if len(sv) != 1 or kinds.index('solve') < ci:
                        bad.append('PRISM.solve is not called exactly once after the construction')
                    elif not (len(sv[0][1]) == 1 and sv[0][1][0] is r['guess'] and set(sv[0][2]) == {'method'}):
                        bad.append('arguments are not forwarded unchanged to PRISM.solve')
                for e in r['events']:
                    if e['kind'] in ('write', 'bind') and (e['target'] or '').startswith('self'):
                        bad.append('%s writes the System (%s at %s)' % (name, e['target'], e['loc']))
            # (b) check refuses
            for d, ip, r in explore(lambda preset, name=name: _with_preset(ctx.prog, name, True, preset), keep_raised=True):
                if ip is not None:
                    bad.append('a System whose check() raises ValueError still yields a result')
                elif r.exc != 'ValueError':
                    bad.append('a failing check surfaces as %s, not ValueError' % r.exc)
        except Unsupported as e:
            ctx.undecided(rule, construct, str(e), m.loc())
            continue
        if bad:
            ctx.violation(rule, construct, 'check-first', '; '.join(sorted(set(bad))), m.loc())
        else:
            ctx.holds(rule, construct, 'check() first on every path; refusal propagates as ValueError before any construction; '
                      'PRISM built from this System; no store to self', m.loc())


def _with_preset(prog, name, check_raises, preset):
    ip, r = _run_entry(prog, name, check_raises)
    return ip, r


# ---------------------------------------------------------------------------------------------
# C01
# ---------------------------------------------------------------------------------------------
def run_cost(prog, preset=()):
    ip, r = build_prism(prog, preset)
    pr = r['PRISM']
    ip.declare('x', 'curve')
    x = Arr(N.sym('x'), 'x', ip)
    e0 = len(ip.events)
    ret = ip.call(ip.find_method(pr, 'cost'), [x], {})
    r.update({'x': x, 'ret': ret, 'cost_events': ip.events[e0:]})
    return ip, r


def _cost_world(prog):
    """the world in which every potential has an explicit sigma (the other cases differ only in __init__)"""
    ws = explore(lambda preset: run_cost(prog, preset))
    if not ws:
        raise Unsupported('cost could not be analysed')
    return ws


def rule_cost(ctx, rules=('R01.a', 'R01.b', 'R01.c', 'R01.e')):
    cls = ctx.prog.cls(PRISMQ)
    m = cls.find_method('cost')
    construct = PRISMQ + '.cost'
    ws = _cost_world(ctx.prog)
    d, ip, r = ws[0]
    pr = r['PRISM']
    # ---- R01.a input isolation
    bad = ['%s to the solver\'s vector at %s (%s)' % (e['kind'], e['loc'], e.get('via')) for e in r['cost_events']
           if e['kind'] == 'write' and e['target'] == 'x']
    gi = pr.attrs['GammaIn'].attrs['data']
    base = gi.base if isinstance(gi, View) else gi
    if base is r['x']:
        bad.append('GammaIn.data is (a view of) the solver\'s vector')
    if bad:
        ctx.violation('R01.a', construct, 'writes-x', '; '.join(bad), m.loc())
    else:
        ctx.holds('R01.a', construct, 'the solver\'s vector is copied before it is scaled: no write through x', m.loc())
    # ---- R01.b closure wiring
    calls = [c for k, c in ip.notes if k == 'closure-calculate']
    loops = [c for k, c in ip.notes if k == 'pairloop' and c.get('kind') == 'PairTable.iterpairs']
    bad = []
    if len(calls) != 1:
        bad.append('expected one closure evaluation per pair, found %d' % len(calls))
    else:
        c = calls[0]
        a, b = c['pair']
        want_gamma = ip.entry_of(L.reshape_term(ip, N.sym('x'), 'unflat', None), a, b) / N.sym('r')
        if not c['grid'].equals(N.sym('r')):
            bad.append('closure evaluated on %s, not on the r grid' % N.show(c['grid']))
        if not c['gamma'].equals(want_gamma):
            bad.append('closure(%s,%s) receives gamma = %s, expected the (%s,%s) block of x divided by r' % (a, b, N.show(c['gamma']), a, b))
        stores = [s for lp in loops for s in lp['stores'] if s['kind'] == 'ma']
        mine = [s for s in stores if s['obj'] is pr.attrs['directCorr'] or s['arr'] is pr.attrs['directCorr'].attrs.get('data')]
        okstore = [s for s in stores if tuple(sorted(s['labels'])) == tuple(sorted((a, b)))]
        if not okstore:
            bad.append('the closure value of pair (%s,%s) is not stored under the same pair' % (a, b))
        covs = {s.get('coverage') for s in okstore}
        if covs - {'unordered-all'}:
            bad.append('closure loop covers pairs %s, expected every unordered pair' % covs)
        if isinstance(c['potential'], str):
            bad.append('closure potential not set')
        # what the matrix algebra consumes as C must be the Fourier transform of exactly these closure values
        Cterm = W.attr_term(ip, pr.attrs['directCorr'].attrs['data'])
        ok_c = False
        if Cterm is not None and not P.is_pw(Cterm) and Cterm.is_monomial():
            (mono, coef), = Cterm.num.items()
            if coef == 1 and len(mono) == 1 and mono[0][1] == 1 and mono[0][0][0] == 'fn' and mono[0][0][1] == 'toF':
                inner = N.nf_from_key(mono[0][0][2])
                if inner.is_monomial():
                    (m2, c2), = inner.num.items()
                    if c2 == 1 and len(m2) == 1 and m2[0][1] == 1 and m2[0][0][0] == 'fn' and m2[0][0][1] == 'tab':
                        body = N.nf_from_key(m2[0][0][2])
                        atoms = [a_ for a_ in body.atoms()]
                        ok_c = body.is_monomial() and len(atoms) == 1 and atoms[0][0] == 'fn' and atoms[0][1] == 'Cl' and \
                            list(body.num.values())[0] == 1
        if not ok_c:
            bad.append('directCorr as used by the matrix algebra is %s, not the Fourier transform of the closure values of '
                       'every pair' % (N.show(Cterm)[:160] if Cterm is not None else None))
    if bad:
        ctx.violation('R01.b', construct, 'closure-wiring', '; '.join(bad), m.loc())
    else:
        ctx.holds('R01.b', construct, 'directCorr[a,b] = closure[a,b].calculate(r, GammaIn[a,b]) for every unordered pair, '
                  'GammaIn = unflatten(x)/r', m.loc(), sample={'gamma': N.show(calls[0]['gamma'])})
    # ---- R01.c PRISM equation   H = Om C (Om + H),  H = totalCorr * rho_pair
    cn = S.Canon(ip.atom_is_array, degree=10)
    H = W.attr_term(ip, pr.attrs['totalCorr'].attrs['data'])
    C = W.attr_term(ip, pr.attrs['directCorr'].attrs['data'])
    Om = W.attr_term(ip, pr.attrs['omega'].attrs['data'])
    bad = []
    if H is not None and P.is_pw(H) and not any(t is None or P.is_pw(t) for t in (C, Om)) and L.nonspatial_split(ip, H):
        # the stored total correlation depends on a case split over densities / scalars: the PRISM equation must hold in
        # every case; the first case where it does not is reported
        ps_, fs_ = P.conds(H)
        Cn, On = N.sym('Cmat'), N.sym('Omat')
        ip.declare('Cmat', 'tensor', symmetric=True)
        ip.declare('Omat', 'tensor', symmetric=True)
        ck, ok = N.reg(C), N.reg(Om)
        for v_ in P.valuations(ps_, fs_):
            leaf = P.at(H, v_)
            Hs = _replace_terms(leaf * N.sym('rho_pair'), {ck: Cn, ok: On})
            why = None
            if 'rho_pair' in Hs.symbols():
                why = 'total correlation is not the matrix expression divided entrywise by the pair density: %s' % N.show(
                    _replace_terms(leaf, {ck: Cn, ok: On}))[:200]
            else:
                lhs = cn.series(Hs)
                rhs = cn.series(N.fn('dot', N.fn('dot', On, Cn), On + Hs))
                diff = _series_diff(lhs, rhs, cn.D - 2)
                if diff:
                    why = 'H = Omega C (Omega + H) fails at word %s: left %s, right %s' % diff
            if why:
                bad.append('when %s: %s' % (P.show_val(v_), why))
                break
        if not bad:
            ctx.holds('R01.c', construct, 'rho_pair*totalCorr satisfies H = Omega C (Omega + H) in each of the cases the stored value '
                      'is split on', m.loc())
    elif any(t is None or P.is_pw(t) for t in (H, C, Om)):
        ctx.undecided('R01.c', construct, 'arrays after cost are not plain terms', m.loc())
    else:
        sp = {nm: getattr(pr.attrs[nm].attrs.get('space'), 'v', None) for nm in ('totalCorr', 'directCorr', 'omega')}
        if sp != {'totalCorr': ('Space', 'Fourier'), 'directCorr': ('Space', 'Fourier'), 'omega': ('Space', 'Fourier')}:
            bad.append('matrix algebra is not carried out in Fourier space: %s' % sp)
        # abstract the three matrices as letters
        Cn, On = N.sym('Cmat'), N.sym('Omat')
        ip.declare('Cmat', 'tensor', symmetric=True)
        ip.declare('Omat', 'tensor', symmetric=True)
        ck, ok = N.reg(C), N.reg(Om)

        def abstract(t):
            return _replace_terms(t, {ck: Cn, ok: On})
        Hs = abstract(H * N.sym('rho_pair'))
        if 'rho_pair' in Hs.symbols():
            bad.append('total correlation is not the matrix expression divided entrywise by the pair density: %s' % N.show(abstract(H))[:200])
        else:
            lhs = cn.series(cn.canon(Hs)) if False else cn.series(Hs)
            rhs = cn.series(N.fn('dot', N.fn('dot', On, Cn), On + Hs))
            D = cn.D - 2
            diff = _series_diff(lhs, rhs, D)
            if diff:
                bad.append('H = Omega C (Omega + H) fails at word %s: left %s, right %s' % diff)
            if not lhs:
                bad.append('total correlation is identically zero')
    if bad:
        ctx.violation('R01.c', construct, 'prism-equation', '; '.join(bad), m.loc())
    elif not any(o['rule'] == 'R01.c' for o in ctx.obl):
        ctx.holds('R01.c', construct, 'rho_pair*totalCorr satisfies H = Omega C (Omega + H) as a word series in {Omega, C} up to length %d '
                  '(Omega = site-density scaled omega, C = transformed closure output)' % (cn.D - 2), m.loc(),
                  sample={'H': N.show(cn.canon(Hs))[:300]})
    # ---- R01.e residual
    Gout = W.attr_term(ip, pr.attrs['GammaOut'].attrs['data'])
    Gin = W.attr_term(ip, pr.attrs['GammaIn'].attrs['data'])
    y = W.attr_term(ip, pr.attrs.get('y'))
    ret = W.attr_term(ip, r['ret'])
    bad = []
    if any(t is None or P.is_pw(t) for t in (Gout, Gin, y, ret)):
        ctx.undecided('R01.e', construct, 'residual is not a plain term', m.loc())
        return
    want_gout = N.fn('toR', H - C)
    if not cn.canon(Gout).equals(cn.canon(want_gout)):
        bad.append('GammaOut is %s, expected the real-space transform of totalCorr - directCorr' % N.show(cn.canon(Gout))[:200])
    want_y = L.reshape_term(ip, N.sym('r'), 'col3', None) * (Gout - Gin)
    if not y.equals(want_y):
        bad.append('y is %s, expected r*(GammaOut - GammaIn)' % N.show(y)[:200])
    if not ret.equals(L.reshape_term(ip, y, 'flat', None)):
        bad.append('return value is not the flattened residual of this evaluation')
    if getattr(pr.attrs['GammaOut'].attrs.get('space'), 'v', None) != ('Space', 'Real'):
        bad.append('GammaOut is not in real space when the residual is formed')
    if bad:
        ctx.violation('R01.e', construct, 'residual', '; '.join(bad), m.loc())
    else:
        ctx.holds('R01.e', construct, 'y = r*(toR(totalCorr - directCorr) - GammaIn), returned flattened', m.loc())


def _replace_terms(t, mapping):
    """replace maximal sub-terms (by key) -- used to abstract big matrix-valued terms as single letters"""
    k = N.reg(t)
    if k in mapping:
        return mapping[k]

    def leaf(a):
        if a[0] == 'fn':
            args = []
            changed = False
            for x in a[2:]:
                if N.is_nfkey(x):
                    if x in mapping:
                        args.append(mapping[x])
                        changed = True
                    else:
                        sub = _replace_terms(N.nf_from_key(x), mapping)
                        changed = changed or (N.reg(sub) != x)
                        args.append(sub)
                else:
                    args.append(x)
            if changed:
                return N.apply_fn(a[1], args) if a[1] in N.FN_TABLE else N.fn(a[1], *args)
        return None
    out = N.transform(t, leaf)
    # top-level: t itself may be  coef * bigterm ; try monomial-wise replacement of whole polynomial factors
    return out


def _series_diff(x, y, D):
    for w in sorted(set(x) | set(y), key=lambda w: (len(w), w)):
        if len(w) > D:
            continue
        a, b = x.get(w), y.get(w)
        if a is None or b is None or not a.equals(b):
            return (' . '.join(w) or '1', N.show(a) if a is not None else '0', N.show(b) if b is not None else '0')
    return None


def run_solve(prog, preset=(), twice=False, between=None):
    ip, r = build_prism(prog, preset)
    pr = r['PRISM']
    res = ip.call(ip.find_method(pr, 'solve'), [], {})
    r['result'] = res
    if twice:
        if between == 'fourier':
            # post-processing between the solves moved totalCorr to Fourier space (structure_factor, second_virial ...)
            dom = pr.attrs['sys'].attrs['domain']
            tc = pr.attrs['totalCorr']
            if getattr(tc.attrs.get('space'), 'v', None) == ('Space', 'Real'):
                ip.call(ip.find_method(dom, 'MatrixArray_to_fourier'), [tc], {})
        # re-solve from the object's own solution (guess = own x)
        r['result2'] = ip.call(ip.find_method(pr, 'solve'), [], {'guess': pr.attrs.get('x')})
    return ip, r


def rule_solver_arguments(ctx, rule='R01.s'):
    """solve hands the caller's guess, method and options to scipy.optimize.root unchanged (the documented way to choose the
    solver and its tolerances), and with no arguments starts from the zero vector of the full length"""
    cls = ctx.prog.cls(PRISMQ)
    m = cls.find_method('solve')
    construct = PRISMQ + '.solve'
    bad = []
    try:
        # explicit arguments
        def run_explicit(preset):
            ip_, r_ = build_prism(ctx.prog, preset)
            ip_.declare('g0', 'curve')
            guess_ = Arr(N.sym('g0'), 'guess', ip_)
            opts_ = Obj('dict', {'items': {'fatol': Num(ip_.declare('user_fatol'))}}, 'options')
            ip_.call(ip_.find_method(r_['PRISM'], 'solve'), [], {'guess': guess_, 'method': Const('anderson'), 'options': opts_})
            r_['opts'] = opts_
            return ip_, r_

        def run_default(preset):
            ip_, r_ = build_prism(ctx.prog, preset)
            ip_.call(ip_.find_method(r_['PRISM'], 'solve'), [], {})
            return ip_, r_
        (_, ip, r), = explore(run_explicit)[:1]
        pr, opts = r['PRISM'], r['opts']
        roots = [x for k, x in ip.notes if k == 'root']
        if len(roots) != 1:
            raise Unsupported('expected one call of scipy.optimize.root, found %d' % len(roots))
        rt = roots[0]
        x0 = rt['x0']
        root0 = x0.base if isinstance(x0, View) else x0
        t0 = W.attr_term(ip, x0)
        if t0 is None or P.is_pw(t0) or not t0.equals(N.sym('g0')):
            bad.append('the solver is started from %s, not from the guess the caller passed' % (P.show(t0) if t0 is not None else x0))
        mth = rt['method']
        if not (isinstance(mth, Const) and mth.v == 'anderson'):
            bad.append('method=%r reaches scipy.optimize.root as %r' % ('anderson', getattr(mth, 'v', mth)))
        op = rt['options']
        if op is not opts and not (isinstance(op, Obj) and op.cls == 'dict' and
                                    set(op.attrs['items']) == {'fatol'} and op.attrs['items']['fatol'] is opts.attrs['items']['fatol']):
            bad.append('the options dictionary of the caller does not reach scipy.optimize.root (it receives %s)'
                       % (sorted(op.attrs['items']) if isinstance(op, Obj) and op.cls == 'dict' else op))
        # defaults
        (_, ip2, r2), = explore(run_default)[:1]
        pr2 = r2['PRISM']
        rt2 = [x for k, x in ip2.notes if k == 'root'][0]
        t2 = W.attr_term(ip2, rt2['x0'])
        if t2 is None or P.is_pw(t2) or not t2.is_zero():
            bad.append('without a guess the solver is started from %s, not from zero' % (P.show(t2) if t2 is not None else rt2['x0']))
        xs = W.attr_term(ip2, pr2.attrs.get('x'))
    except (Unsupported, Raised) as e:
        ctx.undecided(rule, construct, str(e), m.loc())
        return
    if bad:
        ctx.violation(rule, construct, 'solver-arguments', '; '.join(bad), m.loc())
    else:
        ctx.holds(rule, construct, 'guess, method and options reach scipy.optimize.root as passed; default start is the zero vector', m.loc())


def _solved_state(ip, pr):
    """what a user can observe on a solved object: content term and space flag of the stored arrays"""
    out = {}
    cn = S.Canon(ip.atom_is_array, degree=6)
    for nm in ('totalCorr', 'directCorr', 'omega', 'GammaIn', 'GammaOut'):
        ma = pr.attrs.get(nm)
        if not (isinstance(ma, Obj) and ma.isa('MatrixArray')):
            out[nm] = ('missing',)
            continue
        t = W.attr_term(ip, ma.attrs.get('data'))
        sp = getattr(ma.attrs.get('space'), 'v', None)
        out[nm] = (N.show(cn.canon(t)) if t is not None and not P.is_pw(t) else repr(t), sp)
    return out


def rule_post_solve(ctx, rule='R01.f'):
    """after solve the stored arrays are those of the returned root (not of the solver's last trial point),
    and totalCorr is left in real space"""
    cls = ctx.prog.cls(PRISMQ)
    m = cls.find_method('solve')
    construct = PRISMQ + '.solve'
    ws = explore(lambda preset: run_solve(ctx.prog, preset), keep_raised=True)
    bad = []
    n = 0
    for d, ip, r in ws:
        if ip is None:
            bad.append('solve raises %s' % r)
            continue
        n += 1
        pr = r['PRISM']
        roots = [x for k, x in ip.notes if k == 'root']
        if len(roots) != 1:
            bad.append('expected exactly one call of scipy.optimize.root, found %d' % len(roots))
            continue
        res = r['result']
        mr = pr.attrs.get('minimize_result')
        if not (isinstance(res, Obj) and res.cls == 'OptimizeResult' and res is mr):
            bad.append('solve does not return/store the OptimizeResult')
        gi = W.attr_term(ip, pr.attrs['GammaIn'].attrs['data'])
        h = W.attr_term(ip, pr.attrs['totalCorr'].attrs['data'])
        xs = W.attr_term(ip, pr.attrs.get('x'))
        syms = set()
        for t in (gi, h, xs):
            if t is not None and not P.is_pw(t):
                syms |= t.symbols()
        if 'root_iter' in syms or 'root_x' not in syms:
            bad.append('the arrays left on the object are those of the solver\'s last trial point, not of the returned root '
                       '(no evaluation of cost at result.x after root returns)')
        sp = pr.attrs['totalCorr'].attrs.get('space')
        if getattr(sp, 'v', None) != ('Space', 'Real'):
            bad.append('totalCorr is left in %r' % (getattr(sp, 'v', sp),))
    if not n:
        bad.append('no analysable path through solve')
    # re-solving the same object (from its own solution; straight away or after post-processing moved totalCorr to Fourier
    # space) must not trip over the space flags left behind, and must leave exactly the state a first solve leaves
    first = [_solved_state(ip, r['PRISM']) for d, ip, r in ws if ip is not None]
    try:
        for between in (None, 'fourier'):
            ws2 = explore(lambda preset: run_solve(ctx.prog, preset, twice=True, between=between), keep_raised=True, limit=256)
            for d, ip, r in ws2:
                what = 'a second solve on the same object' + (' (after totalCorr was moved to Fourier space)' if between else '')
                if ip is None:
                    bad.append('%s raises %s' % (what, r))
                    break
                st = _solved_state(ip, r['PRISM'])
                if first and st not in first:
                    ref = first[0]
                    diff = ['%s: %s flagged %s (after one solve: %s flagged %s)' % (k_, st[k_][0][:90], st[k_][-1], ref[k_][0][:90], ref[k_][-1])
                            for k_ in st if st[k_] != ref[k_]]
                    bad.append('%s leaves a different state than a first solve: %s' % (what, '; '.join(diff[:2])))
                    break
    except Unsupported as e:
        ctx.undecided(rule, construct, 're-solve: %s' % e, m.loc())
    if bad:
        ctx.violation(rule, construct, 'post-solve-sync', '; '.join(sorted(set(bad))), m.loc())
    else:
        ctx.holds(rule, construct, 'cost is re-evaluated at result.x after root returns; totalCorr left in real space '
                  '(%d paths)' % n, m.loc())


def rule_omega_length_guard(ctx, rule='R12.w'):
    """The omega values that become PRISM.omega pass an equal-length guard while the PRISM object is built: either the
    table is exported with PairTable.exportToMatrixArray (whose guard is R12.e) or every evaluated entry is compared
    with the domain length.  A plain `MatrixArray[t1,t2] = value` relies on numpy broadcasting, which silently accepts a
    0-d or length-1 entry (a one-column file with a single number) for any grid."""
    cls = ctx.prog.cls(PRISMQ)
    m = cls.find_method('__init__')
    construct = PRISMQ + '.__init__'
    try:
        worlds = explore(lambda preset: build_prism(ctx.prog, preset))
    except (Unsupported, Raised) as e:
        ctx.undecided(rule, construct, str(e), m.loc())
        return
    bad = []
    for d, ip, r in worlds:
        exported = [x for k_, x in ip.notes if k_ == 'pairtable-export']
        calcs = [x for k_, x in ip.notes if k_ == 'omega-calculate']
        if not calcs:
            bad.append('no omega model is evaluated while the PRISM object is built')
            continue
        if exported:
            continue
        guarded = False
        for g in ip.guards:
            c = getattr(g.get('cond'), 'cond', None)
            if c is not None and 'omega(' in c.show() and 'len' in c.show():
                guarded = True
        if not guarded:
            bad.append('the evaluated omega table is stored into PRISM.omega without exportToMatrixArray and without a length '
                       'comparison (stores at %s): a 0-d / one-point table entry is broadcast over the whole Fourier grid '
                       'instead of being rejected' % sorted({x['loc'] for x in calcs})[:2])
    if bad:
        ctx.violation(rule, construct, 'omega-length-guard', bad[0], m.loc())
    else:
        ctx.holds(rule, construct, 'the omega table is evaluated out of place and reaches PRISM.omega through '
                  'PairTable.exportToMatrixArray (equal-length guard R12.e) on every path (%d)' % len(worlds), m.loc())
