"""Rules R14.* -- PairTable / ValueTable are symmetric keyed maps with isolated values (and R12.e)."""
import ast
import itertools
from .. import nf as N
from .. import pw as P
from ..flow import Flow, norm, is_self_attr, call_name
from ..interp import (Interp, Env, Frame, Func, Const, Num, Arr, Seq, Obj, Label, Types, Unsupported, Raised, NONE,
                      TRUE, FALSE, const_num)
from ..model import AnalysisError
from .. import natives as NAT

PT = 'pyPRISM.core.PairTable::PairTable'
VT = 'pyPRISM.core.ValueTable::ValueTable'
TB = 'pyPRISM.core.Table::Table'


def names_in_order(node):
    ns = [n for n in ast.walk(node) if isinstance(n, ast.Name)]
    ns.sort(key=lambda n: (n.lineno, n.col_offset))
    return [n.id for n in ns]


def eval_bool(node, leaf):
    """three-valued evaluation of a test; leaf(node) -> True/False/None for atoms"""
    if isinstance(node, ast.BoolOp):
        vals = [eval_bool(v, leaf) for v in node.values]
        if isinstance(node.op, ast.And):
            if any(v is False for v in vals):
                return False
            return True if all(v is True for v in vals) else None
        if any(v is True for v in vals):
            return True
        return False if all(v is False for v in vals) else None
    if isinstance(node, ast.UnaryOp) and isinstance(node.op, ast.Not):
        v = eval_bool(node.operand, leaf)
        return None if v is None else (not v)
    if isinstance(node, ast.Constant):
        return bool(node.value)
    return leaf(node)


def guards_value(guards, leaf):
    res = True
    for test, pol in guards:
        v = eval_bool(test, leaf)
        if v is None:
            return None
        if v != pol:
            return False
    return res


def _values_store(st):
    """(X, Y, value) when st is  self.values[X][Y] = value"""
    if isinstance(st, ast.Assign) and len(st.targets) == 1:
        t = st.targets[0]
        if isinstance(t, ast.Subscript) and isinstance(t.value, ast.Subscript) and is_self_attr(t.value.value, 'values'):
            return t.value.slice, t.slice, st.value
    return None


def _is_deepcopy_of(prog, module, node, param):
    if not isinstance(node, ast.Call) or len(node.args) != 1 or node.keywords:
        return False
    r = prog.resolve_name_in_module(module, node.func)
    if not (isinstance(r, tuple) and r[0] == 'ext' and r[1] == 'copy.deepcopy'):
        return False
    return isinstance(node.args[0], ast.Name) and node.args[0].id == param


def _loop_over_listify(loop, of):
    """for X in self.listify(<of>)"""
    it = loop.iter
    return isinstance(it, ast.Call) and call_name(it) == 'self.listify' and len(it.args) == 1 and \
        isinstance(it.args[0], ast.Name) and it.args[0].id == of and isinstance(loop.target, ast.Name)


def rule_pairtable_setitem(ctx, rule='R14.c'):
    """value stored at [t1][t2] is a deepcopy made inside the innermost key loop; mirrored under
    symmetric and t1 != t2; key loops range over listify of the two index components"""
    cls = ctx.prog.cls(PT)
    m = cls.find_method('__setitem__')
    construct = PT + '.__setitem__'
    fl = Flow(m.node)
    params = m.params
    if len(params) != 3:
        ctx.undecided(rule, construct, 'unexpected signature %s' % params, m.loc())
        return
    idxp, valp = params[1], params[2]
    # index unpack
    unpack = None
    for st in m.node.body:
        if isinstance(st, ast.Assign) and isinstance(st.targets[0], ast.Tuple) and isinstance(st.value, ast.Name) \
                and st.value.id == idxp and len(st.targets[0].elts) == 2:
            unpack = [e.id for e in st.targets[0].elts]
    if unpack is None:
        ctx.undecided(rule, construct, 'index is not unpacked into two key components', m.loc())
        return
    stores = [(st,) + _values_store(st) for st in fl.statements() if _values_store(st)]
    if not stores:
        ctx.violation(rule, construct, 'no-store', 'no store into self.values[..][..]', m.loc())
        return
    primary = []
    mirror = []
    bad = []
    for st, X, Y, V in stores:
        loops = fl.enclosing_loops(st)
        if len(loops) < 2:
            bad.append('store at line %d is not inside both key loops' % st.lineno)
            continue
        inner, outer = loops[0], loops[1]
        if not (_loop_over_listify(outer, unpack[0]) and _loop_over_listify(inner, unpack[1])):
            bad.append('key loops at line %d/%d do not range over listify(%s)/listify(%s)'
                       % (outer.lineno, inner.lineno, unpack[0], unpack[1]))
            continue
        k1, k2 = outer.target.id, inner.target.id
        keys = (norm(X), norm(Y))
        # provenance of the stored value
        ok_copy = False
        if _is_deepcopy_of(ctx.prog, m.module, V, valp):
            ok_copy = True
            vname = None
        elif isinstance(V, ast.Name):
            vname = V.id
            defs = fl.reaching_defs(V.id, st)
            ok_copy = bool(defs) and all(
                isinstance(d, ast.Assign) and _is_deepcopy_of(ctx.prog, m.module, d.value, valp)
                and fl.enclosing_loops(d) and fl.enclosing_loops(d)[0] is inner and fl.dominates(d, st)
                for d in defs)
            if not ok_copy:
                why = []
                for d in defs:
                    if isinstance(d, ast.arg):
                        why.append('the caller\'s object itself (parameter %s)' % d.arg)
                    elif isinstance(d, ast.Assign) and _is_deepcopy_of(ctx.prog, m.module, d.value, valp):
                        if not fl.enclosing_loops(d) or fl.enclosing_loops(d)[0] is not inner:
                            why.append('a deepcopy made at line %d outside the innermost key loop (one shared copy for several cells)' % d.lineno)
                        else:
                            why.append('a deepcopy at line %d that does not dominate the store' % d.lineno)
                    else:
                        why.append('line %d: %s' % (getattr(d, 'lineno', 0), norm(d)[:60]))
                bad.append('cell [%s][%s] receives %s' % (keys[0], keys[1], '; '.join(why) or 'an undefined name'))
        else:
            bad.append('cell [%s][%s] receives %s, not a per-pair deepcopy of %s' % (keys[0], keys[1], norm(V), valp))
        g = fl.guards(st)
        if keys == (k1, k2):
            primary.append((st, g, vname if ok_copy else None))
        elif keys == (k2, k1):
            mirror.append((st, g, V.id if isinstance(V, ast.Name) else None))
        else:
            bad.append('store at line %d uses keys [%s][%s], not the loop keys %s,%s' % (st.lineno, keys[0], keys[1], k1, k2))
    if not [p for p in primary if not p[1]]:
        bad.append('no unconditional store to self.values[t1][t2] inside the key loops')
    if bad:
        ctx.violation(rule, construct, 'copy-per-pair', '; '.join(bad), m.loc())
    else:
        ctx.holds(rule, construct, 'each assigned cell receives its own deepcopy made inside the innermost key loop; '
                  'key loops are listify(%s) x listify(%s)' % tuple(unpack), m.loc(),
                  sample={'stores': [norm(s[0]) for s in stores]})
    # mirror truth table
    rule_m = 'R14.m'
    if not mirror:
        ctx.violation(rule_m, construct, 'mirror', 'no mirrored store self.values[t2][t1]: (a,b) and (b,a) diverge', m.loc())
        return
    table = {}
    outer_t, inner_t = None, None
    for st, g, vn in mirror:
        loops = fl.enclosing_loops(st)
        k1, k2 = loops[1].target.id, loops[0].target.id

        def leaf_for(sym, same):
            def leaf(node):
                if is_self_attr(node, 'symmetric'):
                    return sym
                if isinstance(node, ast.Compare) and len(node.ops) == 1 and \
                        {norm(node.left), norm(node.comparators[0])} == {k1, k2}:
                    if isinstance(node.ops[0], ast.NotEq):
                        return not same
                    if isinstance(node.ops[0], ast.Eq):
                        return same
                return None
            return leaf
        for sym, same in itertools.product((True, False), (True, False)):
            v = guards_value(g, leaf_for(sym, same))
            table[(sym, same)] = v if (sym, same) not in table else (table[(sym, same)] or v)
    prim_names = {p[2] for p in primary}
    same_obj = all(vn in prim_names for _, _, vn in mirror)
    problems = []
    if table.get((True, False)) is not True:
        problems.append('mirror not written when symmetric and t1!=t2')
    if table.get((False, False)) is not False or table.get((False, True)) not in (False,):
        problems.append('mirror written for a non-symmetric table')
    if None in table.values():
        problems.append('guard not understood: %s' % {k: v for k, v in table.items()})
    if not same_obj:
        problems.append('mirrored cell does not receive the same object as the primary cell')
    if problems:
        ctx.violation(rule_m, construct, 'mirror', '; '.join(problems), m.loc())
    else:
        ctx.holds(rule_m, construct, 'mirror store executes exactly when symmetric (and t1!=t2): truth table %s'
                  % {('sym=%s,same=%s' % k): v for k, v in sorted(table.items())}, m.loc())


def rule_pairtable_getitem(ctx, rule='R14.g'):
    cls = ctx.prog.cls(PT)
    m = cls.find_method('__getitem__')
    construct = PT + '.__getitem__'
    rets = Flow(m.node).returns()
    unpack = None
    for st in m.node.body:
        if isinstance(st, ast.Assign) and isinstance(st.targets[0], ast.Tuple) and isinstance(st.value, ast.Name) \
                and st.value.id == m.params[1]:
            unpack = [e.id for e in st.targets[0].elts]
    if unpack and len(rets) == 1 and norm(rets[0].value) == 'self.values[%s][%s]' % tuple(unpack):
        ctx.holds(rule, construct, 'returns self.values[t1][t2] for index (t1,t2)', m.loc(), nontrivial=False)
    elif len(rets) == 1 and norm(rets[0].value) == 'self.values[%s[0]][%s[1]]' % (m.params[1], m.params[1]):
        ctx.holds(rule, construct, 'returns self.values[index[0]][index[1]]', m.loc(), nontrivial=False)
    else:
        ctx.violation(rule, construct, 'getter', 'does not return self.values[t1][t2] of the requested pair: %s'
                      % [norm(r.value) for r in rets], m.loc())


def _predicate_tables(ctx, finfo, rule, construct):
    """evaluate the index predicate chosen by (full, diagonal) on (i<j, i==j, i>j)"""
    node = finfo.node
    pre = []
    loop = None
    for st in node.body:
        if isinstance(st, ast.For):
            loop = st
            break
        if isinstance(st, ast.Expr) and isinstance(st.value, ast.Constant):
            continue
        pre.append(st)
    if loop is None:
        raise Unsupported('no loop in %s' % construct)
    # the yield and its guard
    fl = Flow(node)
    ys = [n for n in ast.walk(loop) if isinstance(n, ast.Yield)]
    if len(ys) != 1:
        raise Unsupported('expected exactly one yield')
    g = fl.guards(ys[0])
    if len(g) != 1 or not g[0][1] or not isinstance(g[0][0], ast.Call) or not isinstance(g[0][0].func, ast.Name):
        raise Unsupported('yield is not guarded by a single predicate call')
    pname = g[0][0].func.id
    pargs = [norm(a) for a in g[0][0].args]
    tables = {}
    for full, diag in itertools.product((False, True), (False, True)):
        ip = Interp(ctx.prog)
        f = Func(node, None, finfo.module, None, finfo.cls, finfo)
        env = Env()
        env.set('full', Const(full))
        env.set('diagonal', Const(diag))
        env.set('self', Obj('dummy', {}))
        ip.frames.append(Frame(f, env))
        ip.exec_block(pre, env)
        pred = env.get(pname)
        if pred is None:
            raise Unsupported('predicate %s not bound before the loop' % pname)
        row = []
        for i, j in ((0, 1), (1, 1), (1, 0)):
            v = ip.call(pred, [const_num(i), const_num(j)], {})
            row.append(ip.truth(v, node))
        tables[(full, diag)] = tuple(row)
    return tables, loop, ys[0], pargs


WANT_TABLES = {(True, True): (True, True, True), (True, False): (True, True, True),
               (False, True): (True, True, False), (False, False): (True, False, False)}


def rule_iterpairs(ctx, rule='R14.i'):
    """iterpairs: full -> every ordered pair; diagonal -> i<=j; else i<j; in product(enumerate,enumerate) order"""
    for qual, kind in ((PT, 'pairtable'), ('pyPRISM.core.System::System', 'system')):
        cls = ctx.prog.cls(qual)
        m = cls.find_method('iterpairs')
        construct = qual + '.iterpairs'
        try:
            tables, loop, y, pargs = _predicate_tables(ctx, m, rule, construct)
        except (Unsupported, Raised) as e:
            ctx.undecided(rule, construct, str(e), m.loc())
            continue
        bad = []
        for k, want in WANT_TABLES.items():
            if tables[k] != want:
                bad.append('full=%s,diagonal=%s visits (i<j,i==j,i>j)=%s, expected %s' % (k + (tables[k], want)))
        # loop shape and order
        tgt = norm(loop.target)
        it = norm(loop.iter)
        if kind == 'pairtable':
            ok = it in ('self.__iter__()', 'self', 'iter(self)') and tgt.count(',') == 4
            if ok:
                names = names_in_order(loop.target)
                i, j, t1, t2, val = names
                ok = pargs == [i, j] and norm(y.value) in ('((%s,%s),(%s,%s),%s)' % (i, j, t1, t2, val),
                                                            '((%s,%s),(%s,%s),(%s))' % (i, j, t1, t2, val))
            if not ok:
                bad.append('loop/yield shape not the (i,j),(t1,t2),val protocol: for %s in %s: yield %s' % (tgt, it, norm(y.value)))
        else:
            ok = it == 'product(enumerate(self.types),enumerate(self.types))'
            if ok:
                names = names_in_order(loop.target)
                i, t1, j, t2 = names
                ok = tgt == '((%s,%s),(%s,%s))' % (i, t1, j, t2) and pargs == [i, j] and \
                    norm(y.value) == '((%s,%s),(%s,%s))' % (i, j, t1, t2)
            if not ok:
                bad.append('loop/yield shape not product(enumerate(types),enumerate(types)) -> (i,j),(t1,t2)')
        if bad:
            ctx.violation(rule, construct, 'predicate', '; '.join(bad), m.loc())
        else:
            ctx.holds(rule, construct, 'predicate truth tables over (i<j,i==j,i>j) for the 4 flag valuations as specified; '
                      'type-list order', m.loc(), sample={'tables': {str(k): v for k, v in tables.items()}})
    # __iter__ order
    cls = ctx.prog.cls(PT)
    m = cls.find_method('__iter__')
    loops = [n for n in ast.walk(m.node) if isinstance(n, ast.For)]
    ys = [n for n in ast.walk(m.node) if isinstance(n, ast.Yield)]
    ok = len(loops) == 1 and len(ys) == 1 and norm(loops[0].iter) == 'product(enumerate(self.types),enumerate(self.types))'
    if ok:
        names = names_in_order(loops[0].target)
        ok = len(names) == 4
        if ok:
            i, t1, j, t2 = names
            ok = norm(loops[0].target) == '((%s,%s),(%s,%s))' % (i, t1, j, t2) and \
                norm(ys[0].value) == '((%s,%s),(%s,%s),self.values[%s][%s])' % (i, j, t1, t2, t1, t2) and \
                not Flow(m.node).guards(ys[0])
    if ok:
        ctx.holds(rule, PT + '.__iter__', 'every ordered pair in type-list order with its own cell', m.loc())
    else:
        ctx.violation(rule, PT + '.__iter__', 'iter', 'does not yield ((i,j),(t1,t2),values[t1][t2]) over product(enumerate(types),enumerate(types))', m.loc())


def _iter_loop(fl, fnode, allowed_iters):
    loops = [n for n in ast.walk(fnode) if isinstance(n, ast.For)]
    if len(loops) != 1:
        return None
    if norm(loops[0].iter) not in allowed_iters:
        return None
    return loops[0]


def rule_setunset_check(ctx, rule='R14.u'):
    for qual, iters, keyfmt in ((PT, ('self.iterpairs()',), 'pair'), (VT, ('self', 'self.__iter__()', 'iter(self)'), 'single')):
        cls = ctx.prog.cls(qual)
        # setUnset
        m = cls.find_method('setUnset')
        construct = qual + '.setUnset'
        fl = Flow(m.node)
        loop = _iter_loop(fl, m.node, iters)
        if loop is None:
            ctx.violation('R14.u', construct, 'coverage', 'does not iterate over %s (every unordered pair / every type)' % (iters,), m.loc())
        else:
            names = names_in_order(loop.target)
            valname = names[-1]
            keys = names[-3:-1] if keyfmt == 'pair' else names[-2:-1]
            stores = [st for st in ast.walk(loop) if isinstance(st, ast.Assign)]
            want_t = 'self[%s]' % ','.join(keys)
            good = []
            bad = []
            for st in stores:
                if norm(st.targets[0]) == want_t and isinstance(st.value, ast.Name) and st.value.id == m.params[1]:
                    g = fl.guards(st)

                    def leaf(node):
                        if isinstance(node, ast.Compare) and norm(node.left) == valname and len(node.ops) == 1 and \
                                isinstance(node.comparators[0], ast.Constant) and node.comparators[0].value is None:
                            return {'Is': True, 'IsNot': False}.get(type(node.ops[0]).__name__)
                        return None
                    v_none = guards_value(g, leaf)

                    def leaf2(node):
                        r = leaf(node)
                        return None if r is None else (not r)
                    v_set = guards_value(g, leaf2)
                    if v_none is True and v_set is False:
                        good.append(st)
                    else:
                        bad.append('assignment at line %d is not restricted to unset entries (guard %s)' % (st.lineno, [norm(t) for t, _ in g]))
                elif isinstance(st.targets[0], ast.Subscript):
                    bad.append('line %d writes %s (bypasses the copying/mirroring setter or uses a foreign key)' % (st.lineno, norm(st.targets[0])))
            if bad or not good:
                ctx.violation('R14.u', construct, 'setUnset', '; '.join(bad) or 'no guarded assignment through self[...]', m.loc())
            else:
                ctx.holds('R14.u', construct, 'assigns through self[key] exactly where the current value is None', m.loc())
        # check
        m = cls.find_method('check')
        construct = qual + '.check'
        fl = Flow(m.node)
        loop = _iter_loop(fl, m.node, iters)
        raises = [n for n in ast.walk(m.node) if isinstance(n, ast.Raise)]
        if loop is None or len(raises) != 1:
            ctx.violation('R14.k', construct, 'check', 'check does not visit %s with a single refusal' % (iters,), m.loc())
            continue
        names = names_in_order(loop.target)
        valname = names[-1]
        g = fl.guards(raises[0])

        def leafn(isnone):
            def leaf(node):
                if isinstance(node, ast.Compare) and norm(node.left) == valname and len(node.ops) == 1 and \
                        isinstance(node.comparators[0], ast.Constant) and node.comparators[0].value is None:
                    r = {'Is': True, 'IsNot': False}.get(type(node.ops[0]).__name__)
                    return r if isnone else (None if r is None else not r)
                return None
            return leaf
        exc = call_name(raises[0].exc) if isinstance(raises[0].exc, ast.Call) else norm(raises[0].exc) if raises[0].exc else None
        rets = [r for r in fl.returns() if fl.order(r, raises[0])]
        if guards_value(g, leafn(True)) is True and guards_value(g, leafn(False)) is False and exc == 'ValueError' \
                and fl.in_body_of(raises[0], loop) and not rets:
            ctx.holds('R14.k', construct, 'raises ValueError exactly when a visited value is None', m.loc())
        else:
            ctx.violation('R14.k', construct, 'check', 'refusal is %s under guard %s' % (exc, [norm(t) for t, _ in g]), m.loc())


def rule_apply(ctx, rule='R14.a'):
    """apply(inplace=False) builds a new table with the same types/name/symmetric and never writes self"""
    cls = ctx.prog.cls(PT)
    m = cls.find_method('apply')
    construct = PT + '.apply'
    for inplace in (False, True):
        ip = Interp(ctx.prog)
        NAT.install_containers(ip)
        t = NAT.new_pairtable(ip, cls, Types(), 'tbl', True, elem=lambda ip2, a, b, n: Num(N.fn('cell', a, b)))
        t.origin = 'self'
        ip.declare('fval')
        fn = Func(ast.parse('lambda x: x').body[0].value, Env(), m.module)
        calls = []

        def apply_fn(ip2, s, a, k, n):
            calls.append(a[0])
            return Num(N.fn('f', ip2.term_of(a[0])[0]))
        from ..interp import Native
        try:
            res = ip.call(ip.make_func(m, t), [Native('func', apply_fn)], {'inplace': Const(inplace)})
        except (Unsupported, Raised) as e:
            ctx.undecided(rule, construct, 'inplace=%s: %s' % (inplace, e), m.loc())
            continue
        bad = []
        if not (isinstance(res, Obj) and res.isa('PairTable')):
            bad.append('does not return a PairTable')
        else:
            own = t.attrs['_native_store']
            if inplace:
                if res is not t:
                    bad.append('inplace=True does not return self')
                recs = own
            else:
                if res is t:
                    bad.append('inplace=False returns self')
                if own:
                    bad.append('inplace=False writes the original table at %s' % own[0]['loc'])
                recs = res.attrs['_native_store']
                for a in ('types', 'name', 'symmetric'):
                    x, y = res.attrs.get(a), t.attrs.get(a)
                    same = (x is y) or (isinstance(x, Const) and isinstance(y, Const) and x.v == y.v)
                    if not same:
                        bad.append('new table has %s=%r instead of the original %r' % (a, x, y))
            if len(recs) != 1:
                bad.append('expected one quantified store per visited pair, found %d' % len(recs))
            else:
                rec = recs[0]
                la, lb = rec['labels']
                if rec.get('raw'):
                    bad.append('the result of func is stored straight into table.values (at %s), bypassing the copying and '
                               'mirroring setter: the new table can share objects with the original (func may return its '
                               'argument or a view of it), and for a symmetric table only one of the two cells is written' % rec['loc'])
                want = N.fn('f', N.fn('cell', la, lb))
                got = rec['value']
                if not (isinstance(got, Num) and got.t.equals(want)):
                    bad.append('cell (%s,%s) receives %r, not func(value of the same pair)' % (la, lb, got))
                cov = ip.coverage(rec['ctx_chain'], la, lb)
                if cov != 'unordered-all':
                    bad.append('pairs visited: %s (expected every unordered pair)' % cov)
        if bad:
            ctx.violation(rule, construct, 'inplace=%s' % inplace, '; '.join(bad), m.loc())
        else:
            ctx.holds(rule, construct, 'inplace=%s: every unordered pair := func(own value); %s' %
                      (inplace, 'self returned' if inplace else 'new table with same types/name/symmetric, original untouched'),
                      m.loc(), key='inplace=%s' % inplace)


def rule_listify(ctx, rule='R14.l'):
    """a string is one key even though it is iterable; other iterables are lists of keys; scalars one key"""
    cls = ctx.prog.cls(TB)
    m = cls.find_method('listify')
    construct = TB + '.listify'
    cases = [('str', Const('AB'), lambda r: isinstance(r, Seq) and len(r.items) == 1 and isinstance(r.items[0], Const) and r.items[0].v == 'AB'),
             ('list', Seq([Const('A'), Const('B')], 'list'), lambda r: isinstance(r, Seq) and [x.v for x in r.items] == ['A', 'B']),
             ('tuple', Seq([Const('A'), Const('B')], 'tuple'), lambda r: isinstance(r, Seq) and [x.v for x in r.items] == ['A', 'B']),
             ('scalar', const_num(3), lambda r: isinstance(r, Seq) and len(r.items) == 1)]
    # every other iterable collection of keys is a list of keys too (the documented behaviour is "anything iterable that
    # is not a string"): numpy arrays of labels, sets, dict views, generators
    for kind in ('ndarray', 'set', 'frozenset', 'dict_keys', 'generator', 'range'):
        cases.append((kind, Seq([Const('A'), Const('B')], kind),
                      lambda r: isinstance(r, Seq) and sorted(getattr(x, 'v', None) for x in r.items) == ['A', 'B']))
    bad, und = [], []
    for nm, arg, ok in cases:
        ip = Interp(ctx.prog)
        ip.lib_overrides['builtins.iter'] = _b_iter
        o = Obj(cls, {}, 'self')
        try:
            r = ip.call(ip.make_func(m, o), [arg], {})
        except Unsupported as e:
            und.append('%s: %s' % (nm, e))
            continue
        except Raised as e:
            bad.append('listify(%s) raises %s' % (nm, e.exc))
            continue
        if not ok(r):
            bad.append('listify(<%s of two keys>) -> %s' % (nm, [getattr(x, 'v', x) for x in r.items] if isinstance(r, Seq) else r))
    if bad:
        ctx.violation(rule, construct, 'listify', '; '.join(bad), m.loc())
    elif und:
        ctx.undecided(rule, construct, '; '.join(und[:3]), m.loc())
    else:
        ctx.holds(rule, construct, 'str -> [str]; list/tuple/ndarray/set/frozenset/dict view/generator/range -> list of its items; '
                  'scalar -> [scalar] (%d argument kinds interpreted)' % len(cases), m.loc())


def _b_iter(ip, args, kwargs, node):
    x = args[0]
    if isinstance(x, (Seq, Types)) or (isinstance(x, Const) and isinstance(x.v, str)):
        return Obj('iterator', {})
    raise Raised('TypeError', 'object is not iterable', ip.loc(node))


def rule_valuetable(ctx, rule='R14.v'):
    cls = ctx.prog.cls(VT)
    # setter
    m = cls.find_method('__setitem__')
    construct = VT + '.__setitem__'
    fl = Flow(m.node)
    loops = [n for n in ast.walk(m.node) if isinstance(n, ast.For)]
    stores = [st for st in fl.statements() if isinstance(st, ast.Assign) and isinstance(st.targets[0], ast.Subscript)
              and is_self_attr(st.targets[0].value, 'values')]
    ok = len(loops) == 1 and isinstance(loops[0].iter, ast.Call) and call_name(loops[0].iter) == 'self.listify' and \
        len(stores) == 1 and isinstance(loops[0].target, ast.Name) and norm(stores[0].targets[0].slice) == loops[0].target.id \
        and isinstance(stores[0].value, ast.Name) and stores[0].value.id == m.params[2] and not fl.guards(stores[0]) \
        and fl.in_body_of(stores[0], loops[0])
    if ok:
        arg = loops[0].iter.args[0]
        defs = fl.reaching_defs(arg.id, loops[0]) if isinstance(arg, ast.Name) else []
        ok = isinstance(arg, ast.Name) and (arg.id == m.params[1] or all(
            isinstance(d, ast.Assign) and isinstance(d.value, ast.Name) and d.value.id == m.params[1] for d in defs))
    if ok:
        ctx.holds(rule, construct, 'stores the value under every listified key', m.loc())
    else:
        ctx.violation(rule, construct, 'setter', 'does not store value under every key of listify(index)', m.loc())
    # getter
    m = cls.find_method('__getitem__')
    rets = Flow(m.node).returns()
    src = {norm(s) for s in m.node.body}
    if len(rets) == 1 and norm(rets[0].value) in ('self.values[%s]' % m.params[1], 'self.values[t]') and \
            (norm(rets[0].value) != 'self.values[t]' or 't=%s' % m.params[1] in src):
        ctx.holds(rule, VT + '.__getitem__', 'returns self.values[key]', m.loc(), nontrivial=False)
    else:
        ctx.violation(rule, VT + '.__getitem__', 'getter', 'does not return self.values[key]', m.loc())
    # __iter__
    m = cls.find_method('__iter__')
    loops = [n for n in ast.walk(m.node) if isinstance(n, ast.For)]
    ys = [n for n in ast.walk(m.node) if isinstance(n, ast.Yield)]
    ok = len(loops) == 1 and len(ys) == 1 and norm(loops[0].iter) == 'enumerate(self.types)'
    if ok:
        names = names_in_order(loops[0].target)
        ok = len(names) == 2 and norm(ys[0].value) == '(%s,%s,self.values[%s])' % (names[0], names[1], names[1]) \
            and not Flow(m.node).guards(ys[0])
    if ok:
        ctx.holds(rule, VT + '.__iter__', 'yields (i, t, values[t]) in type-list order', m.loc())
    else:
        ctx.violation(rule, VT + '.__iter__', 'iter', 'does not yield (i,t,values[t]) over enumerate(types)', m.loc())


def _run_export(prog, case):
    """exportToMatrixArray of the real class, abstractly executed on a three-pair table (a,a) (a,b) (b,b):
    case 'equal'   all three arrays have the same length,
         'unequal' the (b,b) array has another length,
         'unset'   the (a,b) entry is None"""
    from .. import worlds as W
    ip = Interp(prog)
    NAT.install_containers(ip, domain_transforms=False, tables=False, matrixarray=True)
    cls = prog.cls(PT)
    for nm in ('w', 'v'):
        ip.declare(nm, 'curve')
    la, lb = Label('a'), Label('b')
    ip.distinct.add(frozenset(('a', 'b')))
    arrs = [Arr(N.sym('w'), 'cell_aa', ip), Arr(2 * N.sym('w'), 'cell_ab', ip),
            Arr(3 * N.sym('w') if case != 'unequal' else N.sym('v'), 'cell_bb', ip)]
    vals = list(arrs)
    if case == 'zero-d':
        # every entry is a single number (what np.loadtxt returns for a one-number file: a 0-d array)
        for nm in ('z1', 'z2', 'z3'):
            ip.declare(nm)
        vals = [Num(N.sym('z1')), Num(N.sym('z2')), Num(N.sym('z3'))]
    if case == 'unset':
        vals[1] = NONE
    triples = Seq([Seq([Seq([const_num(0), const_num(0)]), Seq([la, la]), vals[0]]),
                   Seq([Seq([const_num(0), const_num(1)]), Seq([la, lb]), vals[1]]),
                   Seq([Seq([const_num(1), const_num(1)]), Seq([lb, lb]), vals[2]])], 'list')
    types = Types()
    o = Obj(cls, {'types': types, 'name': Const('tbl'), 'symmetric': Const(True)}, 'self')
    from ..interp import Native
    calls = []

    def iterpairs(ip2, s_, a_, k_, n_):
        calls.append((list(a_), dict(k_)))
        return triples
    ip.natives[('PairTable', 'iterpairs')] = iterpairs
    m = cls.find_method('exportToMatrixArray')
    res = ip.call(ip.make_func(m, o), [], {'space': Const(('Space', 'Fourier'))})
    return ip, {'res': res, 'arrs': arrs, 'labels': (la, lb), 'iter_calls': calls}


def rule_export(ctx, rule='R12.e'):
    """exportToMatrixArray refuses unset entries and unequal lengths with ValueError before anything is built, and
    stores every pair function under its own key (abstract execution of the real method on a three-pair table in the
    equal / unequal / unset cases -- no matching of how the guard happens to be spelled)"""
    cls = ctx.prog.cls(PT)
    m = cls.find_method('exportToMatrixArray')
    construct = PT + '.exportToMatrixArray'
    bad = []
    try:
        for case in ('unequal', 'unset'):
            try:
                ip, r = _run_export(ctx.prog, case)
                bad.append('a table with %s is exported instead of being refused'
                           % ('arrays of different lengths' if case == 'unequal' else 'an unset entry'))
            except Raised as e:
                if e.exc != 'ValueError':
                    bad.append('a table with %s raises %s, not ValueError' % ('arrays of different lengths' if case == 'unequal' else 'an unset entry', e.exc))
        try:
            _run_export(ctx.prog, 'zero-d')
            bad.append('a table whose entries are single numbers (0-d arrays, e.g. one-row omega files) is exported as a length-1 '
                       'MatrixArray, which numpy then broadcasts over the whole grid, instead of being refused')
        except Raised:
            pass            # len() of an unsized object / an explicit refusal: the PRISM object is not built
        try:
            ip, r = _run_export(ctx.prog, 'equal')
        except Raised as e:
            bad.append('a fully specified table with equal lengths is refused: %s %s' % (e.exc, e.msg))
            ip = r = None
    except Unsupported as e:
        ctx.undecided(rule, construct, str(e), m.loc())
        return
    if r is not None:
        res = r['res']
        if not (isinstance(res, Obj) and res.isa('MatrixArray')):
            bad.append('does not return a MatrixArray')
        else:
            writes = {tuple(sorted(w['pair'])): w['term'] for w in ip.entry_writes}
            want = {('a', 'a'): N.sym('w'), ('a', 'b'): 2 * N.sym('w'), ('b', 'b'): 3 * N.sym('w')}
            for k_, t_ in want.items():
                if k_ not in writes or not writes[k_].equals(t_):
                    bad.append('pair %s receives %s instead of its own array' % (k_, N.show(writes[k_]) if k_ in writes else 'nothing'))
            sp = res.attrs.get('space')
            if getattr(sp, 'v', None) != ('Space', 'Fourier'):
                bad.append('the requested space is not passed on to the MatrixArray (%r)' % (getattr(sp, 'v', sp),))
            ln = res.attrs.get('length')
            if not (isinstance(ln, Num) and not P.is_pw(ln.t) and ln.t.equals(N.sym('len(w)'))):
                bad.append('MatrixArray length is %r, not the common length of the arrays' % (ln,))
            for args_, kw_ in r['iter_calls']:
                if args_ or any(not (isinstance(v_, Const) and v_.v in (True, False)) for v_ in kw_.values()) or \
                        any(k_ == 'diagonal' and v_.v is False for k_, v_ in kw_.items()):
                    bad.append('pairs are enumerated with iterpairs(%s): not every unordered pair is visited' % kw_)
    if bad:
        ctx.violation(rule, construct, 'export', '; '.join(sorted(set(bad))), m.loc())
    else:
        ctx.holds(rule, construct, 'ValueError on unset entries and on differing lengths; MA[t1,t2] = own array for every unordered pair; '
                  'space and common length passed on (3 abstract executions)', m.loc())


def _length_guard_table(g):
    """the guard built from len(set(lengths)) must be true exactly for #distinct lengths >= 2"""
    res = {}
    for ndist in (1, 2, 3):
        def leaf(node):
            if isinstance(node, ast.Compare) and len(node.ops) == 1:
                sides = [node.left, node.comparators[0]]
                vals = []
                for s in sides:
                    if norm(s).startswith('len(set('):
                        vals.append(ndist)
                    elif isinstance(s, ast.Constant) and isinstance(s.value, int):
                        vals.append(s.value)
                    else:
                        return None
                op = type(node.ops[0]).__name__
                a, b = vals
                return {'LtE': a <= b, 'Lt': a < b, 'GtE': a >= b, 'Gt': a > b, 'Eq': a == b, 'NotEq': a != b}.get(op)
            return None
        res[ndist] = guards_value(g, leaf)
    if res == {1: False, 2: True, 3: True}:
        return True
    return res
