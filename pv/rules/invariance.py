"""Rules R04.* -- results are invariant under physically meaningless reformulations of the input
(structural part: label parametricity, symmetric storage, energy-degree / dimensional homogeneity)."""
import ast
import os
from fractions import Fraction as F
from .. import nf as N
from .. import pw as P
from .. import worlds as W
from ..interp import Interp, Arr, Num, Const, Obj, Unsupported, Raised, explore, relabel
from ..flow import norm, call_name
from ..report import VERIF
from . import potentials as RP
from . import calculate as RCa
from . import prism as RPr
from . import density as RDn
from spec import potentials as PSPEC

ENERGY = ('epsilon', 'high_value')


def _scale(term, names, lam):
    return N.subs(term, {n: N.sym(n) * lam for n in names})


def rule_potential_degree(ctx, rule='R04.e'):
    """every potential is homogeneous of degree 1 in its energy parameters (so u/kT is invariant when all
    energies and kT are multiplied by the same factor)"""
    lam = N.sym('@lam')
    n = 0
    for cls in RP.potential_classes(ctx.prog):
        f = cls.find_method('calculate')
        params, vals = RP.valuations(cls)
        for val in vals:
            try:
                w = RP.run_potential(ctx.prog, cls, val)
                term = w['res'].t
            except (Unsupported, Raised) as e:
                ctx.undecided(rule, cls.qualname, '%s: %s' % (RP._valname(val), e), f.loc())
                continue
            n += 1
            energy = [p for p in params if p in ENERGY]
            bad = []
            for leaf in P.leaves(term):
                if not _scale(leaf, energy, lam).equals(leaf * lam):
                    bad.append('branch %s is not of degree 1 in %s' % (N.show(leaf)[:100], energy))
            ps, fs = P.conds(term)
            for a, b in ps:
                for k in (a, b):
                    if set(N.nf_from_key(k).symbols()) & set(energy):
                        bad.append('an energy parameter decides which branch applies')
            if bad:
                ctx.violation(rule, cls.qualname, 'energy-degree:' + RP._valname(val), '; '.join(sorted(set(bad))), f.loc())
            else:
                ctx.holds(rule, cls.qualname, '%s: u(r) scales linearly with (%s)' % (RP._valname(val), ','.join(energy) or 'no energy parameter'),
                          f.loc(), key=RP._valname(val))
    ctx.floor(rule, n, 8, 'potential valuations checked for energy degree')


def rule_kT_degree(ctx, rule='R04.k'):
    """potentials of mean force scale with kT, all structural results do not depend on kT; the cost residual depends on
    energies only through u/kT"""
    lam = N.sym('@lam')
    want = {'pair_correlation': 0, 'structure_factor': 0, 'second_virial': 0, 'chi': 0, 'spinodal_condition': 0,
            'pmf': 1, 'solvation_potential': 1}
    for fname, deg in sorted(want.items()):
        f = RCa.finfo(ctx.prog, fname)
        construct = 'pyPRISM.calculate.%s' % fname
        try:
            for val in RCa.valuations(f):
                for d, ip, r in RCa.worlds_of(ctx.prog, fname, val):
                    res = r['res']
                    terms = []
                    if isinstance(res, Obj) and res.isa('MatrixArray'):
                        terms = [RCa.ma_term(ip, res)]
                    else:
                        terms = [rec['term'] for rec in RCa.pt_records(ip, res)]
                    for t in terms:
                        t = RCa.canon(ip, t)
                        sc = RCa.canon(ip, _scale(t, ['kT'], lam))
                        ok = sc.equals(t * lam) if deg == 1 else ('kT' not in t.symbols())
                        if not ok:
                            ctx.violation(rule, construct, 'kT-degree:' + RCa.valname(val),
                                          '%s: result is %s in kT, expected degree %d' % (RCa.valname(val), 'not independent' if deg == 0 else 'not linear', deg), f.loc())
                            raise StopIteration
            ctx.holds(rule, construct, 'degree %d in kT for every flag valuation' % deg, f.loc())
        except StopIteration:
            pass
        except (Unsupported, Raised) as e:
            ctx.undecided(rule, construct, str(e), f.loc())
    # cost residual
    cls = ctx.prog.cls(RPr.PRISMQ)
    m = cls.find_method('cost')
    ws = explore(lambda preset: RPr.run_cost(ctx.prog, preset))
    d, ip, r = ws[0]
    y = W.attr_term(ip, r['ret'])

    def leaf(a):
        if a == ('sym', 'kT'):
            return N.sym('kT') * lam
        if a[0] == 'fn' and a[1] == 'Ucalc':
            return N.NF.atom(a) * lam
        return None
    ys = N.transform(y, leaf)
    if ys.equals(y) and 'kT' in y.symbols():
        ctx.holds(rule, RPr.PRISMQ + '.cost', 'residual is invariant when every potential and kT are multiplied by the same factor '
                  '(energies enter only as u/kT)', m.loc())
    elif 'kT' not in y.symbols():
        ctx.violation(rule, RPr.PRISMQ + '.cost', 'kT-missing', 'the residual does not depend on kT at all: potentials are not divided by kT', m.loc())
    else:
        ctx.violation(rule, RPr.PRISMQ + '.cost', 'kT-degree', 'the residual changes under a joint rescaling of energies and kT', m.loc())


def rule_swap_symmetry(ctx, rule='R04.a'):
    """the derived density / diameter formulas are symmetric in the two labels"""
    for which, cls_q, fn_ in (('density', RDn.DENS, 'rho'), ('diameter', RDn.DIAM, 'dia')):
        worlds = RDn._worlds(ctx.prog, which, ('a',))
        bad = []
        n = 0
        for d, ip, o in worlds:
            recs = []
            for w in ip.entry_writes:
                recs.append((w['pair'], w['term']))
            if which == 'diameter':
                for rec in ip.get_attr(o, 'sigma', None).attrs['_native_store']:
                    if isinstance(rec['value'], Num):
                        recs.append((rec['labels'], rec['value'].t))
            for (la, lb), t in recs:
                n += 1
                la, lb = ip.canon_label(la), ip.canon_label(lb)
                t = RDn._canon_term(ip, t)
                # exchange the roles of the two types: v <-> f(lb)
                other = N.NF.atom(('fn', fn_, lb))
                sw = N.transform(t, lambda a: other if a == ('sym', 'v') else (N.sym('v') if a == ('fn', fn_, lb) else None))
                if la != lb and not sw.equals(t):
                    bad.append('%s is not symmetric in the two types' % N.show(t))
        if bad:
            ctx.violation(rule, cls_q, 'asymmetric', '; '.join(sorted(set(bad))))
        else:
            ctx.holds(rule, cls_q, '%d derived pair values are symmetric under exchange of the two types' % n)


def _literal_key_hits(tree):
    hits = []
    for n in ast.walk(tree):
        if isinstance(n, ast.Subscript):
            sl = n.slice
            elts = sl.elts if isinstance(sl, ast.Tuple) else [sl]
            strs = [e for e in elts if isinstance(e, ast.Constant) and isinstance(e.value, str)]
            ints = [e for e in elts if isinstance(e, ast.Constant) and isinstance(e.value, int) and not isinstance(e.value, bool)]
            if strs:
                hits.append((n.lineno, 'string key %s' % norm(n)))
            elif isinstance(sl, ast.Tuple) and len(elts) == 3 and isinstance(elts[0], ast.Slice) and len(ints) >= 1 and \
                    all(isinstance(e, (ast.Constant, ast.Slice)) for e in elts):
                hits.append((n.lineno, 'literal type index %s' % norm(n)))
        elif isinstance(n, ast.Compare):
            for op, c in zip(n.ops, [n.left] + n.comparators[:-1]):
                pass
            sides = [n.left] + list(n.comparators)
            if any(isinstance(s_, ast.Constant) and isinstance(s_.value, str) for s_ in sides) and \
                    any(isinstance(s_, ast.Name) and s_.id in ('t', 't1', 't2', 'type1', 'type2') for s_ in sides):
                hits.append((n.lineno, 'comparison of a type label with a literal %s' % norm(n)))
    return hits


def rule_label_parametricity(ctx, rule='R04.c'):
    """core/ and calculate/ never address a type by a literal name or position"""
    fx = os.path.join(VERIF, 'selftest', 'fixtures', 'literal_labels.py')
    ctl = _literal_key_hits(ast.parse(open(fx).read()))
    if len(ctl) < 3:
        ctx.undecided(rule, 'positive-control', 'literal-label fixture not flagged (%d hits)' % len(ctl))
        return
    hits = []
    nmod = 0
    for mod in ctx.prog.modules.values():
        if not (mod.name.startswith('pyPRISM.core') or mod.name.startswith('pyPRISM.calculate')):
            continue
        nmod += 1
        for line, what in _literal_key_hits(mod.tree):
            hits.append('%s:%d %s' % (mod.relpath, line, what))
    if hits:
        ctx.violation(rule, 'pyPRISM.core+calculate', 'literal-label', 'type-keyed data addressed by literal: %s' % hits[:5])
    else:
        ctx.holds(rule, 'pyPRISM.core+calculate', 'no literal type names / positions in %d modules (positive control: %d hits)' % (nmod, len(ctl)))


def rule_symmetric_tables(ctx, rule='R04.b'):
    """no PairTable in the package is constructed asymmetric"""
    n = 0
    bad = []
    for mod in ctx.prog.modules.values():
        for node in ast.walk(mod.tree):
            if isinstance(node, ast.Call) and call_name(node) == 'PairTable':
                n += 1
                for k in node.keywords:
                    if k.arg == 'symmetric':
                        if isinstance(k.value, ast.Constant) and k.value.value is False:
                            bad.append('%s:%d' % (mod.relpath, node.lineno))
                        elif not (isinstance(k.value, ast.Constant) and k.value.value is True) and norm(k.value) != 'self.symmetric':
                            bad.append('%s:%d symmetric=%s' % (mod.relpath, node.lineno, norm(k.value)))
                if len(node.args) >= 3:
                    bad.append('%s:%d positional symmetric flag' % (mod.relpath, node.lineno))
    if bad:
        ctx.violation(rule, 'package', 'asymmetric-table', 'PairTable constructed with symmetric != True at %s' % bad)
    else:
        ctx.holds(rule, 'package', 'all %d PairTable constructions are symmetric (default or forwarded flag)' % n)
    ctx.floor(rule, n, 9, 'PairTable constructions')
