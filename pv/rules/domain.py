"""Rules R07.* (transforms are exact mutual inverses on every reachable Domain) and R08.* (absolute
prefactors of the 3-D radial transform pair)."""
import ast
from .. import nf as N
from .. import pw as P
from .. import linops
from .. import natives as NAT
from .. import worlds as W
from ..interp import Interp, Arr, Num, View, Const, Obj, Unsupported, Raised, NONE, explore
from ..model import AnalysisError

DOMAIN = 'pyPRISM.core.Domain::Domain'
BASE_DERIVED = ('_dr', '_dk', '_length', 'r', 'k', 'DST_II_coeffs', 'DST_III_coeffs', 'long_r')


def _new_ip(prog):
    ip = Interp(prog)
    NAT.install_containers(ip, domain_transforms=False, tables=False, matrixarray=True)
    return ip


def _sym_int(ip, name):
    s = ip.declare(name, integer=True)
    ip.nonneg.add(name)
    return s


def _state(ip, dom):
    out = {}
    for k, v in dom.attrs.items():
        t = W.attr_term(ip, v)
        if t is not None:
            out[k] = t
    return out


def _uninit_name(t):
    if P.is_pw(t) or not t.is_monomial():
        return None
    syms = [a for a in t.atoms()]
    if len(syms) == 1 and syms[0][0] == 'sym' and syms[0][1].startswith('uninit') and t.equals(N.sym(syms[0][1])):
        return syms[0][1]
    return None


def _public(ip, dom):
    """the documented read interface of a Domain: dr, dk, length (properties), r, k, long_r"""
    out = {}
    for nm in ('dr', 'dk', 'length', 'r', 'k', 'long_r'):
        try:
            v = ip.get_attr(dom, nm, None)
        except (Raised, Unsupported):
            continue
        t = W.attr_term(ip, v)
        if t is not None:
            out[nm] = t
    return out


def _behaviour(ip, dom):
    """what the two scalar transforms of this Domain return for the same symbolic inputs"""
    ip.declare('f', 'curve')
    ip.declare('F', 'curve')
    out = {}
    for nm, sym in (('to_fourier', 'f'), ('to_real', 'F')):
        res = ip.call(ip.find_method(dom, nm), [Arr(N.sym(sym), 'array', ip)], {})
        out[nm + '(%s)' % sym] = ip.term_of(res)[0]
    return out


def _compare_states(ip, got, want):
    bad = []
    for k in sorted(want):
        if k not in got:
            bad.append('%s missing' % k)
            continue
        ug, uw = _uninit_name(got[k]), _uninit_name(want[k])
        if ug and uw:
            # two scratch buffers (np.empty): contents are unspecified on both sides, only the shape can differ
            dg, dw = ip.lib.UNINIT_DIM.get(ug), ip.lib.UNINIT_DIM.get(uw)
            if dg is None or dw is None or P.compare(dg, dw)[0]:
                bad.append('%s is an uninitialised buffer of length %s but a fresh Domain has length %s' % (
                    k, P.show(dg) if dg is not None else '?', P.show(dw) if dw is not None else '?'))
            continue
        d, _ = P.compare(got[k], want[k])
        if d:
            bad.append('%s is %s but a fresh Domain has %s' % (k, P.show(got[k]), P.show(want[k])))
    return bad


def mutator_cases(prog):
    """(name, function building the mutated object, function giving (L', dr') of the fresh twin)"""
    cls = prog.cls(DOMAIN)
    cases = []

    def init_dk(ip):
        L, v = _sym_int(ip, 'L0'), ip.declare('v')
        return W.fresh_domain(ip, Num(L), dk=Num(v)), (L, N.PI / (v * L))
    cases.append(('__init__(length,dk)', init_dk, cls.find_method('__init__')))

    def init_both(ip):
        # both spacings given: refused, or -- on whatever path the constructor accepts them -- the Domain of (length, dr)
        L, d, v = _sym_int(ip, 'L0'), ip.declare('d0'), ip.declare('v')
        return W.fresh_domain(ip, Num(L), dr=Num(d), dk=Num(v)), (L, d)
    cases.append(('__init__(length,dr,dk)', init_both, cls.find_method('__init__')))
    for sname in sorted(cls.setters):
        def mk(sname=sname):
            def f(ip):
                L0, d0, v = _sym_int(ip, 'L0'), ip.declare('d0'), ip.declare('v')
                if sname == 'length':
                    v = _sym_int(ip, 'L1')
                dom = W.fresh_domain(ip, Num(L0), dr=Num(d0))
                dom.origin = 'self'
                ip.set_attr(dom, sname, Num(v), None)
                if sname == 'dr':
                    return dom, (L0, v)
                if sname == 'dk':
                    return dom, (L0, N.PI / (v * L0))
                if sname == 'length':
                    return dom, (v, d0)
                raise Unsupported('unknown property setter %s: which fresh Domain should it equal?' % sname)
            return f
        cases.append(('%s.setter' % sname, mk(), cls.setters[sname]))
    return cases


def rule_mutators(ctx, rule='R07.i'):
    """every mutator maps a fresh-equivalent Domain to a fresh-equivalent Domain (inductive invariant:
    all of _dr,_dk,_length,r,k,DST coefficients,long_r equal those of Domain(length', dr'))"""
    n = 0
    for name, build, finfo in mutator_cases(ctx.prog):
        construct = '%s::%s' % (DOMAIN, name)

        def run(preset, build=build):
            ip = _new_ip(ctx.prog)
            ip.preset = list(preset)
            dom, (L1, d1) = build(ip)
            w = {'got': _state(ip, dom), 'got_pub': _public(ip, dom)}
            twin = W.fresh_domain(ip, Num(L1), dr=Num(d1))
            w['want'] = _state(ip, twin)
            w['want_pub'] = _public(ip, twin)
            # the transforms of the mutated Domain against those of the fresh one (whatever private attributes, instance
            # or class level, the coefficients are kept in)
            w['got_beh'] = _behaviour(ip, dom)
            w['want_beh'] = _behaviour(ip, twin)
            return ip, w
        try:
            worlds = explore(run, keep_raised=True)
        except (Unsupported, Raised) as e:
            ctx.undecided(rule, construct, str(e), finfo.loc())
            continue
        n += 1
        bad, missing = [], []
        refused = [w for dec, ip, w in worlds if ip is None]
        worlds = [x for x in worlds if x[1] is not None]
        if refused and not worlds:
            if name == '__init__(length,dr,dk)':
                ctx.holds(rule, construct, 'refused (%s): no Domain with two independently given spacings exists' % refused[0].exc,
                          finfo.loc(), nontrivial=False)
            else:
                ctx.violation(rule, construct, 'raises', '%s raises %s for every input' % (name, refused[0].exc), finfo.loc())
            continue
        got_pub, want = {}, {}
        for dec, ip, w in worlds:
            missing = [a for a in ('dr', 'dk', 'length', 'r', 'k') if a not in w['want_pub']]
            if missing:
                break
            # a path on which the code found the new value equal to the old one (`if value == self._length: return`) is a
            # path on which they ARE equal; a tolerance test (np.isclose) implies no such thing
            eqs = P.equalities(dec)
            for nm in ('got', 'got_pub', 'got_beh', 'want', 'want_pub', 'want_beh'):
                w[nm] = {k_: P.subs(v_, eqs) for k_, v_ in w[nm].items()}
            where = (' (on the path where %s)' % ', '.join('%s is %s' % (c.show(), b_) for c, b_, _ in dec)) if dec else ''
            b0 = _compare_states(ip, w['got'], w['want'])
            b0 += [b for b in _compare_states(ip, w['got_pub'], w['want_pub']) if b not in b0 and b.split(' ')[0] not in w['got']]
            b0 += _compare_states(ip, w['got_beh'], w['want_beh'])
            bad += [b + where for b in b0]
            got_pub = w['got_pub']
            want = w['want']
        if missing:
            ctx.undecided(rule, construct, 'fresh Domain lacks the documented attributes %s' % missing, finfo.loc())
            continue
        if bad:
            ctx.violation(rule, construct, 'stale:' + ','.join(sorted(b.split(' ')[0] for b in bad)),
                          'after %s the Domain differs from a freshly constructed one with the same length and dr: %s'
                          % (name, '; '.join(bad)), finfo.loc())
        else:
            ctx.holds(rule, construct, 'all %d grid attributes, the documented read interface and both transforms equal those of '
                      'Domain(length\', dr\') -- invariant dr*dk*length=pi and derived arrays re-established' % len(want), finfo.loc(),
                      sample={'mutator': name, 'dk': N.show(got_pub['dk']), 'r': P.show(got_pub['r'])})
    ctx.floor(rule, n, 5, 'Domain mutators (__init__ via dk, via both spacings, setters dr/dk/length)')


def rule_two_domains(ctx, rule='R07.j'):
    """a Domain is determined by its own length and spacing: after a *second* Domain with another length and spacing was
    constructed -- and then re-configured through each setter -- in the same process, the first one still has the state,
    the read interface and the transforms of a fresh Domain(length, dr).  Catches grid data kept at class or module
    level."""
    cls = ctx.prog.cls(DOMAIN)
    m = cls.find_method('__init__')
    construct = DOMAIN + '::two-instances'
    def run(preset):
        ip = _new_ip(ctx.prog)
        ip.preset = list(preset)
        L, d = _sym_int(ip, 'L'), ip.declare('dr')
        dom = W.fresh_domain(ip, Num(L), dr=Num(d))
        ref_ip = _new_ip(ctx.prog)
        Lr, dr_ = _sym_int(ref_ip, 'L'), ref_ip.declare('dr')
        ref = W.fresh_domain(ref_ip, Num(Lr), dr=Num(dr_))
        want = dict(_state(ref_ip, ref))
        want.update(_public(ref_ip, ref))
        want.update(_behaviour(ref_ip, ref))
        steps = []
        L2, d2 = _sym_int(ip, 'L2'), ip.declare('dr2')
        other = W.fresh_domain(ip, Num(L2), dr=Num(d2))
        steps.append('another Domain(length=L2, dr=dr2) was constructed')
        bad = []

        def compare(after):
            got = dict(_state(ip, dom))
            got.update(_public(ip, dom))
            got.update(_behaviour(ip, dom))
            for b in _compare_states(ip, got, want):
                bad.append('after %s: %s' % (after, b))
        compare(steps[-1])
        for sname in sorted(cls.setters):
            v = _sym_int(ip, 'L3') if sname == 'length' else ip.declare('v_' + sname)
            ip.set_attr(other, sname, Num(v), None)
            compare('the other Domain\'s %s was re-assigned' % sname)
            if bad:
                break
        return ip, bad
    try:
        bad = []
        for dec, ip_, b_ in explore(run):
            bad += b_
    except (Unsupported, Raised) as e:
        ctx.undecided(rule, construct, str(e), m.loc())
        return
    if bad:
        ctx.violation(rule, construct, 'shared-state', '; '.join(bad[:3]), m.loc())
    else:
        ctx.holds(rule, construct, 'constructing and re-configuring a second Domain leaves the first one equal to a fresh '
                  'Domain(length, dr): state, read interface and both transforms', m.loc())


def _fresh(ctx):
    ip = _new_ip(ctx.prog)
    L, d = _sym_int(ip, 'L'), ip.declare('dr')
    dom = W.fresh_domain(ip, Num(L), dr=Num(d))
    return ip, dom, L, d


def rule_grid(ctx, rule='R07.g'):
    """r_i=(i+1)dr, k_j=(j+1)dk with exactly `length` points determined by `length` alone; dk=pi/(dr*length)"""
    cls = ctx.prog.cls(DOMAIN)
    bg = cls.find_method('build_grid') or cls.find_method('__init__')
    ip, dom, L, d = _fresh(ctx)
    st = _public(ip, dom)
    iota = N.fn('iota', L)
    dk = N.PI / (d * L)
    checks = [('dk', dk, 'R08.k'), ('r', d * (1 + iota), rule), ('k', dk * (1 + iota), rule)]
    for attr, want, rid in checks:
        construct = '%s::%s' % (DOMAIN, attr)
        got = st.get(attr)
        if got is None:
            ctx.undecided(rid, construct, 'attribute vanished', bg.loc())
            continue
        if P.is_pw(got):
            ctx.undecided(rid, construct, 'piecewise grid', bg.loc())
            continue
        far = [a for a in got.all_atoms() if a[0] == 'fn' and a[1] == 'farange']
        if far:
            ctx.violation('R07.n', construct, 'float-step-arange',
                          'grid is built by np.arange with a floating-point step and stop (%s): the number of points is '
                          'ceil((stop-start)/step) in floating point and is not determined by `length` alone '
                          '(e.g. Domain(length=2,dr=0.1) has 3 points)' % N.show(got), bg.loc())
            continue
        if got.equals(want):
            ctx.holds(rid, construct, '%s == %s (exactly `length` points)' % (attr, N.show(want)), bg.loc(),
                      sample={'attr': attr, 'term': N.show(got)})
        else:
            ctx.violation(rid, construct, 'grid-definition', '%s is %s, expected %s' % (attr, N.show(got), N.show(want)), bg.loc())


def _transforms(ctx):
    ip, dom, L, d = _fresh(ctx)
    ip.declare('f', 'curve')
    ip.declare('F', 'curve')
    f = Arr(N.sym('f'), 'array', ip)
    tf = ip.call(ip.find_method(dom, 'to_fourier'), [f], {})
    F = Arr(N.sym('F'), 'array', ip)
    tr = ip.call(ip.find_method(dom, 'to_real'), [F], {})
    return ip, dom, L, d, f, F, tf, tr


def _norm(ip, t, L):
    return linops.normalize(t, ip.atom_is_array, L)


def rule_prefactors(ctx, rule='R08.f'):
    """absolute prefactors: forward dst2(2 pi r dr f)/k, backward dst3(k dk/(4 pi^2) F)/r, un-normalised DST"""
    cls = ctx.prog.cls(DOMAIN)
    ip, dom, L, d, f, F, tf, tr = _transforms(ctx)
    st = _public(ip, dom)
    r, k, dk = st['r'], st['k'], st['dk']
    for nm, got, want, fn_, rid in (
            ('to_fourier', tf, N.fn('dst2', 2 * N.PI * r * d * N.sym('f')) / k, 'to_fourier', 'R08.f'),
            ('to_real', tr, N.fn('dst3', k * dk / (4 * N.PI * N.PI) * N.sym('F')) / r, 'to_real', 'R08.b')):
        m = cls.find_method(fn_)
        construct = '%s::%s' % (DOMAIN, nm)
        t, _ = ip.term_of(got)
        if P.is_pw(t):
            ctx.undecided(rid, construct, 'piecewise transform', m.loc())
            continue
        a, b = _norm(ip, t, L), _norm(ip, want, L)
        if a.equals(b):
            ctx.holds(rid, construct, '%s(x) == %s' % (nm, N.show(b)), m.loc(), sample={'transform': nm, 'term': N.show(a)})
        else:
            ctx.violation(rid, construct, 'prefactor', '%s(x) = %s but the 3-D radial transform pair requires %s'
                          % (nm, N.show(a), N.show(b)), m.loc())
        if isinstance(got, Arr) and not got.fresh:
            ctx.violation(rid, construct, 'aliases-input', 'transform returns its argument', m.loc())
    dsts = [x for kind, x in ip.notes if kind == 'dst']
    types = sorted(x['type'] for x in dsts)
    if types != [2, 3] or any(x['extra_kwargs'] for x in dsts):
        ctx.violation('R08.t', DOMAIN, 'dst-types', 'expected one un-normalised DST-II and one DST-III call, found %s'
                      % [(x['type'], x['extra_kwargs']) for x in dsts])
    else:
        ctx.holds('R08.t', DOMAIN, 'scipy dst type=2 (forward) and type=3 (backward), no norm=/axis= keywords',
                  nontrivial=False)


def rule_integer_spacing(ctx, rule='R08.i'):
    """the spacing may be given as a Python int (Domain(length=128, dr=1), Domain(length=256, dk=1)): r or k is then an
    integer array, and every operation that keeps the dtype of its operand (np.reciprocal, //, in-place division, *_like
    buffers) truncates.  Both transforms of such a Domain must be the transforms of the float-spaced Domain."""
    cls = ctx.prog.cls(DOMAIN)
    m = cls.find_method('__init__')
    n = 0
    for which in ('dr', 'dk'):
        construct = '%s::__init__(length,%s:int)' % (DOMAIN, which)

        def build(inty, which=which, preset=()):
            ip = _new_ip(ctx.prog)
            ip.preset = list(preset)
            L, d = _sym_int(ip, 'L'), ip.declare('d')
            nl, nd = Num(L), Num(d)
            nl.inty = True
            nd.inty = inty
            dom = W.fresh_domain(ip, nl, **{which: nd})
            ip.declare('f', 'curve')
            ip.declare('F', 'curve')
            out = {}
            for nm, sym in (('to_fourier', 'f'), ('to_real', 'F')):
                res = ip.call(ip.find_method(dom, nm), [Arr(N.sym(sym), 'array', ip)], {})
                out[nm] = ip.term_of(res)[0]
            for nm in ('r', 'k'):
                out[nm] = W.attr_term(ip, ip.get_attr(dom, nm, None))
            # then the spacing is re-assigned to a float through the setter (same length): the Domain of the integer start
            # must end up where the Domain of the float start does
            ip.set_attr(dom, which, Num(ip.declare('d2')), None)
            for nm, sym in (('to_fourier', 'f'), ('to_real', 'F')):
                res = ip.call(ip.find_method(dom, nm), [Arr(N.sym(sym), 'array', ip)], {})
                out[nm + ' after %s was re-assigned to a float' % which] = ip.term_of(res)[0]
            for nm in ('r', 'k'):
                out[nm + ' after %s was re-assigned to a float' % which] = W.attr_term(ip, ip.get_attr(dom, nm, None))
            return ip, out
        try:
            # data-dependent branches of the setters (`if value == self._dr: return`) are explored; the float and the
            # integer start take the same decisions, path by path
            wf = explore(lambda preset: build(False, preset=preset))
            wi = explore(lambda preset: build(True, preset=preset))
            if [[(c.key(), b_) for c, b_, _ in d_] for d_, _, _ in wf] != [[(c.key(), b_) for c, b_, _ in d_] for d_, _, _ in wi]:
                raise Unsupported('the integer-spaced and the float-spaced construction branch differently')
        except (Unsupported, Raised) as e:
            ctx.undecided(rule, construct, str(e), m.loc())
            continue
        n += 1
        bad, bad_names = [], set()
        for (dec_f, ipf, flt), (dec_i, ipi, itg) in zip(wf, wi):
          for nm in sorted(flt):
            if itg[nm] is None or flt[nm] is None or P.compare(itg[nm], flt[nm])[0]:
                ev = [e_ for e_ in ipi.events if e_['kind'] in ('int-reciprocal', 'int-store')]
                if nm in bad_names:
                    continue
                bad_names.add(nm)
                bad.append('%s is %s for an integer %s but %s for a float one%s' % (
                    nm, P.show(itg[nm])[:120], which, P.show(flt[nm])[:120],
                    (' (%s at %s)' % ('np.reciprocal of an integer array is the integer reciprocal' if ev[0]['kind'] == 'int-reciprocal'
                                      else 'a slice store into the integer grid array truncates', ev[0]['loc'])) if ev else ''))
        if bad:
            ctx.violation(rule, construct, 'integer-spacing', '; '.join(bad[:2]), m.loc())
        else:
            ctx.holds(rule, construct, 'grids and both transforms are those of the float-spaced Domain', m.loc())
    ctx.floor(rule, n, 2, 'integer-spacing constructions (dr, dk)')


def rule_roundtrip(ctx, rule='R07.t'):
    """to_real(to_fourier(f)) == f and to_fourier(to_real(F)) == F as terms (DST-III o DST-II = 2N id)"""
    cls = ctx.prog.cls(DOMAIN)
    ip, dom, L, d = _fresh(ctx)
    ip.declare('f', 'curve')
    for first, second, nm in (('to_fourier', 'to_real', 'to_real(to_fourier(f))'),
                              ('to_real', 'to_fourier', 'to_fourier(to_real(F))')):
        construct = '%s::%s' % (DOMAIN, nm)
        m = cls.find_method(second)
        f = Arr(N.sym('f'), 'array', ip)
        mid = ip.call(ip.find_method(dom, first), [f], {})
        out = ip.call(ip.find_method(dom, second), [mid], {})
        t, _ = ip.term_of(out)
        t = _norm(ip, t, L)
        if t.equals(N.sym('f')):
            ctx.holds(rule, construct, 'composite normalises to the identity (prefactor product dr*dk*N/pi == 1)', m.loc(),
                      sample={'composite': nm, 'normal_form': N.show(t)})
        else:
            ctx.violation(rule, construct, 'roundtrip', 'composite is %s, not the identity' % N.show(t), m.loc())
        for e in ip.events:
            if e['kind'] == 'write' and e['target'] == 'array':
                ctx.violation(rule, construct, 'writes-input', 'transform modifies its argument in place at %s' % e['loc'], m.loc())


def rule_linearity(ctx, rule='R07.l'):
    cls = ctx.prog.cls(DOMAIN)
    ip, dom, L, d = _fresh(ctx)
    for s in ('f', 'g'):
        ip.declare(s, 'curve')
    a, b = ip.declare('a'), ip.declare('b')
    for nm in ('to_fourier', 'to_real'):
        m = cls.find_method(nm)
        construct = '%s::%s' % (DOMAIN, nm)

        def T(x):
            arr = Arr(x, 'array', ip)
            out = ip.call(ip.find_method(dom, nm), [arr], {})
            return _norm(ip, ip.term_of(out)[0], L)
        lhs = T(a * N.sym('f') + b * N.sym('g'))
        rhs = a * T(N.sym('f')) + b * T(N.sym('g'))
        if lhs.equals(rhs):
            ctx.holds(rule, construct, 'T(a f + b g) == a T(f) + b T(g)', m.loc())
        else:
            ctx.violation(rule, construct, 'nonlinear', 'T(af+bg) - aT(f) - bT(g) = %s' % N.show(lhs - rhs), m.loc())
        # purity and state independence: the argument is left untouched, the Domain is observably the same afterwards (a
        # scratch buffer that was allocated uninitialised may hold anything), the result is a new array that the Domain does
        # not keep, and a second transform (of g after f) gives what a fresh Domain gives while the first result stays put
        arr_f = Arr(N.sym('f'), 'array', ip)
        e0 = len(ip.events)
        before = _state(ip, dom)
        out_f = ip.call(ip.find_method(dom, nm), [arr_f], {})
        out_g = ip.call(ip.find_method(dom, nm), [Arr(N.sym('g'), 'array2', ip)], {})
        bad = []
        for e in ip.events[e0:]:
            if e['kind'] == 'write' and (e['target'] or '').startswith('array'):
                bad.append('writes its argument in place at %s' % e['loc'])
            elif e['kind'] == 'dtype-cast' and (e['target'] or '').startswith('array'):
                bad.append('the result is stored into an array that has the dtype of the argument (%s at %s): integer or boolean '
                           'input is truncated' % (e.get('via'), e['loc']))
        root = out_f
        while isinstance(root, View):
            root = root.base
        held = [k_ for k_, v_ in dom.attrs.items() if v_ is root]
        if root is arr_f or (isinstance(root, Arr) and not root.fresh):
            bad.append('returns (a view of) an existing array instead of a new one')
        elif held:
            bad.append('returns the Domain\'s own array Domain.%s (every result of this Domain is the same memory)' % held[0])
        if out_f is out_g or (isinstance(out_g, Arr) and isinstance(out_f, Arr) and out_g is out_f):
            bad.append('two calls return the same array')
        after = _state(ip, dom)
        for k_ in sorted(before):
            if _uninit_name(before[k_]):
                continue
            if k_ not in after or P.compare(after[k_], before[k_])[0]:
                bad.append('Domain.%s changes during a transform' % k_)
        ip2, dom2, L2, d2 = _fresh(ctx)
        ip2.declare('g', 'curve')
        ip2.declare('f', 'curve')
        alone_g = _norm(ip2, ip2.term_of(ip2.call(ip2.find_method(dom2, nm), [Arr(N.sym('g'), 'array', ip2)], {}))[0], L2)
        alone_f = _norm(ip2, ip2.term_of(ip2.call(ip2.find_method(dom2, nm), [Arr(N.sym('f'), 'array', ip2)], {}))[0], L2)
        if not _norm(ip, ip.term_of(out_g)[0], L).equals(alone_g):
            bad.append('the transform of g after a transform of f differs from the transform of g by a fresh Domain')
        if not _norm(ip, ip.term_of(out_f)[0], L).equals(alone_f):
            bad.append('the first result changes when the transform is called again')
        # the caller re-uses its buffer: same array object, new contents (amplitude / parameter sweeps through one work array)
        buf = Arr(N.sym('f'), 'array3', ip)
        ip.call(ip.find_method(dom, nm), [buf], {})
        buf.t = N.sym('g')
        again = ip.call(ip.find_method(dom, nm), [buf], {})
        if not _norm(ip, ip.term_of(again)[0], L).equals(alone_g):
            bad.append('an array transformed once and then modified in place is not transformed again (the result of the first '
                       'call is returned for the same array object)')
        if bad:
            ctx.violation('R07.p', construct, 'purity', '; '.join(sorted(set(bad))), m.loc())
        else:
            ctx.holds('R07.p', construct, 'argument and Domain untouched, result is a new array, successive calls independent', m.loc())


def rule_matrixarray_transforms(ctx, rule='R07.m'):
    """MatrixArray_to_fourier/real: guard refuses an array already in the target space before touching it;
    every unordered pair is transformed with the scalar transform and stored under the same key through the
    symmetric setter; the flag is set to the target after the loop"""
    cls = ctx.prog.cls(DOMAIN)
    for nm, scalar, target, other in (('MatrixArray_to_fourier', 'to_fourier', 'Fourier', 'Real'),
                                      ('MatrixArray_to_real', 'to_real', 'Real', 'Fourier')):
        m = cls.find_method(nm)
        if m is None:
            ctx.undecided(rule, '%s::%s' % (DOMAIN, nm), 'method vanished')
            continue
        construct = '%s::%s' % (DOMAIN, nm)
        # (1) refusal
        ip, dom, L, d = _fresh(ctx)
        ma = W.matrixarray(ip, 'M', target, origin='marray')
        e0 = len(ip.events)
        try:
            ip.call(ip.find_method(dom, nm), [ma], {})
            ctx.violation(rule, construct, 'guard', 'an array already flagged %s is transformed again instead of being refused' % target, m.loc())
        except Raised as e:
            ev = [x for x in ip.events[e0:] if x['kind'] in ('write', 'bind')]
            if e.exc != 'ValueError':
                ctx.violation(rule, construct, 'guard', 'refusal raises %s, not ValueError' % e.exc, m.loc())
            elif ev:
                ctx.violation(rule, construct, 'guard', 'array is modified (%s) before the refusal' % ev[0]['loc'], m.loc())
            else:
                ctx.holds(rule, construct, 'ValueError before any write when already in %s space' % target, m.loc(), key='guard')
        # (1b) an array flagged NonSpatial is not "already in the target space": it is transformed like any other
        from ..interp import explore as _explore

        def run_ns(preset, nm=nm):
            ipn, domn, Ln, dn = _fresh(ctx)
            ipn.preset = list(preset)
            man = W.matrixarray(ipn, 'M', 'NonSpatial', origin='marray')
            ipn.call(ipn.find_method(domn, nm), [man], {})
            return ipn, man
        try:
            outcomes = set()
            for d_, ipn, man in _explore(run_ns, keep_raised=True):
                if ipn is None:
                    outcomes.add('an array flagged NonSpatial is refused (%s: %s) although it is not in %s space' % (
                        man.exc, (man.msg or '')[:80], target))
                elif getattr(man.attrs['space'], 'v', None) != ('Space', target):
                    outcomes.add('a NonSpatial array is flagged %r after the transform' % (getattr(man.attrs['space'], 'v', None),))
            if outcomes:
                ctx.violation(rule, construct, 'nonspatial', '; '.join(sorted(outcomes)), m.loc())
            else:
                ctx.holds(rule, construct, 'a NonSpatial array is transformed and flagged %s' % target, m.loc(), key='nonspatial')
        except Unsupported as e:
            ctx.undecided(rule, construct, 'NonSpatial array: %s' % e, m.loc())
        # (2) transformation (data-dependent branches inside the loop are explored: every path must transform every pair)
        from ..interp import explore

        def run(preset, nm=nm):
            ip, dom, L, d = _fresh(ctx)
            ip.preset = list(preset)
            ma = W.matrixarray(ip, 'M', other, origin='marray')
            e0 = len(ip.events)
            ip.call(ip.find_method(dom, nm), [ma], {})
            return ip, {'dom': dom, 'ma': ma, 'e0': e0}
        try:
            worlds = explore(run, keep_raised=True)
        except Unsupported as e:
            ctx.undecided(rule, construct, str(e), m.loc())
            continue
        bad = []
        data = None
        for dec, ip, w in worlds:
            where = (' (on the path where %s)' % ', '.join('%s is %s' % (c.show(), b_) for c, b_, _ in dec)) if dec else ''
            if ip is None:
                bad.append('raises %s for an array in %s space%s' % (w, other, where))
                continue
            dom, ma, e0 = w['dom'], w['ma'], w['e0']
            data = ma.attrs['data']
            ip.declare('c', 'curve')
            ref_in = Arr(N.NF.atom(('fn', 'ent', 'M', '@a', '@b')), 'pair', ip)
            ref = ip.call(ip.find_method(dom, scalar), [ref_in], {})
            want = N.fn('tab', ip.term_of(ref)[0])
            if P.is_pw(data.t) or not data.t.equals(want):
                stores = [x for kind, c in ip.notes if kind == 'pairloop' for x in c['stores']]
                cov = [x.get('coverage') for x in stores]
                bad.append('data after the call is %s; expected every unordered pair (a,b) := %s(pair(a,b)) '
                           '[pair coverage seen: %s]%s' % (P.show(data.t), scalar, cov, where))
            if ma.attrs['space'].v != ('Space', target):
                bad.append('space flag is %r afterwards%s' % (ma.attrs['space'].v, where))
            evs = ip.events[e0:]
            writes = [i for i, x in enumerate(evs) if x['kind'] == 'write' and (x['target'] or '').startswith('marray')]
            binds = [i for i, x in enumerate(evs) if x['kind'] == 'bind' and x['target'] == 'marray.space']
            if not binds:
                bad.append('space flag is never assigned' + where)
            elif writes and min(binds) < max(writes):
                bad.append('space flag is set before the last pair is stored (an exception mid-loop would leave a '
                           'half-transformed array flagged as done)' + where)
        if True:
            if bad:
                ctx.violation(rule, construct, 'transform', '; '.join(bad), m.loc())
            else:
                ctx.holds(rule, construct, 'all unordered pairs := %s(pair) via the symmetric setter; flag -> %s after the loop'
                          % (scalar, target), m.loc(), key='transform',
                          sample={'method': nm, 'data_after': P.show(data.t)})


def rule_matrixarray_transforms_concrete(ctx, rule='R07.c'):
    """The MatrixArray transforms on real MatrixArrays of concrete rank 1, 3 and 2, one after the other on ONE Domain (the
    symbolic rule R07.m runs a single symbolic pair of a generic rank): every pair function [i,j] becomes the scalar transform
    of what was stored there, the flag flips, a second transform in the same direction is refused with ValueError before
    anything is written -- for every rank, whatever rank the Domain saw before."""
    cls = ctx.prog.cls(DOMAIN)
    ma_cls = ctx.prog.cls('pyPRISM.core.MatrixArray::MatrixArray')
    n = 0
    for nm, scalar, src, target in (('MatrixArray_to_fourier', 'to_fourier', 'Real', 'Fourier'),
                                    ('MatrixArray_to_real', 'to_real', 'Fourier', 'Real')):
        m = cls.find_method(nm)
        if m is None:
            continue
        construct = '%s::%s' % (DOMAIN, nm)

        def run(preset, nm=nm, scalar=scalar, src=src, target=target):
            ip = Interp(ctx.prog)
            ip.preset = list(preset)
            ip.natives[('shape', '__getitem__')] = ip.lib.shape_getitem
            L, d = _sym_int(ip, 'L'), ip.declare('dr')
            dom = W.fresh_domain(ip, Num(L), dr=Num(d))
            bad = []
            for rank in (1, 3, 2):
                ma = ip.construct(ma_cls, [], {'length': Num(L), 'rank': Num(N.NF.const(rank)), 'space': W.SPACE[src]})
                data = ma.attrs.get('data')
                if not isinstance(data, Arr):
                    raise Unsupported('MatrixArray.data is %r' % (data,))
                data.cells = {}
                want = {}
                for i in range(rank):
                    for j in range(i, rank):
                        sym = 'm%d_%d%d' % (rank, i, j)
                        ip.declare(sym, 'curve')
                        data.cells[(i, j)] = data.cells[(j, i)] = N.sym(sym)
                        ref = ip.call(ip.find_method(dom, scalar), [Arr(N.sym(sym), 'pair', ip)], {})
                        want[(i, j)] = want[(j, i)] = ip.term_of(ref)[0]
                ip.call(ip.find_method(dom, nm), [ma], {})
                data = ma.attrs.get('data')
                for (i, j), w_ in sorted(want.items()):
                    got = ip.read_cell(data, i, j) if isinstance(data, Arr) else None
                    if got is None or P.compare(got, w_)[0]:
                        bad.append('rank %d (after ranks %s on the same Domain): pair function [%d,%d] is %s, expected %s(stored '
                                   'pair function)' % (rank, [r_ for r_ in (1, 3, 2)][:(1, 3, 2).index(rank)] or 'none', i, j,
                                                       P.show(got)[:70] if got is not None else 'missing', scalar))
                        break
                sp = ma.attrs.get('space')
                if getattr(sp, 'v', None) != ('Space', target):
                    bad.append('rank %d: flag is %r afterwards' % (rank, getattr(sp, 'v', sp)))
                before = dict(data.cells) if isinstance(data, Arr) and data.cells else {}
                try:
                    ip.call(ip.find_method(dom, nm), [ma], {})
                    bad.append('rank %d: an array already in %s space is transformed again instead of being refused' % (rank, target))
                except Raised as e:
                    if e.exc != 'ValueError':
                        bad.append('rank %d: the refusal raises %s, not ValueError' % (rank, e.exc))
                    elif isinstance(data, Arr) and dict(data.cells or {}) != before:
                        bad.append('rank %d: the array is modified before the refusal' % rank)
            return ip, bad
        try:
            bad = []
            for dec, ip_, b_ in explore(run):
                bad += b_
        except (Unsupported, Raised) as e:
            ctx.undecided(rule, construct, str(e), m.loc())
            continue
        n += 1
        if bad:
            ctx.violation(rule, construct, 'concrete-ranks', '; '.join(sorted(set(bad))[:3]), m.loc())
        else:
            ctx.holds(rule, construct, 'ranks 1, 3, 2 in turn on one Domain: every pair transformed, flag flipped, second call refused', m.loc())
    ctx.floor(rule, n, 2, 'MatrixArray transform directions executed on concrete ranks')


def rule_grid_products(ctx, rule='R10.g'):
    """C10's contact clause: a contact distance that the user obtains as i*dr (a diameter on the grid, or the mean of two)
    must coincide bit-for-bit with the grid point r_i, because the core masks compare r with sigma exactly (known finding
    D7).  That holds when the grid is the single-rounded product spacing*integer-index (how build_grid forms it:
    one floating-point multiplication per point); a grid that is equal over the reals but accumulates differently
    (np.linspace: start + i*step with a computed step; cumulative sums; a float-step arange) differs from i*dr by ulps for
    about a third of the points, and those contact points fall out of the core."""
    cls = ctx.prog.cls(DOMAIN)
    bg = cls.find_method('build_grid') or cls.find_method('__init__')
    try:
        ip, dom, L, d = _fresh(ctx)
    except (Unsupported, Raised) as e:
        ctx.undecided(rule, DOMAIN + '::r', str(e), bg.loc())
        return
    r = dom.attrs.get('r')
    t = W.attr_term(ip, r)
    if t is None or P.is_pw(t):
        ctx.undecided(rule, DOMAIN + '::r', 'r grid is not a plain term', bg.loc())
        return
    lins = [x for k_, x in ip.notes if k_ == 'linspace']
    ars = [x for k_, x in ip.notes if k_ == 'arange']
    cums = [a for a in t.all_atoms() if a[0] == 'fn' and a[1] in ('cumsum', 'farange', 'add.accumulate')]
    want = d * (1 + N.fn('iota', L))
    if lins or cums:
        how = 'np.linspace' if lins else N.show_atom(cums[0])
        ctx.violation(rule, DOMAIN + '::r', 'grid-rounding',
                      'the r grid is built with %s (at %s): its points equal i*dr over the reals but are rounded differently from the '
                      'product i*dr, so a contact distance given as i*dr no longer coincides with a grid point and the exact core '
                      'masks put that contact point outside the core' % (how, (lins[0]['loc'] if lins else bg.loc())), bg.loc())
    elif t.equals(want) and ars:
        ctx.holds(rule, DOMAIN + '::r', 'r_i is the single-rounded product dr*(i+1) of the spacing with an integer index vector', bg.loc())
    else:
        ctx.undecided(rule, DOMAIN + '::r', 'cannot tell how the grid points are rounded: %s' % N.show(t)[:120], bg.loc())
