"""Rules R11.* -- analytic omega(k) models equal their defining pair sums and obey the sum rules."""
import ast
import importlib
from fractions import Fraction as F
from .. import nf as N
from .. import pw as P
from .. import natives as NAT
from ..interp import (Interp, Arr, Num, View, Const, Obj, Seq, Lib, Unsupported, Raised, NONE, TRUE, FALSE, explore,
                      const_num)
from ..model import AnalysisError
from ..flow import norm
from .omega_tab import path_facts, has_fact
from spec import omega as SPEC

OM = 'pyPRISM.omega.'
NSMALL = (1, 2, 3, 4, 5, 6)


def _ip(prog):
    ip = Interp(prog)
    NAT.install_containers(ip, domain_transforms=False, tables=False, matrixarray=False)
    ip.declare('k', 'curve')
    return ip


def run_model(prog, qual, ctor_kw, natives=None, preset=()):
    ip = _ip(prog)
    ip.preset = list(preset)
    for key, fn_ in (natives or {}).items():
        ip.natives[key] = fn_
    cls = prog.cls(qual)
    o = ip.construct(cls, [], ctor_kw)
    o.origin = 'self'
    k = Arr(N.sym('k'), 'k', ip)
    e0 = len(ip.events)
    res = ip.call(ip.find_method(o, 'calculate'), [k], {})
    return ip, {'obj': o, 'res': res, 'k': k, 'events': ip.events[e0:]}


def _term(ip, res):
    t, _ = ip.term_of(res)
    if P.is_pw(t):
        raise Unsupported('piecewise omega')
    return t


def certificate(E):
    """closed form == pair sum, by induction on N (spec/omega.py); returns list of failed steps"""
    Nn = SPEC.NN
    G = lambda n: n * SPEC.closed_form(E, n)
    S = lambda n: E * (1 - E ** n) / (1 - E)
    failed = []
    if not N.subs(G(Nn), {'N': 1}).equals(N.NF.const(1)):
        failed.append('F(1) = 1')
    step = N.subs(G(Nn), {'N': Nn + 1}) - G(Nn)
    if not step.equals(1 + 2 * S(Nn)):
        failed.append('F(N+1) - F(N) = 1 + 2 S(N)')
    if not N.subs(S(Nn), {'N': 0}).is_zero():
        failed.append('S(0) = 0')
    if not (N.subs(S(Nn), {'N': Nn + 1}) - S(Nn)).equals(E ** (Nn + 1)):
        failed.append('S(N+1) - S(N) = E^(N+1)')
    return failed


def rule_closed_forms(ctx, rule='R11.d'):
    """Gaussian / FreelyJointedChain: extracted term == closed form (symbolic N), closed form == pair sum
    (induction certificate), and extracted == explicit pair sum for N = 1..6"""
    for qual, kw, E, w in ((OM + 'Gaussian::Gaussian', lambda ip, n: {'sigma': Num(ip.declare('sigma')), 'length': n}, SPEC.E_GAUSS, SPEC.w_gauss),
                           (OM + 'FreelyJointedChain::FreelyJointedChain', lambda ip, n: {'length': n, 'l': Num(ip.declare('l'))}, SPEC.E_FJC, SPEC.w_fjc)):
        cls = ctx.prog.cls(qual)
        m = cls.find_method('calculate')
        try:
            ip = _ip(ctx.prog)
            Nn = Num(ip.declare('N', integer=True))
            ip2, r = _run_with(ctx.prog, qual, kw, Nn)
            t = _term(ip2, r['res'])
        except (Unsupported, Raised) as e:
            ctx.undecided(rule, qual, str(e), m.loc())
            continue
        bad = []
        want = SPEC.closed_form(E)
        if not t.equals(want):
            bad.append('extracted %s differs from the closed form %s' % (N.show(t)[:200], N.show(want)[:200]))
        failed = certificate(E)
        if failed:
            ctx.undecided(rule, qual, 'induction certificate of the reference closed form failed at: %s' % failed, m.loc())
            continue
        for n in NSMALL:
            tn = N.subs(t, {'N': n}) if n > 1 else None
            ps = SPEC.pair_sum(w, n)
            if n == 1:
                # the closed form is 0/0-free at N=1 only after cancellation; use the term itself
                tn = N.subs(t, {'N': 1})
            if not tn.equals(ps):
                bad.append('N=%d: value %s is not the pair sum %s' % (n, N.show(tn)[:120], N.show(ps)[:120]))
                break
        if bad:
            ctx.violation(rule, qual, 'definition', '; '.join(bad), m.loc())
        else:
            ctx.holds(rule, qual, 'omega == (1-E^2-2E/N+2E^(N+1)/N)/(1-E)^2 for symbolic N; closed form == (1/N) sum_ij E^|i-j| '
                      '(4-step induction certificate); == explicit pair sum for N=1..6', m.loc(),
                      sample={'model': cls.name, 'extracted': N.show(t)[:200]})
        _purity(ctx, qual, ip2, r, m)


def _run_with(prog, qual, kw, Nn):
    ip = _ip(prog)
    ip.declare('N', integer=True)
    cls = prog.cls(qual)
    o = ip.construct(cls, [], kw(ip, Nn))
    o.origin = 'self'
    k = Arr(N.sym('k'), 'k', ip)
    e0 = len(ip.events)
    res = ip.call(ip.find_method(o, 'calculate'), [k], {})
    return ip, {'obj': o, 'res': res, 'k': k, 'events': ip.events[e0:]}


def _purity(ctx, qual, ip, r, m, rule='R11.e'):
    """value at k_j depends on k only through k_j; k is not modified"""
    bad = []
    for e in r['events']:
        if e['kind'] == 'write' and e['target'] == 'k':
            bad.append('writes k in place at %s' % e['loc'])
    t = _term(ip, r['res'])
    for a in t.all_atoms():
        if a[0] == 'fn' and a[1] not in ('log', 'sin', 'cos', 'abs', 'Sum', 'Kk', 'intx', 'mesh0', 'mesh1', 'farange', 'iota'):
            bad.append('non-pointwise operator %s' % N.show_atom(a)[:80])
        if a[0] == 'fn' and a[1] == 'intx':
            integrand = N.nf_from_key(a[2])
            has_mesh = any(x[0] == 'fn' and x[1] in ('mesh0', 'mesh1') for x in integrand.all_atoms())
            has_k = 'k' in integrand.symbols()
            if (has_mesh or has_k) and a[4] != 'axis=1':
                bad.append('an integral over the k axis: %s' % a[4])
    if r['res'] is r['k']:
        bad.append('returns k itself')
    if bad:
        ctx.violation(rule, qual, 'k-elementwise', '; '.join(sorted(set(bad))), m.loc())
    else:
        ctx.holds(rule, qual, 'pointwise in k (no reduction over the k axis); k unmodified', m.loc())


def rule_ring(ctx, rule='R11.d'):
    qual = OM + 'GaussianRing::GaussianRing'
    cls = ctx.prog.cls(qual)
    m = cls.find_method('calculate')
    kw = lambda ip, n: {'sigma': Num(ip.declare('sigma')), 'length': n}
    bad = []
    und = []
    try:
        ip = _ip(ctx.prog)
        ip2, r = _run_with(ctx.prog, qual, kw, Num(N.isym('N')))
        t = _term(ip2, r['res'])
        if not t.equals(SPEC.ring_symbolic()):
            und.append('symbolic-N form %s is not the reference single-index sum' % N.show(t)[:200])
    except (Unsupported, Raised) as e:
        und.append(str(e))
        ip2 = r = None
    for n in NSMALL:
        try:
            ipn, rn = _run_with(ctx.prog, qual, kw, const_num(n))
            tn = _term(ipn, rn['res'])
        except (Unsupported, Raised) as e:
            und.append('N=%d: %s' % (n, e))
            continue
        ps = SPEC.pair_sum(SPEC.w_ring(n), n)
        if not tn.equals(ps):
            bad.append('N=%d: value %s is not the ring pair sum %s' % (n, N.show(tn)[:150], N.show(ps)[:150]))
            break
    if bad:
        ctx.violation(rule, qual, 'definition', '; '.join(bad), m.loc())
    elif und:
        ctx.undecided(rule, qual, '; '.join(und), m.loc())
    else:
        ctx.holds(rule, qual, 'omega == sum_{t=0}^{N-1} exp(-sigma^2 k^2 t(N-t)/(6N)) for symbolic N and == (1/N) sum_ij w_|i-j| '
                  'explicitly for N=1..6', m.loc(), sample={'extracted': N.show(t)[:200]})
        _purity(ctx, qual, ip2, r, m)


def rule_trivial(ctx, rule='R11.d'):
    for qual, want in ((OM + 'SingleSite::SingleSite', 1), (OM + 'NoIntra::NoIntra', 0), (OM + 'InterMolecular::InterMolecular', 0)):
        cls = ctx.prog.cls(qual)
        m = cls.find_method('calculate')
        try:
            ip, r = run_model(ctx.prog, qual, {})
            t = _term(ip, r['res'])
        except (Unsupported, Raised) as e:
            ctx.undecided(rule, qual, str(e), m.loc())
            continue
        if t.equals(N.NF.const(want)) and isinstance(r['res'], Arr) and r['res'].fresh:
            ctx.holds(rule, qual, 'omega(k) == %d for every k (fresh array shaped like k)' % want, m.loc(), nontrivial=False)
        else:
            ctx.violation(rule, qual, 'definition', 'returns %s, expected the constant %d' % (N.show(t), want), m.loc())


def rule_aliases(ctx, rule='R11.a'):
    """FJC, NFJC, InterMolecular: subclasses that add nothing but a repr, exported from their parent's module"""
    init = ctx.prog.module('pyPRISM.omega')
    n = 0
    for c in ctx.prog.subclasses_of('Omega'):
        parents = [b for b in c.bases if b.name != 'Omega' and b.find_method('calculate') is not None]
        if not parents:
            continue
        n += 1
        members = sorted(set(list(c.methods) + list(c.getters) + list(c.setters) + list(c.class_attrs)) - {'__repr__'})
        imp = init.imports.get(c.name)
        if members:
            ctx.violation(rule, c.qualname, 'alias-members', 'alias class overrides %s' % members, c.module.relpath)
        elif imp is None or not (imp[0] == 'from' and imp[1] == c.module.name and imp[2] == c.name):
            ctx.violation(rule, c.qualname, 'alias-export', 'pyPRISM.omega.%s is not this class (%s)' % (c.name, imp), init.relpath)
        else:
            ctx.holds(rule, c.qualname, 'member-free alias of %s' % parents[0].name, c.module.relpath, nontrivial=False)
    ctx.floor(rule, n, 3, 'omega alias classes (FJC, NFJC, InterMolecular)')


# ---------------------------------------------------------------------------------------------
# DiscreteKoyama
# ---------------------------------------------------------------------------------------------
KOY = OM + 'DiscreteKoyama::DiscreteKoyama'


def _kk(ip, o, args, kwargs, node):
    b = dict(zip(['k', 'n'], args))
    b.update(kwargs)
    n, _ = ip.term_of(b['n'], node)
    kt, _ = ip.term_of(b['k'], node)
    if not kt.equals(N.sym('k')):
        raise Unsupported('kernel evaluated on something other than k', node)
    return ip.fresh_array(N.fn('Kk', n))


def koyama_value(prog, n):
    ip = _ip(prog)
    ip.natives[('DiscreteKoyama', 'koyama_kernel_fourier')] = _kk
    cls = prog.cls(KOY)
    o = Obj(cls, {'length': const_num(n), 'value': NONE}, 'self')
    k = Arr(N.sym('k'), 'k', ip)
    res = ip.call(ip.find_method(o, 'calculate'), [k], {})
    return _term(ip, res)


def rule_koyama_multiplicity(ctx, rule='R11.m', nmax=8):
    """the pair loop counts separation n exactly N-n times: omega == 1 + (2/N) sum_n (N-n) w_n, for N = 2..nmax
    (loop headers instantiated, kernel kept symbolic)"""
    cls = ctx.prog.cls(KOY)
    m = cls.find_method('calculate')
    nmax = 64 if ctx.tier == 'thorough' else nmax
    bad = None
    done = 0
    for n in range(2, nmax + 1):
        try:
            t = koyama_value(ctx.prog, n)
        except (Unsupported, Raised) as e:
            ctx.undecided(rule, KOY + '.calculate', 'N=%d: %s' % (n, e), m.loc())
            return
        want = SPEC.pair_sum(lambda s: N.NF.const(1) if s == 0 else N.fn('Kk', N.NF.const(s)), n)
        done += 1
        if not t.equals(want):
            mult = {}
            for s in range(1, n):
                c = N.diff(_lin(t, s), 'K%d' % s)
                mult[s] = N.show(c * n / 2)
            bad = 'N=%d: omega = %s but the defining sum is %s (multiplicity of separation n found: %s, required N-n)' % (
                n, N.show(t)[:160], N.show(want)[:160], mult)
            break
    if bad:
        ctx.violation(rule, KOY + '.calculate', 'multiplicity', bad, m.loc())
    else:
        ctx.holds(rule, KOY + '.calculate', 'omega == 1 + (2/N) sum_{n=1}^{N-1} (N-n) kernel(n) for N=2..%d (so omega -> N as the kernel -> 1)' % nmax,
                  m.loc(), sample={'N=4': N.show(koyama_value(ctx.prog, 4))})


def _lin(t, s):
    a = ('fn', 'Kk', N.reg(N.NF.const(s)))
    return N.transform(t, lambda x: N.sym('K%d' % s) if x == a else None)


def rule_koyama_kernel(ctx, rule='R11.k'):
    """kernel(k,n) = sin(Bk)/(Bk) * exp(-A k^2) with B, A independent of k (so kernel -> 1 as k -> 0)"""
    cls = ctx.prog.cls(KOY)
    m = cls.find_method('koyama_kernel_fourier')
    ip = _ip(ctx.prog)
    ip.declare('r2')
    ip.declare('r4')
    ip.natives[('DiscreteKoyama', 'kernel_base')] = lambda ip2, o, a, k, n: Seq([Num(N.sym('r2')), Num(N.sym('r4'))])
    o = Obj(cls, {}, 'self')
    k = Arr(N.sym('k'), 'k', ip)
    res = ip.call(ip.find_method(o, 'koyama_kernel_fourier'), [k, Num(ip.declare('n', integer=True))], {})
    t = _term(ip, res)
    sins = [a for a in t.atoms() if a[0] == 'fn' and a[1] == 'sin']
    bad = []
    if len(sins) != 1:
        bad.append('expected one sin factor, found %d' % len(sins))
    else:
        arg = N.nf_from_key(sins[0][2])
        B = arg / N.sym('k')
        if 'k' in B.symbols():
            bad.append('sin argument %s is not B*k with B independent of k' % N.show(arg))
        q = t * arg / N.NF.atom(sins[0])
        ok = q.is_monomial()
        if ok:
            (mono, c), = q.num.items()
            ok = c == 1 and all(a[0] == 'exp' for a, e in mono)
            for a, e in mono:
                if a[0] == 'exp':
                    inner = N.NF({a[1]: N.ONE})
                    two = N.subs(inner, {'k': 2 * N.sym('k')})
                    if not two.equals(4 * inner):
                        ok = False
        if not ok:
            bad.append('kernel/(sin(Bk)/(Bk)) = %s is not exp(-A k^2)' % N.show(q)[:200])
        else:
            # the kernel is the Fourier transform of the distribution of the separation r of two sites, so its expansion in k
            # carries the moments:  K(k) = 1 - <r^2> k^2/6 + <r^4> k^4/120 - ...   With K = sin(Bk)/(Bk) exp(-A k^2):
            #     B^2 + 6 A = <r^2>      and      B^4 + 20 A B^2 + 60 A^2 = <r^4>
            A = N.NF.const(0)
            for a, e in mono:
                A = A - N.NF({a[1]: N.ONE}) * e / (N.sym('k') * N.sym('k'))
            r2, r4 = N.sym('r2'), N.sym('r4')
            try:
                m2 = B * B + 6 * A - r2
                m4 = B ** 4 + 20 * A * B * B + 60 * A * A - r4
                if not m2.is_zero():
                    bad.append('second moment of the kernel: B^2 + 6A - <r^2> = %s, not 0 (B = %s, A = %s)' % (N.show(m2)[:120], N.show(B)[:80], N.show(A)[:80]))
                if not m4.is_zero():
                    bad.append('fourth moment of the kernel: B^4 + 20AB^2 + 60A^2 - <r^4> = %s, not 0' % N.show(m4)[:160])
            except N.Incomplete as e:
                ctx.undecided(rule, KOY + '.koyama_kernel_fourier', 'moment identities: %s' % e, m.loc())
    if bad:
        ctx.violation(rule, KOY + '.koyama_kernel_fourier', 'kernel-shape', '; '.join(bad), m.loc())
    else:
        ctx.holds(rule, KOY + '.koyama_kernel_fourier', 'sin(Bk)/(Bk)*exp(-A k^2) with B, A free of k and B^2 + 6A = <r^2>, '
                  'B^4 + 20AB^2 + 60A^2 = <r^4> (the k-expansion of the kernel reproduces the moments it is built from)', m.loc(),
                  sample={'kernel': N.show(t)[:200]})


def rule_koyama_moments(ctx, rule='R11.g'):
    """Reference-free identities that the moment formulas of DiscreteKoyama must satisfy (no copy of the published equations
    is available offline, but these follow from what the quantities *are*):
      (a) cos_avg and cos_sq_avg are the first two moments of one Boltzmann distribution of the bond-angle cosine with
          weight exp(-epsilon*cos): then  <cos^2> = <cos>^2 - d<cos>/d(epsilon)  identically in epsilon and cos0;
      (b) kernel_base(n) returns <r^2> and <r^4> of two sites n bonds apart on a chain with fixed bond length l:
          n=1: <r^2> = l^2, <r^4> = l^4 (one rigid bond);  n=2: r^2 = 2 l^2 (1 - cos), so <r^2> = 2 l^2 (1 - <cos>) and
          <r^4> = 4 l^4 (1 - 2<cos> + <cos^2>);  any n: <r^2> = l^2 [ n + 2 sum_{k=1}^{n-1} (n-k) (-<cos>)^k ]  (bond
          correlations of a freely rotating chain decay as (-<cos>)^k).
    (b) is checked for n = 1, 2 (thorough tier: the <r^2> series up to n = 5)."""
    cls = ctx.prog.cls(KOY)
    # (a)
    m1, m2 = cls.find_method('cos_avg'), cls.find_method('cos_sq_avg')
    construct = KOY + '.cos_sq_avg'
    if m1 is None or m2 is None:
        ctx.undecided(rule, construct, 'cos_avg / cos_sq_avg vanished')
    else:
        try:
            ip = _ip(ctx.prog)
            o = Obj(cls, {a: Num(ip.declare(a)) for a in ('sigma', 'l', 'lp', 'cos0')}, 'self')
            e = Num(ip.declare('epsilon'))
            c1 = _term(ip, ip.call(ip.find_method(o, 'cos_avg'), [e], {}))
            c2 = _term(ip, ip.call(ip.find_method(o, 'cos_sq_avg'), [e], {}))
            resid = c2 - (c1 * c1 - N.diff(c1, 'epsilon'))
            if resid.is_zero():
                ctx.holds(rule, construct, '<cos^2> == <cos>^2 - d<cos>/d(epsilon) identically (moments of one Boltzmann distribution)',
                          m2.loc(), sample={'cos_avg': N.show(c1)[:200]})
            else:
                ctx.violation(rule, construct, 'moment-identity', 'cos_sq_avg - (cos_avg^2 - d cos_avg/d epsilon) = %s: the two are not the '
                              'first and second moment of the same bond-angle distribution' % N.show(resid)[:200], m2.loc())
        except (Unsupported, Raised) as ex:
            ctx.undecided(rule, construct, str(ex), m2.loc())
    # (b)
    mk = cls.find_method('kernel_base')
    construct = KOY + '.kernel_base'
    if mk is None:
        ctx.undecided(rule, construct, 'kernel_base vanished')
        return
    l, c, c2s = N.sym('l'), N.sym('cos1'), N.sym('cos2')
    nmax = 5 if ctx.tier == 'thorough' else 2
    bad, done = [], 0
    try:
        for n in range(1, nmax + 1):
            ip = _ip(ctx.prog)
            o = Obj(cls, {a: Num(ip.declare(a)) for a in ('sigma', 'l', 'lp', 'cos0', 'cos1', 'cos2', 'epsilon')}, 'self')
            res = ip.call(ip.find_method(o, 'kernel_base'), [const_num(n)], {})
            if not (isinstance(res, Seq) and len(res.items) == 2):
                raise Unsupported('kernel_base returns %r' % (res,))
            r2, r4 = (_term(ip, x) for x in res.items)
            want2 = N.NF.const(n)
            for k in range(1, n):
                want2 = want2 + 2 * (n - k) * (-c) ** k
            want2 = l * l * want2
            done += 1
            if not r2.equals(want2):
                bad.append('<r^2>(n=%d) is %s, a chain of %d rigid bonds has %s' % (n, N.show(r2)[:120], n, N.show(want2)))
            if n == 1 and not r4.equals(l ** 4):
                bad.append('<r^4>(n=1) is %s, one rigid bond has l^4' % N.show(r4)[:120])
            if n == 2 and not r4.equals(4 * l ** 4 * (1 - 2 * c + c2s)):
                bad.append('<r^4>(n=2) is %s, two rigid bonds have 4 l^4 (1 - 2<cos> + <cos^2>)' % N.show(r4)[:160])
    except (Unsupported, Raised) as ex:
        ctx.undecided(rule, construct, str(ex), mk.loc())
        return
    if bad:
        ctx.violation(rule, construct, 'geometry', '; '.join(bad[:3]), mk.loc())
    else:
        ctx.holds(rule, construct, '<r^2>(n) equals the rigid-bond series for n=1..%d; <r^4>(1) = l^4, <r^4>(2) = 4 l^4 (1 - 2<cos> + <cos^2>)'
                  % nmax, mk.loc())


def _taylor_exp(t, order=5):
    """every exp atom replaced by its Taylor polynomial: a rational function that agrees with t to that order"""
    def fatom(a):
        if a[0] == 'exp':
            x = N.NF({a[1]: N.ONE})
            acc, term = N.NF.const(0), N.NF.const(1)
            for k in range(order + 1):
                acc = acc + term
                term = term * x / (k + 1)
            return acc
        return N.NF.atom(a)
    return N.rebuild(t, fatom)


class Diverges(Exception):
    pass


def _limit0(f, var):
    """limit of a rational function as var -> 0 (l'Hopital on numerator and denominator polynomials)"""
    num, den = N.NF(f.num), N.NF(f.den)
    # clear negative powers of var (Laurent terms) so that both are regular at 0
    low = 0
    for poly in (f.num, f.den):
        for mono in poly:
            for a, e in mono:
                if a == ('sym', var) and e < low:
                    low = e
    if low < 0:
        shift = N.sym(var) ** (-low)
        num, den = num * shift, den * shift
    for _ in range(12):
        a, b = N.subs(num, {var: 0}), N.subs(den, {var: 0})
        if not b.is_zero():
            return a / b
        if not a.is_zero():
            raise Diverges('the expression diverges as %s -> 0' % var)
        num, den = N.diff(num, var), N.diff(den, var)
    raise Unsupported('limit not reached')


def rule_koyama_bending(ctx, rule='R11.b'):
    """How DiscreteKoyama.__init__ obtains the bending energy and the second angular moment, tied to cos_avg / cos_sq_avg
    themselves (no external reference):
      * <cos> of the target chain is l/lp - 1 (persistence length of a freely rotating chain: lp = l/(1 + <cos>));
      * far from the freely jointed limit: epsilon is the root of  cos_avg(e) - <cos>  and cos2 = cos_sq_avg(epsilon);
      * near it (the linearised branch): epsilon and cos2 are the first-order expansions about epsilon = 0, i.e.
        cos_avg(0) + cos_avg'(0)*epsilon == <cos>   and   cos2 == cos_sq_avg(0) + cos_sq_avg'(0)*epsilon,
        where the expansion coefficients are computed from the extracted formulas (Taylor polynomials for the
        exponentials, l'Hopital for the removable poles)."""
    cls = ctx.prog.cls(KOY)
    m = cls.find_method('__init__')
    construct = KOY + '.__init__'
    bad, seen = [], set()
    try:
        ws = explore(lambda preset: run_koyama_init(ctx.prog, preset), keep_raised=True)
        # expansion coefficients of the two moment functions
        ip0 = _ip(ctx.prog)
        o0 = Obj(cls, {'cos0': Num(ip0.declare('cos0'))}, 'self')
        e0 = Num(ip0.declare('epsilon'))
        c1 = _taylor_exp(_term(ip0, ip0.call(ip0.find_method(o0, 'cos_avg'), [e0], {})))
        c2 = _taylor_exp(_term(ip0, ip0.call(ip0.find_method(o0, 'cos_sq_avg'), [e0], {})))
        A1, B1 = _limit0(c1, 'epsilon'), _limit0(N.diff(c1, 'epsilon'), 'epsilon')
        A2, B2 = _limit0(c2, 'epsilon'), _limit0(N.diff(c2, 'epsilon'), 'epsilon')
        for d, ip, o in ws:
            if ip is None:
                continue
            at = {}
            for k in ('cos0', 'cos1', 'epsilon', 'cos2'):
                v = o.attrs.get(k)
                at[k] = ip.term_of(v)[0] if isinstance(v, (Num, Arr, View)) else None
            cos0, cos1, eps, cos2 = (at.get(k) for k in ('cos0', 'cos1', 'epsilon', 'cos2'))
            if any(x is None or P.is_pw(x) for x in (cos0, cos1, eps, cos2)):
                raise Unsupported('cos0 / cos1 / epsilon / cos2 are not plain terms after construction')
            if not cos1.equals(N.sym('l') / N.sym('lp') - 1):
                bad.append('cos1 is %s, a freely rotating chain with persistence length lp has <cos> = l/lp - 1' % N.show(cos1))
            roots = [x for k_, x in ip.notes if k_ == 'root']
            if roots:
                seen.add('root')
                # the equation handed to the solver
                xi = Arr(N.sym('root_iter'), 'root-callback-arg', ip)
                res = ip.call(roots[0]['callback'], [xi], {})
                t = _term(ip, res)
                args = [a for a in t.all_atoms() if a[0] == 'fn' and a[1] in ('at', 'slice') and 'root_iter' in N.NF.atom(a).symbols()]
                u = N.NF.atom(args[0]) if args else N.sym('root_iter')
                want = _term(ip, ip.call(ip.find_method(o, 'cos_avg'), [Num(u)], {})) - cos1
                if not t.equals(want):
                    bad.append('the equation solved for the bending energy is %s = 0, not cos_avg(e) - <cos> = 0' % N.show(t)[:160])
                want2 = _term(ip, ip.call(ip.find_method(o, 'cos_sq_avg'), [Num(eps)], {}))
                if not cos2.equals(want2):
                    bad.append('cos2 is %s, not cos_sq_avg(epsilon)' % N.show(cos2)[:160])
            else:
                seen.add('linearised')
                sub = {'cos0': cos0}
                r1 = N.subs(A1, sub) + N.subs(B1, sub) * eps - cos1
                if not r1.is_zero():
                    bad.append('linearised branch: cos_avg(0) + cos_avg\'(0)*epsilon - <cos> = %s, not 0 (epsilon = %s)' % (
                        N.show(r1)[:160], N.show(eps)[:120]))
                r2 = N.subs(A2, sub) + N.subs(B2, sub) * eps - cos2
                if not r2.is_zero():
                    bad.append('linearised branch: cos2 differs from cos_sq_avg(0) + cos_sq_avg\'(0)*epsilon by %s' % N.show(r2)[:160])
    except (Unsupported, Raised, ValueError, Diverges) as ex:
        ctx.undecided(rule, construct, str(ex), m.loc())
        return
    if bad:
        ctx.violation(rule, construct, 'bending-energy', '; '.join(sorted(set(bad))[:3]), m.loc())
    elif seen != {'root', 'linearised'}:
        ctx.undecided(rule, construct, 'constructor paths seen: %s (expected a root-solving and a linearised branch)' % sorted(seen), m.loc())
    else:
        ctx.holds(rule, construct, '<cos> = l/lp - 1; epsilon solves cos_avg(e) = <cos> and cos2 = cos_sq_avg(epsilon); the linearised '
                  'branch is the first-order expansion of both moments about epsilon = 0', m.loc(),
                  sample={'cos_avg(0)': N.show(A1), "cos_avg'(0)": N.show(B1), 'cos_sq_avg(0)': N.show(A2), "cos_sq_avg'(0)": N.show(B2)})


def run_koyama_init(prog, preset, boundary=False):
    ip = _ip(prog)
    ip.preset = list(preset)
    for s in ('sigma', 'l', 'lp'):
        ip.declare(s)
    cls = prog.cls(KOY)
    sigma = N.sym('sigma')
    if boundary:
        # exactly on the refused boundary l == sigma/2, parameters given as Python floats
        sigma = 2 * N.sym('l')
        ip.python_scalars = True
    o = ip.construct(cls, [], {'sigma': Num(sigma), 'l': Num(N.sym('l')), 'length': Num(ip.declare('N', integer=True)),
                               'lp': Num(N.sym('lp'))})
    return ip, o


def rule_koyama_rejection(ctx, rule='R11.v'):
    """no object is ever constructed from overlapping-neighbour parameters: every normally ending path of __init__ has
    passed l > sigma/2 and not(lp < lp_min), lp_min = 4 l^3/(4 l^2 - sigma^2); the refusals are ValueError"""
    cls = ctx.prog.cls(KOY)
    m = cls.find_method('__init__')
    construct = KOY + '.__init__'
    ws = explore(lambda preset: run_koyama_init(ctx.prog, preset), keep_raised=True)
    l, s, lp = N.sym('l'), N.sym('sigma'), N.sym('lp')
    c1 = P.Cond.cmp('>', l, s / 2)
    bad = []
    normal = 0
    scal = []
    for d, ip, r in ws:
        if ip is None:
            if r.exc != 'ValueError':
                bad.append('a refusal raises %s at %s' % (r.exc, r.loc))
            continue
        normal += 1
        facts = path_facts(ip)
        if not has_fact(facts, c1):
            bad.append('an object is constructed on a path that never established l > sigma/2')
        lpm = r.attrs.get('lp_min')
        lt = lpm.t if isinstance(lpm, Num) else None
        if lt is None or P.is_pw(lt) or not lt.equals(SPEC.lp_min()):
            bad.append('lp_min is %s, expected 4 l^3/(4 l^2 - sigma^2)' % (N.show(lt) if lt is not None else lpm))
        else:
            c2 = ~P.Cond.cmp('<', lp, lt)
            if not has_fact(facts, c2):
                bad.append('an object is constructed on a path that never established lp >= lp_min')
        for e in ip.events:
            if e['kind'] == 'scalar-fn-on-array':
                scal.append('%s applied to an ndarray at %s' % (e['target'], e['loc']))
    # the boundary itself: l == sigma/2 must be refused like everything below it, with the same exception
    try:
        for d, ip, r in explore(lambda preset: run_koyama_init(ctx.prog, preset, boundary=True), keep_raised=True):
            if ip is not None:
                bad.append('an object is constructed for l == sigma/2')
            elif r.exc != 'ValueError':
                bad.append('for l == sigma/2 (Python floats) the constructor raises %s at %s, not the documented ValueError' % (r.exc, r.loc))
    except Unsupported as e:
        ctx.undecided(rule, construct, 'boundary l == sigma/2: %s' % e, m.loc())
    # the chain length is documented as a float: Koyama(..., length=20.0, ...) must work like length=20
    try:
        ipf = _ip(ctx.prog)
        ipf.natives[('DiscreteKoyama', 'koyama_kernel_fourier')] = _kk_any
        for s_ in ('sigma', 'l', 'lp'):
            ipf.declare(s_)

        def run_float(preset):
            ip_ = _ip(ctx.prog)
            ip_.preset = list(preset)
            ip_.natives[('DiscreteKoyama', 'koyama_kernel_fourier')] = _kk_any
            for s_ in ('sigma', 'l', 'lp'):
                ip_.declare(s_)
            n_ = const_num(4)
            n_.pyfloat = True
            o_ = ip_.construct(ctx.prog.cls(KOY), [], {'sigma': Num(N.sym('sigma')), 'l': Num(N.sym('l')), 'length': n_,
                                                     'lp': Num(N.sym('lp'))})
            ip_.call(ip_.find_method(o_, 'calculate'), [Arr(N.sym('k'), 'k', ip_)], {})
            return ip_, o_
        for d, ip, r in explore(run_float, keep_raised=True):
            if ip is None and r.exc == 'TypeError':
                bad.append('a chain length given as a float (the documented type, e.g. length=20.0) raises TypeError at %s' % r.loc)
    except Unsupported as e:
        ctx.undecided(rule, construct, 'float chain length: %s' % e, m.loc())
    if not normal:
        bad.append('no normally ending constructor path could be analysed')
    if bad:
        ctx.violation(rule, construct, 'rejection', '; '.join(sorted(set(bad))), m.loc())
    else:
        ctx.holds(rule, construct, '%d constructing paths all carry l > sigma/2 and lp >= lp_min; %d refusing paths raise ValueError'
                  % (normal, len(ws) - normal), m.loc())
    if scal:
        ctx.violation('R11.s', construct, 'math-on-ndarray',
                      'scalar-only math function fed an ndarray (scipy.optimize.root passes a 1-element array to its callback and '
                      'returns result.x as an array; TypeError under numpy >= 2.x): %s' % sorted(set(scal)), m.loc())
    else:
        ctx.holds('R11.s', construct, 'math.* functions receive scalars only', m.loc())


def _nfjc_normalisation(ctx, qual, m, body, rule='R11.n'):
    """The property's k -> 0 clause for the non-overlap correction: omega(k) -> N requires every omega_tau(k) -> 1, i.e. the
    correction of each separation tau vanishes as k -> 0.  Decided from the extracted summand in two steps:
      (1) integrand identity: the k -> 0 limit of the integrand of J_tau(k) (computed with l'Hopital on the extracted
          expression, tau symbolic) is the integrand of the constant J_tau(0) that the code integrates separately, with the
          factor 2/pi the code uses -- so J_tau(k) -> J_tau(0);
      (2) with J_tau(k) := J_tau(0) and sin(k)/k := 1 the summand is identically zero.
    The integration grid must be the same increasing grid in both integrals."""
    try:
        ints = [a for a in body.all_atoms() if a[0] == 'fn' and a[1] == 'intx']
        with_k = [a for a in ints if any(x[0] == 'fn' and x[1] == 'mesh0' for x in N.nf_from_key(a[2]).all_atoms())]
        without = [a for a in ints if a not in with_k]
        if len(with_k) != 1 or len(without) != 1:
            raise Unsupported('expected one k-dependent and one k-independent quadrature, found %d and %d' % (len(with_k), len(without)))
        I1, I0 = with_k[0], without[0]
        if I1[3] != I0[3]:
            raise Unsupported('the two quadratures use different grids')
        grid = N.nf_from_key(I0[3])
        far = [a for a in grid.all_atoms() if a[0] == 'fn' and a[1] == 'farange']
        bad = []
        for a in far:
            lo, hi, st = (N.nf_from_key(x) for x in a[2:5])
            if lo.is_const() and hi.is_const() and st.is_const() and not (lo.const_value() < hi.const_value() and st.const_value() > 0):
                bad.append('the quadrature grid arange(%s, %s, %s) is empty' % (N.show(lo), N.show(hi), N.show(st)))
        K, X = N.sym('K'), N.sym('X')

        def to_kx(t):
            def leaf(a):
                if a[0] == 'fn' and a[1] == 'mesh0':
                    return K
                if a[0] == 'fn' and a[1] in ('mesh1', 'farange'):
                    return X
                return None
            return N.transform(t, leaf)
        g, f0 = to_kx(N.nf_from_key(I1[2])), to_kx(N.nf_from_key(I0[2]))
        # the constant the code multiplies the k-independent quadrature with: read it off the summand (coefficient of I0 in
        # the normalisation 1 - c*I0); with the integrand identity lim g = c*f0 the two quadratures agree at k -> 0
        try:
            lim = _limit0(g, 'K')
        except Diverges:
            ctx.violation(rule, qual, 'normalisation', 'the integrand of J(k) diverges as k -> 0 (omega(k -> 0) is not finite): %s'
                          % N.show(g)[:160], m.loc())
            return
        ratio = None
        if not f0.is_zero():
            q = lim / f0
            if not (q.symbols() & {'X', 'K'}):
                ratio = q
        if ratio is None:
            bad.append('the k -> 0 limit of the J(k) integrand, %s, is not a constant multiple of the J(0) integrand %s'
                       % (N.show(lim)[:120], N.show(f0)[:120]))
        else:
            def leaf2(a):
                if a == I1:
                    return ratio * N.NF.atom(I0)
                if a[0] == 'fn' and a[1] == 'sin' and N.nf_from_key(a[2]).equals(N.sym('k')):
                    return N.sym('k')
                return None
            try:
                at0 = N.transform(body, leaf2)
                if not at0.is_zero():
                    bad.append('with J(k) -> J(0) and sin(k)/k -> 1 the correction of separation tau tends to %s, not 0: omega(k -> 0) '
                               'differs from N' % N.show(at0)[:160])
            except ZeroDivisionError:
                bad.append('the correction of separation tau diverges as k -> 0')
    except (Unsupported, N.Incomplete) as e:
        ctx.undecided(rule, qual, str(e), m.loc())
        return
    if bad:
        ctx.violation(rule, qual, 'normalisation', '; '.join(bad), m.loc())
    else:
        ctx.holds(rule, qual, 'lim_{k->0} of the J(k) integrand == %s * the J(0) integrand (tau symbolic), and with J(k) -> J(0), '
                  'sin(k)/k -> 1 every correction term vanishes: omega(k -> 0) = N' % N.show(ratio), m.loc())


def rule_nfjc(ctx, rule='R11.e'):
    qual = OM + 'NonOverlappingFreelyJointedChain::NonOverlappingFreelyJointedChain'
    cls = ctx.prog.cls(qual)
    m = cls.find_method('calculate')
    try:
        ip = _ip(ctx.prog)
        ip2, r = _run_with(ctx.prog, qual, lambda ip_, n: {'length': n, 'l': Num(ip_.declare('l'))}, Num(N.isym('N')))
    except (Unsupported, Raised) as e:
        ctx.undecided(rule, qual, str(e), m.loc())
        return
    _purity(ctx, qual, ip2, r, m)
    t = _term(ip2, r['res'])
    # the chain-end correction is added to the FJC closed form with pair multiplicity (N - tau)
    fjc = SPEC.closed_form(SPEC.E_FJC)
    rest = t - fjc
    sums = [a for a in rest.atoms() if a[0] == 'fn' and a[1] == 'Sum']
    if len(sums) == 1 and rest.equals(2 / SPEC.NN * N.NF.atom(sums[0])):
        body = N.nf_from_key(sums[0][5])
        lo, hi = N.nf_from_key(sums[0][3]), N.nf_from_key(sums[0][4])
        var = sums[0][2]
        lin = N.diff(body, 'N')
        ok = lo.equals(N.NF.const(2)) and hi.equals(SPEC.NN) and N.subs(body, {'N': N.sym(var)}).is_zero()
        if ok:
            ctx.holds('R11.d', qual, 'omega == FJC closed form + (2/N) sum_{tau=2}^{N-1} (N-tau) * correction(tau) '
                      '(quadrature accuracy of the correction is not decided)', m.loc())
            _nfjc_normalisation(ctx, qual, m, body)
        else:
            ctx.violation('R11.d', qual, 'structure', 'non-overlap correction is not summed over tau=2..N-1 with multiplicity N-tau: range [%s,%s)'
                          % (N.show(lo), N.show(hi)), m.loc())
    else:
        ctx.undecided('R11.d', qual, 'value is not FJC + (2/N)*Sum(...): %s' % N.show(rest)[:200], m.loc())


# ---------------------------------------------------------------------------------------------
# library names
# ---------------------------------------------------------------------------------------------
def ext_chains(mod):
    """attribute chains rooted at names imported from outside the package"""
    out = []
    roots = {}
    for name, imp in mod.imports.items():
        if imp[0] == 'module' and not imp[1].startswith('pyPRISM'):
            roots[name] = imp[1]
        elif imp[0] == 'from' and imp[1] and not imp[1].startswith('pyPRISM'):
            roots[name] = imp[1] + '.' + imp[2]
    for n in ast.walk(mod.tree):
        if isinstance(n, ast.Attribute):
            parts = [n.attr]
            v = n.value
            while isinstance(v, ast.Attribute):
                parts.append(v.attr)
                v = v.value
            if isinstance(v, ast.Name) and v.id in roots:
                # only maximal chains
                out.append((roots[v.id], list(reversed(parts)), n.lineno))
        elif isinstance(n, ast.Name) and n.id in roots and isinstance(n.ctx, ast.Load):
            out.append((roots[n.id], [], n.lineno))
    return out


def resolve_ext(root, parts):
    """walk the installed library (metadata only; no pyPRISM code runs)"""
    bits = root.split('.')
    obj = None
    for i in range(len(bits), 0, -1):
        try:
            obj = importlib.import_module('.'.join(bits[:i]))
            rest = bits[i:]
            break
        except ImportError:
            continue
    if obj is None:
        return 'module %s not importable' % root
    for p in rest + parts:
        if not hasattr(obj, p):
            try:
                obj = importlib.import_module(obj.__name__ + '.' + p)
                continue
            except Exception:
                return '%s has no attribute %s' % (getattr(obj, '__name__', obj), p)
        try:
            import warnings
            with warnings.catch_warnings():
                warnings.simplefilter('ignore')
                obj = getattr(obj, p)
        except Exception as e:
            return '%s.%s: %s' % (getattr(obj, '__name__', obj), p, e)
    return None


def rule_library_names(ctx, rule='R11.l', packages=('pyPRISM.omega',)):
    """every numpy/scipy/math name used by the omega models exists in the pinned libraries"""
    n = 0
    bad = {}
    for mod in sorted(ctx.prog.modules.values(), key=lambda m_: m_.name):
        if not any(mod.name.startswith(p) for p in packages):
            continue
        seen = set()
        for root, parts, line in ext_chains(mod):
            key = (root, tuple(parts))
            if key in seen:
                continue
            seen.add(key)
            if root.split('.')[0] in ('warnings', 'sys', 'os', 'copy', 'itertools', 'string', 'pint'):
                continue
            n += 1
            why = resolve_ext(root, parts)
            if why:
                bad.setdefault(mod, []).append(('%s%s' % (root, ''.join('.' + p for p in parts)), line, why))
    for mod, items in bad.items():
        for name, line, why in items:
            ctx.violation(rule, mod.name, 'missing:' + name, '%s:%d uses %s which does not exist in the installed library (%s)'
                          % (mod.relpath, line, name, why), '%s:%d' % (mod.relpath, line))
    if not bad:
        ctx.holds(rule, ','.join(packages), '%d library names resolve in the pinned numpy/scipy/math' % n)
    ctx.floor(rule, n, 10, 'library attribute chains in ' + ','.join(packages))


# ---------------------------------------------------------------------------------------------
# R11.h  evaluation histories
# ---------------------------------------------------------------------------------------------
def _models(prog):
    """(qualname, constructor) for every shipped analytic model; DiscreteKoyama is built around its constructor
    (the bending-energy solve is R11.v/R11.s business) with the kernel kept symbolic"""
    def plain(qual, kw):
        def make(ip):
            o = ip.construct(prog.cls(qual), [], kw(ip))
            o.origin = 'self'
            return o
        return qual, make
    Nsym = lambda ip: Num(ip.declare('N', integer=True))
    out = [
        plain(OM + 'Gaussian::Gaussian', lambda ip: {'sigma': Num(ip.declare('sigma')), 'length': Nsym(ip)}),
        plain(OM + 'FreelyJointedChain::FreelyJointedChain', lambda ip: {'l': Num(ip.declare('l')), 'length': Nsym(ip)}),
        plain(OM + 'GaussianRing::GaussianRing', lambda ip: {'sigma': Num(ip.declare('sigma')), 'length': const_num(5)}),
        plain(OM + 'NonOverlappingFreelyJointedChain::NonOverlappingFreelyJointedChain',
              lambda ip: {'l': Num(ip.declare('l')), 'length': Num(N.isym('N'))}),
        plain(OM + 'SingleSite::SingleSite', lambda ip: {}),
        plain(OM + 'NoIntra::NoIntra', lambda ip: {}),
        plain(OM + 'InterMolecular::InterMolecular', lambda ip: {}),
    ]

    def koyama(ip):
        ip.natives[('DiscreteKoyama', 'koyama_kernel_fourier')] = _kk_any
        return Obj(prog.cls(KOY), {'length': const_num(4), 'value': NONE}, 'self')
    out.append((KOY, koyama))
    return out


def _kk_any(ip, o, args, kwargs, node):
    b = dict(zip(['k', 'n'], args))
    b.update(kwargs)
    n, _ = ip.term_of(b['n'], node)
    kt, _ = ip.term_of(b['k'], node)
    return ip.fresh_array(N.fn('KkOf', kt, n))


def _history_run(prog, make, mode, preset):
    ip = _ip(prog)
    ip.preset = list(preset)
    for s_ in ('k1', 'junk'):
        ip.declare(s_, 'curve')
    o = make(ip)
    calc = lambda arr: ip.call(ip.find_method(o, 'calculate'), [arr], {})
    if mode == 'fresh':
        res = calc(Arr(N.sym('k'), 'k', ip))
    elif mode == 'new-array':            # evaluated on another grid before
        calc(Arr(N.sym('k1'), 'k_first_call', ip))
        res = calc(Arr(N.sym('k'), 'k', ip))
    elif mode == 'same-array-mutated':   # the caller re-uses its grid buffer: same array object, new contents
        ka = Arr(N.sym('k1'), 'k', ip)
        calc(ka)
        ka.t = N.sym('k')
        res = calc(ka)
    elif mode == 'result-mutated':       # the caller edits the array it got back, then evaluates again
        r1 = calc(Arr(N.sym('k'), 'k_first_call', ip))
        root = r1
        while isinstance(root, View):
            root = root.base
        if isinstance(root, Arr):
            root.t = N.sym('junk')
        res = calc(Arr(N.sym('k'), 'k', ip))
    else:
        raise AssertionError(mode)
    return ip, {'res': res, 'obj': o}


def _instance_models(prog):
    """(qualname, parameter names, constructor(ip, {param: Num}), opaque?) for the two-instance history rule"""
    def mk(qual):
        return lambda ip, kw: ip.construct(prog.cls(qual), [], dict(kw))
    return [
        (OM + 'Gaussian::Gaussian', {'sigma': False, 'length': True}, mk(OM + 'Gaussian::Gaussian'), False),
        (OM + 'FreelyJointedChain::FreelyJointedChain', {'l': False, 'length': True}, mk(OM + 'FreelyJointedChain::FreelyJointedChain'), False),
        (OM + 'GaussianRing::GaussianRing', {'sigma': False}, lambda ip, kw: ip.construct(
            prog.cls(OM + 'GaussianRing::GaussianRing'), [], dict(kw, length=const_num(5))), False),
        (OM + 'NonOverlappingFreelyJointedChain::NonOverlappingFreelyJointedChain', {'l': False},
         lambda ip, kw: ip.construct(prog.cls(OM + 'NonOverlappingFreelyJointedChain::NonOverlappingFreelyJointedChain'), [],
                                     dict(kw, length=Num(N.isym('N')))), False),
        # DiscreteKoyama: the real constructor and the real kernel, with arithmetic kept uninterpreted (the moment formulas
        # are far too large to normalise on every run; equality of two evaluations only needs "same operations on the same
        # inputs"), chain length 3 so that both separations n = 1, 2 are evaluated
        (KOY, {'sigma': False, 'l': False, 'lp': False},
         lambda ip, kw: ip.construct(prog.cls(KOY), [], dict(kw, length=const_num(3))), True),
    ]


def _instances_run(prog, make, params, varied, opaque, preset):
    """evaluate an instance X, then an instance Y that differs from X in the parameter `varied` only (None: Y alone);
    returns Y's omega(k)"""
    ip = _ip(prog)
    ip.preset = list(preset)
    ip.opaque_arith = opaque
    ip.declare('k1', 'curve')

    def kw(tag):
        return {p: Num(ip.declare(p + tag, integer=integer)) for p, integer in params.items()}
    ky = kw('')
    if varied is not None:
        kx = dict(ky)
        kx[varied] = Num(ip.declare(varied + '_other', integer=params[varied]))
        x = make(ip, kx)
        ip.call(ip.find_method(x, 'calculate'), [Arr(N.sym('k'), 'k_other_instance', ip)], {})
    y = make(ip, ky)
    y.origin = 'self'
    res = ip.call(ip.find_method(y, 'calculate'), [Arr(N.sym('k'), 'k', ip)], {})
    return ip, {'res': res}


def rule_instances(ctx, rule='R11.i'):
    """omega(k) of a model object is a function of its own parameters: evaluated after another instance of the same class
    that differs in exactly one constructor parameter (for each parameter in turn) was evaluated on the same grid in the
    same process, it returns what it returns alone.  Catches state kept at class or module level (memo tables with an
    incomplete key, shared buffers).  Symbolic dictionary keys are compared as canonical terms."""
    n = 0
    for qual, params, make, opaque in _instance_models(ctx.prog):
        cls = ctx.prog.cls(qual)
        m = cls.find_method('calculate')
        bad, und, runs = [], [], 0
        try:
            fresh = explore(lambda preset: _instances_run(ctx.prog, make, params, None, opaque, preset))
            ref = {}
            for dec, ip, r in fresh:
                ref[tuple((c.key(), b) for c, b, _ in dec)] = _term(ip, r['res'])
        except (Unsupported, Raised, ValueError) as e:
            ctx.undecided(rule, qual, 'instance alone: %s' % e, m.loc())
            continue
        for varied in sorted(params):
            try:
                worlds = explore(lambda preset: _instances_run(ctx.prog, make, params, varied, opaque, preset), limit=256)
            except (Unsupported, Raised) as e:
                und.append('other instance differs in %s: %s' % (varied, e))
                continue
            for dec, ip, r in worlds:
                runs += 1
                # the decisions that concern Y alone select the reference path
                own = tuple((c.key(), b) for c, b, _ in dec if (c.key(), b) in {kk for key in ref for kk in key})
                cands = [t for key, t in ref.items() if set(key) <= set((c.key(), b) for c, b, _ in dec)]
                try:
                    t = _term(ip, r['res'])
                except Unsupported as e:
                    und.append('other instance differs in %s: %s' % (varied, e))
                    continue
                if not cands:
                    und.append('other instance differs in %s: no matching path of the instance alone' % varied)
                elif not any(t.equals(c) for c in cands):
                    bad.append('after an instance that differs only in %s was evaluated, omega(k) is %s where the instance alone '
                               'gives %s' % (varied, N.show_opaque(t)[:200], N.show_opaque(cands[0])[:200]))
        if bad:
            n += 1
            ctx.violation(rule, qual, 'other-instance', '; '.join(bad[:2]), m.loc())
        elif und:
            ctx.undecided(rule, qual, '; '.join(und[:2]), m.loc())
        else:
            n += 1
            ctx.holds(rule, qual, 'evaluating another instance first (one differing parameter at a time: %s) does not change omega(k) '
                      '(%d paths%s)' % (', '.join(sorted(params)), runs, ', uninterpreted arithmetic' if opaque else ''), m.loc())
    ctx.floor(rule, n, 5, 'omega models with a two-instance independence check')


def _assumed_equalities(decisions):
    """substitution implied by array_equal(x,y) / allclose(x,y) conditions that the path assumed true (plain symbols)"""
    import re
    m = {}
    for c, b, loc in decisions:
        t = c.key()
        if b and t[0] == 'flag':
            mm = re.match(r'^(?:array_equal|allclose)\((\w+),(\w+)\)$', t[1])
            if mm:
                a_, b_ = mm.group(1), mm.group(2)
                if a_ == 'k':
                    a_, b_ = b_, a_
                m[a_] = N.sym(b_)
    return m


REDUCTIONS = ('max', 'min', 'sum', 'mean', 'ptp', 'median', 'any', 'all')


def _whole_array_atoms(res):
    """reductions over the whole k array (max(k), sum(k), ...) that the returned value -- or a condition it is piecewise
    on -- depends on"""
    out = set()
    t = getattr(res, 't', None)
    if t is None:
        return []

    def scan(nf):
        for a in nf.all_atoms():
            if a[0] == 'fn' and a[1] in REDUCTIONS and 'k' in N.nf_from_key(a[2]).symbols():
                out.add(N.show_atom(a)[:60])
    for leaf in P.leaves(t):
        scan(leaf)
    ps, fs = P.conds(t)
    for p_ in ps:
        for key in p_:
            scan(N.nf_from_key(key))
    return sorted(out)


def _whole_array_branches(worlds):
    """data-dependent decisions taken inside calculate whose condition is a reduction over an array (np.all / np.any /
    np.allclose / array_equal of something that depends on k) and that do not end in a refusal"""
    out = []
    for dec, ip, r in worlds:
        for c, b, loc in dec:
            t = c.key()
            name = t[1] if t[0] == 'flag' else (t[1][1] if t[0] == 'not' and t[1][0] == 'flag' else None)
            if name and name.startswith(('all(', 'any(')) and 'k' in name:
                out.append('%s at %s' % (name[:80], loc))
    return sorted(set(out))


def rule_history(ctx, rule='R11.h'):
    """omega(k) returned by a model depends on the k of *this* call only: evaluated (a) after an evaluation on another
    grid, (b) on the same array object whose contents the caller changed in place, (c) after the caller modified the
    previously returned array -- it must be the term a fresh model returns.  (Memoisation on a *copy* of k guarded by
    an equality test passes: under the assumed equality the cached value is the right one.)"""
    n = 0
    for qual, make in _models(ctx.prog):
        cls = ctx.prog.cls(qual)
        m = cls.find_method('calculate')
        try:
            (_, ipf, rf), = explore(lambda preset: _history_run(ctx.prog, make, 'fresh', preset))[:1]
            red = _whole_array_atoms(rf['res'])
            if red:
                n += 1
                ctx.violation('R11.e', qual, 'whole-array-dependence',
                              'the returned array depends on a reduction over the whole k array (%s): the value at one k depends on '
                              'which other k are in the array' % '; '.join(red[:3]), m.loc())
                continue
            tf = _term(ipf, rf['res'])
        except (Unsupported, Raised, ValueError) as e:
            ctx.undecided(rule, qual, 'fresh evaluation: %s' % e, m.loc())
            continue
        bad = []
        und = []
        paths = 0
        whole = _whole_array_branches(explore(lambda preset: _history_run(ctx.prog, make, 'fresh', preset)))
        if whole:
            n += 1
            ctx.violation('R11.e', qual, 'whole-array-branch',
                          'calculate branches on a condition over the whole k array (%s): the value returned for one k depends on '
                          'which other k are in the array' % '; '.join(whole[:2]), m.loc())
            continue
        for mode in ('new-array', 'same-array-mutated', 'result-mutated'):
            try:
                worlds = explore(lambda preset: _history_run(ctx.prog, make, mode, preset))
            except (Unsupported, Raised) as e:
                und.append('%s: %s' % (mode, e))
                continue
            for dec, ip, r in worlds:
                paths += 1
                try:
                    t = _term(ip, r['res'])
                except Unsupported as e:
                    und.append('%s: %s' % (mode, e))
                    continue
                sub = _assumed_equalities(dec)
                t2 = N.subs(t, sub) if sub else t
                if not t2.equals(tf):
                    where = (' (when %s)' % ', '.join('%s is %s' % (c.show(), b) for c, b, _ in dec)) if dec else ''
                    bad.append('history "%s"%s: returns %s where a fresh model returns %s' % (mode, where, N.show(t2)[:140], N.show(tf)[:140]))
        if bad:
            n += 1
            ctx.violation(rule, qual, 'history', '; '.join(bad[:2]), m.loc())
        elif und:
            ctx.undecided(rule, qual, '; '.join(und[:2]), m.loc())
        else:
            n += 1
            ctx.holds(rule, qual, 'three two-call histories (other grid before / same buffer re-used / returned array edited) give the '
                      'value of a fresh model (%d paths)' % paths, m.loc())
    ctx.floor(rule, n, 8, 'analytic omega models with a two-call history check')
