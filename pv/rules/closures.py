"""Rules R09.* (closures equal their definitions) and R03.a/b/c (hard-core exclusion)."""
import ast
from .. import nf as N
from .. import pw as P
from ..interp import Interp, Arr, Num, Const, Obj, Unsupported, Raised
from ..model import AnalysisError
from spec import closures as SPEC

G = N.sym('g')
U = N.sym('u')
R = N.sym('r')
S = N.sym('sigma')


def atomic_closure_classes(prog):
    """every concrete subclass of AtomicClosure that can be evaluated (has a `calculate`)"""
    out = []
    for c in prog.subclasses_of('AtomicClosure'):
        if c.find_method('calculate') is not None:
            out.append(c)
    if not out:
        raise AnalysisError('no AtomicClosure subclass with a calculate method found')
    return out


def defining_classes(prog):
    """group closure classes by the function object their `calculate` resolves to"""
    groups = {}
    for c in atomic_closure_classes(prog):
        f = c.find_method('calculate')
        groups.setdefault(f.qualname, (f, []))[1].append(c)
    out = []
    for q, (f, cs) in sorted(groups.items()):
        out.append((f.cls, f, cs))
    return out


def run_closure(prog, cls, flag):
    """the single normally returning path of calculate (refusals such as `if len(gamma) != len(potential): raise` are
    explored and must be refusals: they raise)"""
    from ..interp import explore
    worlds = explore(lambda preset: _run_closure(prog, cls, flag, preset), keep_raised=True)
    normal = [w for d, ip, w in worlds if ip is not None]
    if len(normal) == 1:
        return normal[0]
    if len(normal) > 1:
        w = _generic_world(worlds)
        if w is not None:
            return w
    if not normal:
        raised = [w for d, ip, w in worlds if ip is None]
        raise raised[0] if raised else Unsupported('calculate has no analysable path')
    raise Unsupported('calculate has %d data-dependent normally returning paths' % len(normal))


def reduction_facts(ip, dec):
    """(facts, generic, only_reductions) of one explored path.  A decision on a whole-grid reduction of a mask (`mask.all()`,
    `mask.any()`) implies a pointwise fact when it is all(c)=True (c everywhere) or any(c)=False (c nowhere); the path on
    which every all() is False and every any() is True is the generic grid, with points on both sides of every mask."""
    facts, generic, only = [], True, True
    for c, taken, _ in dec:
        red = ip.reduce_flags.get(c.t[1]) if c.t[0] == 'flag' else None
        if red is None:
            only = False
            continue
        kind, cond = red
        if (kind == 'all') == bool(taken):
            generic = False
            facts.append((cond, kind == 'all'))
    return facts, generic, only


def _generic_world(worlds):
    """paths that differ only in whole-grid reductions of a mask: the pointwise analysis describes the generic grid; the
    others are degenerate grids, kept as `special` worlds together with the pointwise facts their decisions imply"""
    generic, special = [], []
    for d, ip, w in worlds:
        if ip is None:
            continue
        facts, is_generic, only = reduction_facts(ip, d)
        if not only:
            return None
        (generic if is_generic else special).append((facts, d, w))
    if len(generic) == 1:
        w = generic[0][2]
        w['special'] = special
        return w
    return None


UINF = N.sym('uinf')


def _run_closure(prog, cls, flag, preset=(), inf_core=False):
    ip = Interp(prog)
    ip.preset = list(preset)
    for s, k in (('u', 'curve'), ('g', 'curve'), ('r', 'curve'), ('sigma', 'scalar')):
        ip.declare(s, k)
    o = ip.construct(cls, [], {'apply_hard_core': Const(flag)})
    o.origin = 'self'
    # r, gamma and the stored potential are arrays over the same real-space grid (that is how PRISM.cost calls a closure):
    # a refusal of equal lengths is a refusal of every valid call
    ip.len_alias = {'g': 'r', 'u': 'r', 'uinf': 'r'}
    if inf_core:
        # a genuinely divergent core: the potential is +infinity at every grid point with r <= sigma
        ip.declare('uinf', 'curve')
        ip.inf_syms = frozenset(['uinf'])
        pot = Arr(P.ite(P.Cond.cmp('>', R, S), U, UINF), 'self.potential', ip)
    else:
        pot = Arr(U, 'self.potential', ip)
    ip.set_attr(o, 'potential', pot, None)
    ip.set_attr(o, 'sigma', Num(S), None)
    r = Arr(R, 'r', ip)
    g = Arr(G, 'gamma', ip)
    m = ip.find_method(o, 'calculate')
    n_events0 = len(ip.events)
    res = ip.call(m, [r, g], {})
    return ip, {'ip': ip, 'obj': o, 'res': res, 'inputs': {'r': r, 'gamma': g, 'self.potential': pot},
                'events': ip.events[n_events0:], 'func': m}


def spec_for(cls):
    for c in cls.mro():
        if c.name in SPEC.REFERENCES:
            return c.name, SPEC.REFERENCES[c.name]
    return None, None


def _rs_key():
    key = (N.reg(R), N.reg(S)) if repr(N.reg(R)) <= repr(N.reg(S)) else (N.reg(S), N.reg(R))
    return key, key[0] != N.reg(R)


def _extras(*terms):
    """Valuations of the comparison atoms other than r-vs-sigma that occur in the piecewise terms (e.g. the
    `gamma > 50` of an np.minimum clamp).  A closure relation is claimed for *every* gamma and u, so each rule
    must hold in every such region.  Only comparisons whose three orderings are all certainly inhabited are
    accepted: the difference of the operands must be of degree one in a single free symbol (gamma or u)."""
    ps, fs = set(), set()
    for t in terms:
        P.conds(t, ps, fs)
    if fs:
        raise Unsupported('closure term depends on non-ordering conditions %s' % sorted(fs))
    key, _ = _rs_key()
    extras = sorted((p for p in ps if p != key), key=repr)
    allowed = []
    for p in extras:
        a, b = N.nf_from_key(p[0]), N.nf_from_key(p[1])
        d = a - b
        syms = d.symbols()
        if 'sigma' in syms:
            raise Unsupported('closure mask compares something other than r and sigma: %s vs %s' % (N.show(a), N.show(b)))
        lin = len(syms) >= 1 and d.is_poly() and all(a_[0] == 'sym' for a_ in d.all_atoms())
        sname = next(iter(syms)) if len(syms) == 1 else None
        if lin:
            for sn in sorted(syms):
                dd = N.diff(d, sn)
                lin = lin and dd.is_const() and not dd.is_zero()
        if lin and len(syms) > 1:
            # a linear form in the independent real quantities gamma and u (e.g. gamma - u vs 100) takes every sign
            if syms <= {'g', 'u'}:
                allowed.append(('lt', 'eq', 'gt'))
                continue
            lin = False
        if not lin:
            raise Unsupported('data condition %s vs %s: cannot certify which orderings occur' % (N.show(a), N.show(b)))
        if sname in ('g', 'u'):
            allowed.append(('lt', 'eq', 'gt'))          # gamma and u range over all reals
        elif sname == 'r':
            # r is a radial distance: r >= 0, and r == 0 is a legitimate grid point for a direct call.
            # d = c1*r + c0 ; sign pattern of d on r >= 0
            c1 = N.diff(d, 'r').const_value()
            c0 = N.subs(d, {'r': 0}).const_value()
            root = -c0 / c1                               # d == 0 at r == root
            outs = set()
            if root > 0:
                outs = {'lt', 'eq', 'gt'}
            elif root == 0:
                outs = {'eq', 'gt' if c1 > 0 else 'lt'}
            else:
                outs = {'gt' if c1 > 0 else 'lt'}
            allowed.append(tuple(o for o in ('lt', 'eq', 'gt') if o in outs))
        else:
            raise Unsupported('data condition on %s' % sname)
    if len(extras) > 4:
        raise Unsupported('too many data conditions in a closure term')
    import itertools
    return [dict(zip(extras, outs)) for outs in itertools.product(*allowed)] if extras else [{}]


def _origin_region(extras_vals):
    """the region (valuation of the extra conditions) that contains gamma = u = 0"""
    if not extras_vals:
        return {}
    v = {}
    for p in extras_vals[0]:
        d0 = N.nf_from_key(p[0]) - N.nf_from_key(p[1])
        if d0.symbols() == {'r'}:       # a typical grid point: r beyond every constant it is compared with
            v[p] = 'gt' if N.diff(d0, 'r').const_value() > 0 else 'lt'
            continue
        d = N.subs(d0, {'g': 0, 'u': 0})
        if not d.is_const():
            raise Unsupported('cannot locate the origin relative to a data condition')
        c = d.const_value()
        v[p] = 'lt' if c < 0 else ('eq' if c == 0 else 'gt')
    return v


def _outside(term):
    """at(o, extra) -> the leaf of a closure's piecewise term where r <o> sigma and the extra conditions hold"""
    key, flipped = _rs_key()
    _extras(term)

    def at(o, extra=None):
        o2 = {'lt': 'gt', 'gt': 'lt', 'eq': 'eq'}[o] if flipped else o
        val = {key: o2}
        val.update(extra or {})
        return P.at(term, val)
    return at


def _pointwise_fragment(term):
    """None when every leaf is built from pointwise operators only (the fragment in which a difference of normal
    forms is a difference of functions); otherwise the offending atoms"""
    bad = _non_elementwise_atoms(term)
    return bad or None


def _principal(ev):
    """the region that contains typical grid points and small gamma/u: r larger than every constant it is compared
    with, gamma and u on the side of 0.  Violations there keep the plain key (so a listed finding stays one finding);
    violations in any other region carry the region in their key and are reported on their own."""
    for p, o in ev.items():
        a, b_ = N.nf_from_key(p[0]), N.nf_from_key(p[1])
        d = a - b_
        if d.symbols() == {'r'}:
            c1 = N.diff(d, 'r').const_value()
            want = 'gt' if c1 > 0 else 'lt'
        else:
            c0 = N.subs(d, {sn: 0 for sn in d.symbols()}).const_value()
            want = 'gt' if c0 > 0 else ('lt' if c0 < 0 else 'eq')
        if o != want:
            return False
    return True


def _feasible(rs_order, ev):
    """r == 0 (an `eq` ordering of a condition whose root is r = 0) lies inside every core (sigma > 0)"""
    for p, o in ev.items():
        d = N.nf_from_key(p[0]) - N.nf_from_key(p[1])
        if d.symbols() == {'r'} and o == 'eq':
            c1 = N.diff(d, 'r').const_value()
            c0 = N.subs(d, {'r': 0}).const_value()
            if -c0 / c1 == 0 and rs_order != 'lt':
                return False
    return True


def rule_definition(ctx, rule='R09.d'):
    """outside-core term equals the published relation, for flag in {False, True}, in every data region"""
    n = 0
    for dcls, f, users in defining_classes(ctx.prog):
        cname = dcls.qualname
        sname, refs = spec_for(dcls)
        for flag in (False, True):
            try:
                w = run_closure(ctx.prog, dcls, flag)
                t = w['res']
                term = t.t if isinstance(t, (Arr, Num)) else None
                if term is None:
                    raise Unsupported('calculate does not return an array term')
                npw = _pointwise_fragment(term)
                if npw:
                    raise Unsupported('extracted term contains non-pointwise operators %s (reported by R09.e); '
                                      'its comparison with the reference is not decidable by normal forms' % npw[:3])
                at = _outside(term)
                regions = _extras(term)
                key_rs, _ = _rs_key()
                has_core = key_rs in P.conds(term)[0]
                # without a core branch "outside the core" is everywhere; with one it is r > sigma
                cases = [ev for ev in regions if _feasible('gt', ev)] if has_core else regions
                if not cases:
                    raise Unsupported('no feasible region outside the core')
            except Raised as e:
                # every path of calculate on a valid call (arrays over one grid, potential and sigma set) ends in an exception
                n += 1
                ctx.violation(rule, cname, 'raises:flag=%s' % flag, 'apply_hard_core=%s: calculate raises %s (%s) for every valid '
                              'call: r, gamma and the potential on one grid, sigma set' % (flag, e.exc, (e.msg or '')[:100]), f.loc())
                continue
            except Unsupported as e:
                ctx.undecided(rule, cname, 'apply_hard_core=%s: %s' % (flag, e), f.loc())
                continue
            n += 1
            out = at('gt', cases[0])
            sp_bad = []
            for facts, dec, ws in w.get('special', ()):
                ts = ws['res'].t if isinstance(ws['res'], (Arr, Num)) else None
                if ts is None or P.compare(P.assume(ts, facts), P.assume(term, facts))[0]:
                    sp_bad.append('on a grid where %s calculate returns %s, the generic path gives %s there' % (
                        ', '.join('%s is %s' % (c.show(), b_) for c, b_, _ in dec), P.show(ts)[:100] if ts is not None else ws['res'],
                        P.show(P.assume(term, facts))[:100]))
            if sp_bad:
                ctx.violation(rule, cname, 'definition:degenerate-grid:flag=%s' % flag, 'apply_hard_core=%s: %s' % (flag, sp_bad[0]), f.loc())
                continue
            if refs is None:
                ctx.holds(rule, cname, 'apply_hard_core=%s: no reference relation for this closure in '
                          'spec/closures.py; generic rules only (extracted: %s)' % (flag, N.show(out)),
                          f.loc(), nontrivial=False)
                continue
            hit = [nm for nm, ref in refs if all(at('gt', ev).equals(ref) for ev in cases)]
            if hit:
                ctx.holds(rule, cname, 'apply_hard_core=%s: c(gamma,u) == %s reference%s' % (
                    flag, hit[0], (' in all %d data regions' % len(cases)) if len(cases) > 1 else ''), f.loc(),
                    key='flag=%s' % flag, sample={'flag': flag, 'extracted': N.show(out), 'reference': hit[0]})
                continue
            reported = set()
            for ev in cases:
                leaf = at('gt', ev)
                if any(leaf.equals(ref) for nm, ref in refs):
                    continue
                key = 'definition:outside-core' if _principal(ev) else 'definition:outside-core:{%s}' % P.show_val(ev)
                if key in reported:
                    continue
                reported.add(key)
                where = ('in the region {%s} ' % P.show_val(ev)) if ev else ''
                ctx.violation(rule, cname, key,
                              'apply_hard_core=%s: %sthe extracted c(gamma,u) = %s differs from every accepted '
                              'reference (%s)' % (flag, where, N.show(leaf),
                                                  '; '.join('%s: %s' % (nm, N.show(ref)) for nm, ref in refs)),
                              f.loc(), extracted=N.show(leaf), flag=flag)
    ctx.floor(rule, n, 8, 'closure definition obligations (4 closures x 2 flag values)')


def rule_core(ctx, rule='R03.a', outside=True):
    """flag set: value is exactly -1-gamma on not(r > sigma) (every data region); with outside=True also: on r > sigma
    the flagged closure equals its own flag-free relation (sibling agreement of the two branches)"""
    n = 0
    for dcls, f, users in defining_classes(ctx.prog):
        cname = dcls.qualname
        try:
            w = run_closure(ctx.prog, dcls, True)
            term = w['res'].t
            npw = _pointwise_fragment(term)
            free = None
            if outside:
                wf = run_closure(ctx.prog, dcls, False)
                free = wf['res'].t
                npw = npw or _pointwise_fragment(free)
            if npw:
                raise Unsupported('extracted term contains non-pointwise operators %s (reported by R09.e)' % npw[:3])
            at = _outside(term)
            regions = _extras(term, free) if free is not None else _extras(term)
            key_rs, _ = _rs_key()
            if free is not None and key_rs in P.conds(free)[0]:
                raise Unsupported('flag-free closure term is piecewise in r vs sigma')
        except (Unsupported, Raised) as e:
            ctx.undecided(rule, cname, str(e), f.loc())
            continue
        n += 1
        bad = []
        for ev in regions:
            where = (' (region {%s})' % P.show_val(ev)) if ev else ''
            for o in ('lt', 'eq'):
                if not _feasible(o, ev):
                    continue
                leaf = at(o, ev)
                if not leaf.equals(SPEC.CORE):
                    bad.append('at r %s sigma%s the value is %s, not -1-gamma' % ({'lt': '<', 'eq': '=='}[o], where, N.show(leaf)))
            if free is not None and _feasible('gt', ev):
                fl = P.at(free, ev) if P.is_pw(free) else free
                if not at('gt', ev).equals(fl):
                    bad.append('at r > sigma%s the flagged closure gives %s but the same closure without the flag gives %s'
                               % (where, N.show(at('gt', ev)), N.show(fl)))
            if bad:
                break
        if bad:
            ctx.violation(rule, cname, 'core-branch', '; '.join(bad), f.loc())
        else:
            r0 = regions[0]
            ctx.holds(rule, cname, 'c+gamma == -1 on r<sigma and r==sigma%s (3 orderings enumerated)'
                      % ('; same relation as the flag-free branch on r>sigma' if outside else ''), f.loc(),
                      sample={'closure': dcls.name, 'orderings': {'r<sigma': N.show(at('lt', r0)),
                                                                 'r==sigma': N.show(at('eq', r0)),
                                                                 'r>sigma': N.show(at('gt', r0))}})
    ctx.floor(rule, n, 4, 'closures with a hard-core branch')


def rule_core_infinite(ctx, rule='R03.i'):
    """flag set and the potential +infinity inside the core (HardSphere(high_value=inf), a tabulated divergent core):
    the value on not(r > sigma) is still exactly -1-gamma -- i.e. the in-core potential is discarded by *selection*, never
    multiplied by a zero weight (0*inf is NaN) or cancelled (inf-inf is NaN).  IEEE-754 rules are applied to the
    infinite symbol during extraction (Interp.ieee)."""
    from ..interp import explore
    n = 0
    for dcls, f, users in defining_classes(ctx.prog):
        cname = dcls.qualname
        try:
            worlds = explore(lambda preset: _run_closure(ctx.prog, dcls, True, preset, inf_core=True), keep_raised=True)
            normal = [w for d, ip, w in worlds if ip is not None]
            if len(normal) > 1 and _generic_world(worlds) is not None:
                normal = [_generic_world(worlds)]
            if len(normal) != 1:
                raise Unsupported('calculate has %d normally returning paths with a divergent core' % len(normal))
            term = normal[0]['res'].t
            npw = _pointwise_fragment(term)
            if npw:
                raise Unsupported('extracted term contains non-pointwise operators %s (reported by R09.e)' % npw[:3])
            at = _outside(term)
            regions = _extras(term)
        except (Unsupported, Raised) as e:
            ctx.undecided(rule, cname, str(e), f.loc())
            continue
        n += 1
        bad, unsure = [], []
        for ev in regions:
            where = (' (region {%s})' % P.show_val(ev)) if ev else ''
            for o in ('lt', 'eq'):
                if not _feasible(o, ev):
                    continue
                leaf = at(o, ev)
                if leaf.equals(SPEC.CORE):
                    continue
                msg = 'with u = +inf inside the core, at r %s sigma%s the value is %s, not -1-gamma' % (
                    {'lt': '<', 'eq': '=='}[o], where, N.show(leaf))
                (unsure if 'MaybeNaN' in leaf.symbols() else bad).append(msg)
        if bad:
            ctx.violation(rule, cname, 'core-branch-infinite-potential', '; '.join(bad[:2]), f.loc())
        elif unsure:
            ctx.undecided(rule, cname, '; '.join(unsure[:2]), f.loc())
        else:
            ctx.holds(rule, cname, 'c+gamma == -1 inside the core also when the potential there is +infinity '
                      '(selection, no 0*inf or inf-inf)', f.loc(),
                      sample={'closure': dcls.name, 'r<sigma': N.show(at('lt', regions[0]))})
    ctx.floor(rule, n, 4, 'closures with a hard-core branch (divergent core)')


def rule_flag_truthiness(ctx, rule='R03.t'):
    """the hard-core flag acts through its truth value: a closure created with a truthy flag that is not the literal True
    (numpy.bool_ from a comparison, 1) applies the core condition exactly as with True, and a falsy one (0) behaves as
    False"""
    n = 0
    for dcls, f, users in defining_classes(ctx.prog):
        cname = dcls.qualname
        bad = []
        try:
            for lit, alt in ((True, 1), (False, 0)):
                t0 = run_closure(ctx.prog, dcls, lit)['res'].t
                t1 = run_closure(ctx.prog, dcls, alt)['res'].t
                d, _ = P.compare(t0, t1)
                if d:
                    ev, a_, b_ = d[0]
                    bad.append('apply_hard_core=%r gives %s where apply_hard_core=%r gives %s%s' % (
                        alt, N.show(b_), lit, N.show(a_), (' (where %s)' % P.show_val(ev)) if ev else ''))
        except (Unsupported, Raised) as e:
            ctx.undecided(rule, cname, str(e), f.loc())
            continue
        n += 1
        if bad:
            ctx.violation(rule, cname, 'flag-truthiness', '; '.join(bad), f.loc())
        else:
            ctx.holds(rule, cname, 'flag values 1 / 0 behave as True / False', f.loc())
    ctx.floor(rule, n, 4, 'closures with a hard-core flag')


def rule_cancellation(ctx, rule='R09.n'):
    """floating-point conditioning of the one pattern that silently destroys a closure for strongly repulsive pairs: a
    constant added back onto `exp(..) - constant` (the Mayer function f = exp(-u) - 1 followed by 1 + f).  The normal form
    cannot see it (the constants cancel algebraically); the interpreter notes it where it happens (Interp.note_cancellation).
    For u > 37 (any hard or strongly repulsive core) 1 + f is exactly 0 and exp(gamma - u) is lost however large gamma is."""
    n = 0
    for dcls, f, users in defining_classes(ctx.prog):
        cname = dcls.qualname
        hits = []
        try:
            for flag in (False, True):
                w = run_closure(ctx.prog, dcls, flag)
                hits += [x for k_, x in w['ip'].notes if k_ == 'cancellation']
        except (Unsupported, Raised) as e:
            ctx.undecided(rule, cname, str(e), f.loc())
            continue
        n += 1
        if hits:
            h = hits[0]
            ctx.violation(rule, cname, 'cancellation', 'at %s the constant %s is added back onto %s: in floating point the exponential '
                          'is lost once it is below %s*1e-16 (u > 37 for exp(-u)), so the closure returns -1-gamma-like values for '
                          'strongly repulsive pairs whatever gamma is' % (h['loc'], h['const'], h['term'], h['const']), f.loc())
        else:
            ctx.holds(rule, cname, 'no constant is added back onto an exp(..) - constant intermediate', f.loc(), nontrivial=False)
    ctx.floor(rule, n, 4, 'closures checked for the 1 + (exp - 1) pattern')


def rule_core_only(ctx, rule='R03.a'):
    """C03's clause: inside the core of a flagged closure c + gamma == -1 exactly (what the closure does outside the core
    is C09's business)"""
    return rule_core(ctx, rule, outside=False)


def rule_noflag_limit(ctx, rule='R03.c'):
    """PY and HNC without the flag: exp(-u) -> 0 gives -1-gamma (premise: exp(-high/kT) underflows)"""
    n = 0
    for dcls, f, users in defining_classes(ctx.prog):
        if not any(c.name in SPEC.NOFLAG_LIMIT for c in dcls.mro()):
            continue
        cname = dcls.qualname
        try:
            w = run_closure(ctx.prog, dcls, False)
            pterm = w['res'].t
            npw = _pointwise_fragment(pterm)
            if npw:
                raise Unsupported('extracted term contains non-pointwise operators %s (reported by R09.e)' % npw[:3])
            regions = _extras(pterm)
            # conditions that involve u: in the limit u -> +infinity only the regions on the far side are visited
            def in_limit(ev):
                for p_, o in ev.items():
                    d = N.nf_from_key(p_[0]) - N.nf_from_key(p_[1])
                    if 'u' in d.symbols():
                        cu = N.diff(d, 'u')
                        if not cu.is_const() or cu.is_zero():
                            raise Unsupported('flag-free term branches on a non-linear condition on u')
                        if o != ('gt' if cu.const_value() > 0 else 'lt'):
                            return False
                return True
            regions = [ev for ev in regions if in_limit(ev)]
            key_rs, _ = _rs_key()
            if key_rs in P.conds(pterm)[0]:
                raise Unsupported('piecewise (r vs sigma) flag-free term')
            z = N.sym('@z')
            eu = ('exp', ((('sym', 'u'), N.ONE),))
            verdict = None
            for ev in regions:
                term = P.at(pterm, ev) if P.is_pw(pterm) else pterm
                where = (' in the region {%s}' % P.show_val(ev)) if ev else ''
                t2 = N.transform(term, lambda a: (1 / z) if a == eu else None)
                if 'u' in t2.symbols():
                    raise Unsupported('u occurs outside exp(-u): %s' % N.show(t2))
                if not t2.is_poly() or any(e < 0 for m in t2.num for a, e in m if a == ('sym', '@z')):
                    verdict = 'term diverges as exp(-u)->0%s: %s' % (where, N.show(term))
                    break
                lim = N.subs(t2, {'@z': 0})
                if not lim.equals(SPEC.CORE):
                    verdict = 'exp(-u):=0 gives %s%s, not -1-gamma' % (N.show(lim), where)
                    break
        except (Unsupported, Raised) as e:
            ctx.undecided(rule, cname, str(e), f.loc())
            continue
        n += 1
        if verdict is None:
            ctx.holds(rule, cname, 'exp(-u):=0 in the flag-free term gives -1-gamma', f.loc(),
                      sample={'closure': dcls.name, 'term': N.show(term), 'limit': N.show(lim)})
        else:
            ctx.violation(rule, cname, 'noflag-limit', verdict, f.loc())
    ctx.floor(rule, n, 2, 'PY/HNC no-flag limits')


def rule_weak_coupling(ctx, rule='R09.w'):
    """c(0,0)=0, dc/du(0,0)=-1, dc/dgamma(0,0)=0 for the outside-core relation (reference free)"""
    n = 0
    for dcls, f, users in defining_classes(ctx.prog):
        cname = dcls.qualname
        try:
            w = run_closure(ctx.prog, dcls, False)
            term = w['res'].t
            npw = _pointwise_fragment(term)
            if npw:
                raise Unsupported('extracted term contains non-pointwise operators %s (reported by R09.e)' % npw[:3])
            if P.is_pw(term):
                org = _origin_region(_extras(term))
                if any(o == 'eq' for o in org.values()):
                    raise Unsupported('the origin lies on a branch boundary of the flag-free term')
                key_rs, _ = _rs_key()
                if key_rs in P.conds(term)[0]:
                    raise Unsupported('piecewise (r vs sigma) flag-free term')
                term = P.at(term, org)
            z = {'u': 0, 'g': 0}
            c0 = N.subs(term, z)
            du = N.subs(N.diff(term, 'u'), z)
            dg = N.subs(N.diff(term, 'g'), z)
        except (Unsupported, Raised, N.Incomplete, ZeroDivisionError) as e:
            ctx.undecided(rule, cname, str(e), f.loc())
            continue
        n += 1
        bad = []
        if not c0.is_zero():
            bad.append('c(0,0) = %s = %.4g' % (N.show(c0), N.evalf(c0)))
        if not du.equals(N.NF.const(-1)):
            bad.append('dc/du(0,0) = %s = %.4g (expected -1)' % (N.show(du), N.evalf(du)))
        if not dg.is_zero():
            bad.append('dc/dgamma(0,0) = %s = %.4g (expected 0)' % (N.show(dg), N.evalf(dg)))
        if bad:
            ctx.violation(rule, cname, 'weak-coupling', '; '.join(bad), f.loc())
        else:
            ctx.holds(rule, cname, 'c(0,0)=0, dc/du=-1, dc/dgamma=0 at the origin (symbolic derivative)', f.loc(),
                      sample={'closure': dcls.name, 'dc/du': N.show(N.diff(term, 'u'))})
    ctx.floor(rule, n, 4, 'closures checked for the weak-coupling expansion')


_ELEMENTWISE_ATOMS = ('sym', 'pi', 'prime', 'neg1', 'exp', 'expq', 'pow')


def _non_elementwise_atoms(term):
    bad = []
    for leaf in P.leaves(term):
        for a in leaf.all_atoms():
            if a[0] in _ELEMENTWISE_ATOMS:
                continue
            if a[0] == 'fn' and a[1] in ('log', 'sin', 'cos', 'abs'):
                continue
            bad.append(N.show_atom(a))
    return bad


def rule_elementwise(ctx, rule='R09.e'):
    n = 0
    for dcls, f, users in defining_classes(ctx.prog):
        cname = dcls.qualname
        for flag in (False, True):
            try:
                w = run_closure(ctx.prog, dcls, flag)
                term = w['res'].t
            except (Unsupported, Raised) as e:
                ctx.undecided(rule, cname, 'apply_hard_core=%s: %s' % (flag, e), f.loc())
                continue
            n += 1
            bad = _non_elementwise_atoms(term)
            syms = set()
            for leaf in P.leaves(term):
                syms |= leaf.symbols()
            extra = syms - {'u', 'g', 'r', 'sigma'}
            if bad or extra:
                ctx.violation(rule, cname, 'elementwise',
                              'apply_hard_core=%s: value is not a pointwise function of (r_i,gamma_i,u_i): %s %s'
                              % (flag, bad, sorted(extra)), f.loc())
            else:
                ctx.holds(rule, cname, 'apply_hard_core=%s: only pointwise operators of r, gamma, u' % flag, f.loc(),
                          key='flag=%s' % flag)
    ctx.floor(rule, n, 8, 'closure terms checked for pointwise structure')


INPUT_ATTRS = ('self.potential', 'self.sigma', 'self.apply_hard_core')


def run_twice(prog, cls, flag, preset=(), feedback=False, grid=False):
    """two consecutive evaluations of the same closure object with *different* symbolic potential and gamma.
    grid=True: the first evaluation is on another grid with the same number of points and the same contact distance (the
    object was evaluated by hand, or belonged to a system with another spacing, before this solve)"""
    ip = Interp(prog)
    ip.preset = list(preset)
    for s_, k in (('u', 'curve'), ('g', 'curve'), ('r', 'curve'), ('sigma', 'scalar'), ('u1', 'curve'), ('g1', 'curve'),
                  ('sigma1', 'scalar')) + ((('r1', 'curve'),) if grid else ()):
        ip.declare(s_, k)
    if grid:
        ip.len_alias = {'g': 'r', 'u': 'r', 'g1': 'r', 'u1': 'r', 'r1': 'r'}
    o = ip.construct(cls, [], {'apply_hard_core': Const(flag)})
    o.origin = 'self'
    ip.set_attr(o, 'sigma', Num(S if grid else N.sym('sigma1')), None)     # the contact distance of the first evaluation (before a diameter edit)
    r = Arr(R, 'r', ip)
    m = ip.find_method(o, 'calculate')
    # first call: (u1, g1)
    ip.set_attr(o, 'potential', Arr(N.sym('u1'), 'self.potential', ip), None)
    res1 = ip.call(m, [Arr(N.sym('r1'), 'r_other', ip) if grid else r, Arr(N.sym('g1'), 'gamma', ip)], {})
    t1 = res1.t if isinstance(res1, (Arr, Num)) else None
    # the user (or PRISM.__init__ of a re-created object) installs another potential, the solver another gamma
    ip.set_attr(o, 'potential', Arr(U, 'self.potential', ip), None)
    ip.set_attr(o, 'sigma', Num(S), None)
    if feedback:        # the array returned by the first evaluation is handed back as gamma (with contents g)
        if not isinstance(res1, Arr):
            raise Unsupported('first result is not a plain array')
        res1.t = G
        e0 = len(ip.events)
        garr = res1
    else:
        e0 = len(ip.events)
        garr = Arr(G, 'gamma', ip)
    res = ip.call(m, [r, garr], {})
    return ip, {'res': res, 'obj': o, 'res1': res1, 't1': t1, 'garr': garr, 'feedback': feedback}


def run_copy(prog, cls, flag, preset=()):
    """the closure in use is a deep copy of the caller's object (PairTable.__setitem__, PRISM.__init__); the caller then
    re-uses its own object with another contact distance and potential.  deepcopy does not copy function objects, so a
    routine bound at construction that reads `self` keeps reading the original."""
    ip = Interp(prog)
    ip.preset = list(preset)
    for s_, k in (('u', 'curve'), ('g', 'curve'), ('r', 'curve'), ('sigma', 'scalar'), ('u1', 'curve'), ('sigma1', 'scalar')):
        ip.declare(s_, k)
    tmpl = ip.construct(cls, [], {'apply_hard_core': Const(flag)})
    o = ip.lib.deepcopy(ip, [tmpl], {}, None)
    o.origin = 'self'
    ip.set_attr(tmpl, 'sigma', Num(N.sym('sigma1')), None)
    ip.set_attr(tmpl, 'potential', Arr(N.sym('u1'), 'template.potential', ip), None)
    ip.set_attr(tmpl, 'apply_hard_core', Const(not flag), None)
    ip.set_attr(o, 'potential', Arr(U, 'self.potential', ip), None)
    ip.set_attr(o, 'sigma', Num(S), None)
    garr = Arr(G, 'gamma', ip)
    res = ip.call(ip.find_method(o, 'calculate'), [Arr(R, 'r', ip), garr], {})
    return ip, {'res': res, 'obj': o, 'res1': None, 't1': None, 'garr': garr, 'feedback': False}


def run_other_grid(prog, cls, flag, preset=()):
    """another closure object of the same class was evaluated before, with the same contact distance, on another grid with the
    same number of points (a second system with another spacing solved in the same process); then this one is evaluated.
    Catches masks / tables kept at class or module level under a key that omits the grid itself."""
    ip = Interp(prog)
    ip.preset = list(preset)
    for s_, k in (('u', 'curve'), ('g', 'curve'), ('r', 'curve'), ('sigma', 'scalar'), ('u1', 'curve'), ('g1', 'curve'), ('r1', 'curve')):
        ip.declare(s_, k)
    ip.len_alias = {'g': 'r', 'u': 'r', 'g1': 'r', 'u1': 'r', 'r1': 'r'}
    first = ip.construct(cls, [], {'apply_hard_core': Const(flag)})
    ip.set_attr(first, 'sigma', Num(S), None)
    ip.set_attr(first, 'potential', Arr(N.sym('u1'), 'other.potential', ip), None)
    ip.call(ip.find_method(first, 'calculate'), [Arr(N.sym('r1'), 'r_other', ip), Arr(N.sym('g1'), 'gamma_other', ip)], {})
    o = ip.construct(cls, [], {'apply_hard_core': Const(flag)})
    o.origin = 'self'
    ip.set_attr(o, 'sigma', Num(S), None)
    ip.set_attr(o, 'potential', Arr(U, 'self.potential', ip), None)
    garr = Arr(G, 'gamma', ip)
    res = ip.call(ip.find_method(o, 'calculate'), [Arr(R, 'r', ip), garr], {})
    return ip, {'res': res, 'obj': o, 'res1': None, 't1': None, 'garr': garr, 'feedback': False}


def rule_history(ctx, rule='R09.h', aliasing=True):
    """The value returned by calculate depends only on the arguments and the *current* potential/sigma, never on an
    earlier evaluation (a cached exponential, a remembered mask ...).  Two-step induction: evaluate the object on
    (u1,g1), then on (u,g); the second result and every attribute left on the object must be the terms a fresh object
    yields for (u,g).  Then the object state after any call is a function of that call's inputs only, so every
    history of evaluations gives the same values as a fresh closure."""
    from ..interp import explore
    n = 0
    for dcls, f, users in defining_classes(ctx.prog):
        cname = dcls.qualname
        for flag in (False, True):
            try:
                fresh = run_closure(ctx.prog, dcls, flag)
                worlds = explore(lambda preset: run_twice(ctx.prog, dcls, flag, preset))
                worlds += explore(lambda preset: run_copy(ctx.prog, dcls, flag, preset))
                worlds += explore(lambda preset: run_other_grid(ctx.prog, dcls, flag, preset))
                worlds += explore(lambda preset: run_twice(ctx.prog, dcls, flag, preset, grid=True))
                if aliasing:
                    worlds += explore(lambda preset: run_twice(ctx.prog, dcls, flag, preset, feedback=True))
            except (Unsupported, Raised) as e:
                ctx.undecided(rule, cname, 'apply_hard_core=%s: %s' % (flag, e), f.loc())
                continue
            n += 1
            bad = []
            ft = fresh['res'].t
            for dec, ip, w in worlds:
                where = ''
                if dec:
                    where = ' (when %s)' % ', '.join('%s is %s' % (c.show(), b) for c, b, _ in dec)
                t2 = w['res'].t if isinstance(w['res'], (Arr, Num)) else None
                if t2 is None:
                    bad.append('second evaluation does not return an array term' + where)
                    continue
                # on a path where the code itself compared an earlier input with the current one and found them equal
                # (a cache key), the two are the same value: compare under that equality
                eqs = P.equalities(dec)
                facts = reduction_facts(ip, dec)[0]
                t2 = P.assume(P.subs(t2, eqs), facts)
                if w['feedback']:
                    # gamma (the array the caller got from the first call) must not be written by the second call
                    if w['res'] is w['garr']:
                        bad.append('the second evaluation returns the very array passed as gamma (a result handed back as '
                                   'gamma is overwritten in place)' + where)
                        continue
                    gt_ = w['garr'].t
                    if P.is_pw(gt_) or not gt_.equals(G):
                        bad.append('a result array handed back as gamma is modified in place by the evaluation' + where)
                        continue
                elif aliasing:
                    r1 = w['res1']
                    if r1 is w['res'] and isinstance(r1, Arr):
                        bad.append('two evaluations return the same array object: the first result is overwritten by the second' + where)
                        continue
                    if isinstance(r1, Arr) and w['t1'] is not None and not P.compare(r1.t, w['t1'])[0] == []:
                        bad.append('the array returned by the first evaluation changes during the second' + where)
                        continue
                diffs, _ = P.compare(t2, P.assume(P.subs(ft, eqs), facts))
                if diffs:
                    v, lx, ly = diffs[0]
                    bad.append('second evaluation returns %s where a fresh closure returns %s%s: the value depends on an '
                               'earlier call' % (N.show(lx)[:160], N.show(ly)[:160], where))
                    continue
                for a, v in sorted(w['obj'].attrs.items()):
                    fv = fresh['obj'].attrs.get(a)
                    if isinstance(v, (Arr, Num)) and isinstance(fv, (Arr, Num)):
                        try:
                            d2, _ = P.compare(P.assume(P.subs(v.t, eqs), facts), P.assume(P.subs(fv.t, eqs), facts))
                        except Exception:
                            d2 = [1]
                        if d2:
                            bad.append('attribute %s after two calls is %s, after one call %s%s: state is carried between calls'
                                       % (a, P.show(v.t)[:120], P.show(fv.t)[:120], where))
            if bad:
                ctx.violation(rule, cname, 'history', 'apply_hard_core=%s: %s' % (flag, bad[0]), f.loc())
            else:
                ctx.holds(rule, cname, 'apply_hard_core=%s: re-evaluation with another potential and gamma gives the terms of a '
                          'fresh closure (%d path(s)); no state carried between calls' % (flag, len(worlds)), f.loc(),
                          key='flag=%s' % flag)
    ctx.floor(rule, n, 8, 'closure two-call history obligations')


def rule_flag_reassigned(ctx, rule='R09.f'):
    """apply_hard_core is a plain public attribute: setting it on an existing closure must have the effect of
    constructing the closure with that value (a routine bound once in __init__ would ignore the new value)"""
    n = 0
    for dcls, f, users in defining_classes(ctx.prog):
        cname = dcls.qualname
        for flag in (False, True):
            try:
                want = run_closure(ctx.prog, dcls, flag)['res'].t

                def run(preset, flag=flag, dcls=dcls):
                    ip = Interp(ctx.prog)
                    ip.preset = list(preset)
                    for s_, k in (('u', 'curve'), ('g', 'curve'), ('r', 'curve'), ('sigma', 'scalar')):
                        ip.declare(s_, k)
                    o = ip.construct(dcls, [], {'apply_hard_core': Const(not flag)})
                    o.origin = 'self'
                    ip.set_attr(o, 'potential', Arr(U, 'self.potential', ip), None)
                    ip.set_attr(o, 'sigma', Num(S), None)
                    ip.set_attr(o, 'apply_hard_core', Const(flag), None)
                    res = ip.call(ip.find_method(o, 'calculate'), [Arr(R, 'r', ip), Arr(G, 'gamma', ip)], {})
                    return ip, {'res': res}
                from ..interp import explore
                worlds = []
                for d, ip, w in explore(run, keep_raised=True):
                    if ip is not None:
                        w['facts'] = reduction_facts(ip, d)[0]
                        worlds.append(w)
            except (Unsupported, Raised) as e:
                ctx.undecided(rule, cname, 'apply_hard_core:=%s after construction: %s' % (flag, e), f.loc())
                continue
            n += 1
            bad = None
            for w in worlds:
                t = w['res'].t if isinstance(w['res'], (Arr, Num)) else None
                if t is None or P.compare(P.assume(t, w['facts']), P.assume(want, w['facts']))[0]:
                    bad = 'setting apply_hard_core = %s on a closure constructed with %s is ignored or mis-applied: calculate returns %s, ' \
                          'a closure constructed with the flag returns %s' % (flag, not flag, P.show(t)[:120] if t is not None else w['res'], P.show(want)[:120])
            if not worlds:
                bad = 'no normally returning path after the flag was re-assigned'
            if bad:
                ctx.violation(rule, cname, 'flag-reassigned:%s' % flag, bad, f.loc())
            else:
                ctx.holds(rule, cname, 'apply_hard_core := %s after construction behaves like constructing with it' % flag, f.loc(),
                          key='flag=%s' % flag)
    ctx.floor(rule, n, 8, 'closure flag re-assignment obligations')


def rule_history_values(ctx, rule='R09.h'):
    """the value-level half of R09.h (what C01 / C03 need): the second evaluation returns the terms of a fresh closure.
    Whether successive results are independent arrays is a purity clause of C09 only (PRISM.cost copies each result
    into directCorr at once)."""
    return rule_history(ctx, rule, aliasing=False)


def rule_purity(ctx, rule='R09.p'):
    """calculate modifies none of its inputs (r, gamma, self.potential, self.sigma, the flag) in place or by
    rebinding; the result is not an alias of an input.  Other attributes may be (re)bound as caches: whether
    they carry state between calls is decided by R09.h"""
    n = 0
    for dcls, f, users in defining_classes(ctx.prog):
        cname = dcls.qualname
        for flag in (False, True):
            try:
                w = run_closure(ctx.prog, dcls, flag)
            except (Unsupported, Raised) as e:
                ctx.undecided(rule, cname, 'apply_hard_core=%s: %s' % (flag, e), f.loc())
                continue
            n += 1
            bad = []
            tagged = [('', e) for e in w['events']]
            for facts, dec, ws in w.get('special', ()):
                where = ' (on a grid where %s)' % ', '.join('%s is %s' % (c.show(), b_) for c, b_, _ in dec)
                tagged += [(where, e) for e in ws['events']]
                for nm, a in ws['inputs'].items():
                    if ws['res'] is a or (hasattr(ws['res'], 'base') and ws['res'].base is a):
                        bad.append('returned array is %s itself%s' % (nm, where))
            for where, e in tagged:
                if where:
                    if e['kind'] == 'write':
                        bad.append('in-place write to %s at %s (%s)%s' % (e['target'], e['loc'], e.get('via'), where))
                    continue
                if e['kind'] == 'write':
                    bad.append('in-place write to %s at %s (%s)' % (e['target'], e['loc'], e.get('via')))
                elif e['kind'] == 'bind' and e['target'] in INPUT_ATTRS:
                    bad.append('input attribute %s rebound at %s' % (e['target'], e['loc']))
                elif e['kind'] == 'dtype-cast' and e['target'] == 'r':
                    bad.append('the result buffer is allocated with the dtype of r (np.*_like(r) without dtype) and filled by a store at %s: '
                               'on an integer grid (Domain(dr=1)) the closure output is truncated to integers' % e['loc'])
                elif e['kind'] == 'unknown-call':
                    bad.append('unknown call %s' % e['target'])
            res = w['res']
            for nm, a in w['inputs'].items():
                if res is a or (hasattr(res, 'base') and res.base is a):
                    bad.append('returned array is %s itself' % nm)
            val = w['obj'].attrs.get('value')
            for nm, a in w['inputs'].items():
                if val is a:
                    bad.append('self.value aliases %s' % nm)
            if bad:
                ctx.violation(rule, cname, 'purity', 'apply_hard_core=%s: %s' % (flag, '; '.join(bad)), f.loc())
            else:
                ctx.holds(rule, cname, 'apply_hard_core=%s: r, gamma, potential, sigma untouched (no in-place write, no '
                          'rebinding); result is a fresh array' % flag, f.loc(), key='flag=%s' % flag)
    ctx.floor(rule, n, 8, 'closure purity obligations')


def _package_name(prog, init, name):
    """the class a name of the package init denotes (last binding wins): `from .X import name`, or `name = <class>`"""
    found = None
    for st in init.tree.body:
        if isinstance(st, ast.ImportFrom):
            for a in st.names:
                if (a.asname or a.name) == name:
                    found = prog.resolve_name_in_module(init, ast.Name(id=name))
        elif isinstance(st, ast.Assign):
            for t in st.targets:
                if isinstance(t, ast.Name) and t.id == name:
                    v = st.value
                    if isinstance(v, ast.Name) and v.id != name:
                        found = _package_name(prog, init, v.id) or prog.resolve_name_in_module(init, v)
                    else:
                        found = prog.resolve_name_in_module(init, v) if isinstance(v, (ast.Name, ast.Attribute)) else None
    return found if hasattr(found, 'mro') else None


def rule_aliases(ctx, rule='R09.a'):
    """PY, HNC, MSA, MS: subclasses without members, exported from the module of their parent"""
    prog = ctx.prog
    init = prog.module('pyPRISM.closure')
    n = 0
    # an alias is a closure class whose direct base is itself an evaluable closure (PY(PercusYevick), ...);
    # found by the class hierarchy, so an alias that grows its own `calculate` is still recognised as one
    concrete = atomic_closure_classes(prog)
    pairs = []
    for c in concrete:
        bases = [b for b in c.mro()[1:2] if b in concrete]
        if bases:
            pairs.append((bases[0], c))
    for dcls, c in pairs:
        if True:
            n += 1
            members = sorted(list(c.methods) + list(c.getters) + list(c.setters) + list(c.class_attrs))
            if members:
                ctx.violation(rule, c.qualname, 'alias-members',
                              'alias class defines its own members %s and no longer behaves identically to %s'
                              % (members, dcls.name), c.module.relpath + ':%d' % c.node.lineno)
                continue
            # what the package-level name denotes: an import or a plain binding `PY = PercusYevick` in the package init
            target = _package_name(prog, init, c.name)
            if target is None:
                ctx.violation(rule, c.qualname, 'alias-export', 'alias %s is not exported by pyPRISM.closure' % c.name,
                              init.relpath)
                continue
            # identical behaviour: the alias class itself, or the closure it abbreviates (a member-free subclass adds nothing)
            if target is not c and target is not dcls:
                ctx.violation(rule, c.qualname, 'alias-export',
                              'pyPRISM.closure.%s is bound to %s, not to %s or its alias class' % (
                                  c.name, getattr(target, 'qualname', target), dcls.name), init.relpath)
                continue
            ctx.holds(rule, c.qualname, 'member-free subclass of %s; pyPRISM.closure.%s denotes %s' % (dcls.name, c.name, target.name),
                      c.module.relpath + ':%d' % c.node.lineno)
    # every exported name that is a closure class resolves
    for name, imp in sorted(init.imports.items()):
        if imp[0] == 'from' and imp[1] in prog.modules:
            if imp[2] not in prog.modules[imp[1]].classes:
                ctx.violation(rule, 'pyPRISM.closure::%s' % name, 'alias-export',
                              'exported name %s does not exist in %s' % (imp[2], imp[1]), init.relpath)
    ctx.floor(rule, n, 4, 'alias classes (PY, HNC, MSA, MS)')


def rule_mask_sites(ctx, rule='R03.b'):
    """the core mask compares the first parameter with the closure's own sigma, strictly (r > sigma)"""
    n = 0
    for dcls, f, users in defining_classes(ctx.prog):
        cname = dcls.qualname
        try:
            w = run_closure(ctx.prog, dcls, True)
            term = w['res'].t
        except (Unsupported, Raised) as e:
            ctx.undecided(rule, cname, str(e), f.loc())
            continue
        npw = _pointwise_fragment(term)
        if npw:
            ctx.undecided(rule, cname, 'core region is selected by non-pointwise operators %s (reported by R09.e): '
                          'equivalent to the mask only on sorted grids' % npw[:2], f.loc())
            continue
        ps, fs = P.conds(term)
        try:
            extra_pairs = set(_extras(term)[0].keys())
        except Unsupported:
            extra_pairs = set()
        ps = {p for p in ps if p not in extra_pairs}
        n += len(ps)
        want = {N.reg(R), N.reg(S)}
        bad = [p for p in ps if set(p) != want]
        if bad or fs or not ps:
            ctx.violation(rule, cname, 'core-mask',
                          'core region is not decided by comparing r with self.sigma: %s'
                          % ([(N.show(N.nf_from_key(a)), N.show(N.nf_from_key(b))) for a, b in ps] or 'no mask'),
                          f.loc())
        else:
            ctx.holds(rule, cname, 'mask operands are (r, self.sigma)', f.loc(), nontrivial=False)
    ctx.floor(rule, n, 4, 'closure core-mask comparison sites')
