"""Rules R09.* (closures equal their definitions) and R03.a/b/c (hard-core exclusion)."""
import ast
from .. import nf as N
from .. import pw as P
from ..interp import Interp, Arr, Num, Const, Obj, Unsupported, Raised
from ..model import AnalysisError
from spec import closures as SPEC

G = N.sym('g')
U = N.sym('u')
R = N.sym('r')
S = N.sym('sigma')


def atomic_closure_classes(prog):
    """every concrete subclass of AtomicClosure that can be evaluated (has a `calculate`)"""
    out = []
    for c in prog.subclasses_of('AtomicClosure'):
        if c.find_method('calculate') is not None:
            out.append(c)
    if not out:
        raise AnalysisError('no AtomicClosure subclass with a calculate method found')
    return out


def defining_classes(prog):
    """group closure classes by the function object their `calculate` resolves to"""
    groups = {}
    for c in atomic_closure_classes(prog):
        f = c.find_method('calculate')
        groups.setdefault(f.qualname, (f, []))[1].append(c)
    out = []
    for q, (f, cs) in sorted(groups.items()):
        out.append((f.cls, f, cs))
    return out


def run_closure(prog, cls, flag):
    ip = Interp(prog)
    for s, k in (('u', 'curve'), ('g', 'curve'), ('r', 'curve'), ('sigma', 'scalar')):
        ip.declare(s, k)
    o = ip.construct(cls, [], {'apply_hard_core': Const(flag)})
    o.origin = 'self'
    pot = Arr(U, 'self.potential', ip)
    o.attrs['potential'] = pot
    o.attrs['sigma'] = Num(S)
    r = Arr(R, 'r', ip)
    g = Arr(G, 'gamma', ip)
    m = ip.find_method(o, 'calculate')
    n_events0 = len(ip.events)
    res = ip.call(m, [r, g], {})
    return {'ip': ip, 'obj': o, 'res': res, 'inputs': {'r': r, 'gamma': g, 'self.potential': pot},
            'events': ip.events[n_events0:], 'func': m}


def spec_for(cls):
    for c in cls.mro():
        if c.name in SPEC.REFERENCES:
            return c.name, SPEC.REFERENCES[c.name]
    return None, None


def _rs_key():
    key = (N.reg(R), N.reg(S)) if repr(N.reg(R)) <= repr(N.reg(S)) else (N.reg(S), N.reg(R))
    return key, key[0] != N.reg(R)


def _extras(*terms):
    """Valuations of the comparison atoms other than r-vs-sigma that occur in the piecewise terms (e.g. the
    `gamma > 50` of an np.minimum clamp).  A closure relation is claimed for *every* gamma and u, so each rule
    must hold in every such region.  Only comparisons whose three orderings are all certainly inhabited are
    accepted: the difference of the operands must be of degree one in a single free symbol (gamma or u)."""
    ps, fs = set(), set()
    for t in terms:
        P.conds(t, ps, fs)
    if fs:
        raise Unsupported('closure term depends on non-ordering conditions %s' % sorted(fs))
    key, _ = _rs_key()
    extras = sorted((p for p in ps if p != key), key=repr)
    for p in extras:
        a, b = N.nf_from_key(p[0]), N.nf_from_key(p[1])
        d = a - b
        syms = d.symbols()
        if syms & {'r', 'sigma'}:
            raise Unsupported('closure mask compares something other than r and sigma: %s vs %s' % (N.show(a), N.show(b)))
        ok = len(syms) == 1 and d.is_poly() and all(a_[0] == 'sym' for a_ in d.all_atoms())
        if ok:
            sname = next(iter(syms))
            ok = sname in ('g', 'u') and N.diff(d, sname).is_const() and not N.diff(d, sname).is_zero()
        if not ok:
            raise Unsupported('data condition %s vs %s: cannot certify that all three orderings occur' % (N.show(a), N.show(b)))
    if len(extras) > 4:
        raise Unsupported('too many data conditions in a closure term')
    import itertools
    return [dict(zip(extras, outs)) for outs in itertools.product(('lt', 'eq', 'gt'), repeat=len(extras))]


def _origin_region(extras_vals):
    """the region (valuation of the extra conditions) that contains gamma = u = 0"""
    if not extras_vals:
        return {}
    v = {}
    for p in extras_vals[0]:
        d = N.subs(N.nf_from_key(p[0]) - N.nf_from_key(p[1]), {'g': 0, 'u': 0})
        if not d.is_const():
            raise Unsupported('cannot locate the origin relative to a data condition')
        c = d.const_value()
        v[p] = 'lt' if c < 0 else ('eq' if c == 0 else 'gt')
    return v


def _outside(term):
    """at(o, extra) -> the leaf of a closure's piecewise term where r <o> sigma and the extra conditions hold"""
    key, flipped = _rs_key()
    _extras(term)

    def at(o, extra=None):
        o2 = {'lt': 'gt', 'gt': 'lt', 'eq': 'eq'}[o] if flipped else o
        val = {key: o2}
        val.update(extra or {})
        return P.at(term, val)
    return at


def _pointwise_fragment(term):
    """None when every leaf is built from pointwise operators only (the fragment in which a difference of normal
    forms is a difference of functions); otherwise the offending atoms"""
    bad = _non_elementwise_atoms(term)
    return bad or None


def rule_definition(ctx, rule='R09.d'):
    """outside-core term equals the published relation, for flag in {False, True}"""
    n = 0
    for dcls, f, users in defining_classes(ctx.prog):
        cname = dcls.qualname
        sname, refs = spec_for(dcls)
        for flag in (False, True):
            try:
                w = run_closure(ctx.prog, dcls, flag)
                t = w['res']
                term = t.t if isinstance(t, (Arr, Num)) else None
                if term is None:
                    raise Unsupported('calculate does not return an array term')
                npw = _pointwise_fragment(term)
                if npw:
                    raise Unsupported('extracted term contains non-pointwise operators %s (reported by R09.e); '
                                      'its comparison with the reference is not decidable by normal forms' % npw[:3])
                at = _outside(term)
                regions = _extras(term)
                out = at('gt', regions[0])
            except (Unsupported, Raised) as e:
                ctx.undecided(rule, cname, 'apply_hard_core=%s: %s' % (flag, e), f.loc())
                continue
            n += 1
            if refs is None:
                ctx.holds(rule, cname, 'apply_hard_core=%s: no reference relation for this closure in '
                          'spec/closures.py; generic rules only (extracted: %s)' % (flag, N.show(out)),
                          f.loc(), nontrivial=False)
                continue
            hit = [nm for nm, ref in refs if all(at('gt', ev).equals(ref) for ev in regions)]
            if not hit and len(regions) > 1:
                for ev in regions:
                    if not any(at('gt', ev).equals(ref) for nm, ref in refs):
                        out = at('gt', ev)
                        ctx.violation(rule, cname, 'definition:outside-core',
                                      'apply_hard_core=%s: in the region {%s} the extracted c(gamma,u) = %s differs from every '
                                      'accepted reference (%s)' % (flag, P.show_val(ev), N.show(out),
                                                                   '; '.join('%s: %s' % (nm, N.show(ref)) for nm, ref in refs)),
                                      f.loc(), extracted=N.show(out), flag=flag)
                        break
                continue
            if hit:
                ctx.holds(rule, cname, 'apply_hard_core=%s: c(gamma,u) == %s reference' % (flag, hit[0]), f.loc(),
                          key='flag=%s' % flag,
                          sample={'flag': flag, 'extracted': N.show(out), 'reference': hit[0]})
            else:
                ctx.violation(rule, cname, 'definition:outside-core',
                              'apply_hard_core=%s: extracted c(gamma,u) = %s differs from every accepted '
                              'reference (%s)' % (flag, N.show(out),
                                                  '; '.join('%s: %s' % (nm, N.show(ref)) for nm, ref in refs)),
                              f.loc(), extracted=N.show(out), flag=flag)
    ctx.floor(rule, n, 8, 'closure definition obligations (4 closures x 2 flag values)')


def rule_core(ctx, rule='R03.a'):
    """flag set: value is exactly -1-gamma on not(r > sigma) and the closure formula exactly on r > sigma"""
    n = 0
    for dcls, f, users in defining_classes(ctx.prog):
        cname = dcls.qualname
        try:
            w = run_closure(ctx.prog, dcls, True)
            wf = run_closure(ctx.prog, dcls, False)
            term = w['res'].t
            free = wf['res'].t
            npw = _pointwise_fragment(term) or _pointwise_fragment(free)
            if npw:
                raise Unsupported('extracted term contains non-pointwise operators %s (reported by R09.e)' % npw[:3])
            at = _outside(term)
            regions = _extras(term, free)
            key_rs, _ = _rs_key()
            if key_rs in P.conds(free)[0]:
                raise Unsupported('flag-free closure term is piecewise in r vs sigma')
        except (Unsupported, Raised) as e:
            ctx.undecided(rule, cname, str(e), f.loc())
            continue
        n += 1
        bad = []
        for ev in regions:
            where = (' (region {%s})' % P.show_val(ev)) if ev else ''
            for o in ('lt', 'eq'):
                leaf = at(o, ev)
                if not leaf.equals(SPEC.CORE):
                    bad.append('at r %s sigma%s the value is %s, not -1-gamma' % ({'lt': '<', 'eq': '=='}[o], where, N.show(leaf)))
            fl = P.at(free, ev) if P.is_pw(free) else free
            if not at('gt', ev).equals(fl):
                bad.append('at r > sigma%s the value is %s, not the closure relation %s' % (where, N.show(at('gt', ev)), N.show(fl)))
            if bad:
                break
        if bad:
            ctx.violation(rule, cname, 'core-branch', '; '.join(bad), f.loc())
        else:
            ctx.holds(rule, cname, 'c+gamma == -1 on r<sigma and r==sigma; closure relation on r>sigma '
                      '(3 orderings enumerated)', f.loc(),
                      sample={'closure': dcls.name, 'orderings': {'r<sigma': N.show(at('lt', regions[0])),
                                                                 'r==sigma': N.show(at('eq', regions[0])),
                                                                 'r>sigma': N.show(at('gt', regions[0]))}})
    ctx.floor(rule, n, 4, 'closures with a hard-core branch')


def rule_noflag_limit(ctx, rule='R03.c'):
    """PY and HNC without the flag: exp(-u) -> 0 gives -1-gamma (premise: exp(-high/kT) underflows)"""
    n = 0
    for dcls, f, users in defining_classes(ctx.prog):
        if not any(c.name in SPEC.NOFLAG_LIMIT for c in dcls.mro()):
            continue
        cname = dcls.qualname
        try:
            w = run_closure(ctx.prog, dcls, False)
            pterm = w['res'].t
            npw = _pointwise_fragment(pterm)
            if npw:
                raise Unsupported('extracted term contains non-pointwise operators %s (reported by R09.e)' % npw[:3])
            regions = _extras(pterm)
            if any('u' in N.nf_from_key(k).symbols() for ev in regions[:1] for p in ev for k in p):
                raise Unsupported('flag-free term branches on u: the limit u -> infinity selects a region that is not modelled')
            key_rs, _ = _rs_key()
            if key_rs in P.conds(pterm)[0]:
                raise Unsupported('piecewise (r vs sigma) flag-free term')
            z = N.sym('@z')
            eu = ('exp', ((('sym', 'u'), N.ONE),))
            verdict = None
            for ev in regions:
                term = P.at(pterm, ev) if P.is_pw(pterm) else pterm
                where = (' in the region {%s}' % P.show_val(ev)) if ev else ''
                t2 = N.transform(term, lambda a: (1 / z) if a == eu else None)
                if 'u' in t2.symbols():
                    raise Unsupported('u occurs outside exp(-u): %s' % N.show(t2))
                if not t2.is_poly() or any(e < 0 for m in t2.num for a, e in m if a == ('sym', '@z')):
                    verdict = 'term diverges as exp(-u)->0%s: %s' % (where, N.show(term))
                    break
                lim = N.subs(t2, {'@z': 0})
                if not lim.equals(SPEC.CORE):
                    verdict = 'exp(-u):=0 gives %s%s, not -1-gamma' % (N.show(lim), where)
                    break
        except (Unsupported, Raised) as e:
            ctx.undecided(rule, cname, str(e), f.loc())
            continue
        n += 1
        if verdict is None:
            ctx.holds(rule, cname, 'exp(-u):=0 in the flag-free term gives -1-gamma', f.loc(),
                      sample={'closure': dcls.name, 'term': N.show(term), 'limit': N.show(lim)})
        else:
            ctx.violation(rule, cname, 'noflag-limit', verdict, f.loc())
    ctx.floor(rule, n, 2, 'PY/HNC no-flag limits')


def rule_weak_coupling(ctx, rule='R09.w'):
    """c(0,0)=0, dc/du(0,0)=-1, dc/dgamma(0,0)=0 for the outside-core relation (reference free)"""
    n = 0
    for dcls, f, users in defining_classes(ctx.prog):
        cname = dcls.qualname
        try:
            w = run_closure(ctx.prog, dcls, False)
            term = w['res'].t
            npw = _pointwise_fragment(term)
            if npw:
                raise Unsupported('extracted term contains non-pointwise operators %s (reported by R09.e)' % npw[:3])
            if P.is_pw(term):
                org = _origin_region(_extras(term))
                if any(o == 'eq' for o in org.values()):
                    raise Unsupported('the origin lies on a branch boundary of the flag-free term')
                key_rs, _ = _rs_key()
                if key_rs in P.conds(term)[0]:
                    raise Unsupported('piecewise (r vs sigma) flag-free term')
                term = P.at(term, org)
            z = {'u': 0, 'g': 0}
            c0 = N.subs(term, z)
            du = N.subs(N.diff(term, 'u'), z)
            dg = N.subs(N.diff(term, 'g'), z)
        except (Unsupported, Raised, N.Incomplete, ZeroDivisionError) as e:
            ctx.undecided(rule, cname, str(e), f.loc())
            continue
        n += 1
        bad = []
        if not c0.is_zero():
            bad.append('c(0,0) = %s = %.4g' % (N.show(c0), N.evalf(c0)))
        if not du.equals(N.NF.const(-1)):
            bad.append('dc/du(0,0) = %s = %.4g (expected -1)' % (N.show(du), N.evalf(du)))
        if not dg.is_zero():
            bad.append('dc/dgamma(0,0) = %s = %.4g (expected 0)' % (N.show(dg), N.evalf(dg)))
        if bad:
            ctx.violation(rule, cname, 'weak-coupling', '; '.join(bad), f.loc())
        else:
            ctx.holds(rule, cname, 'c(0,0)=0, dc/du=-1, dc/dgamma=0 at the origin (symbolic derivative)', f.loc(),
                      sample={'closure': dcls.name, 'dc/du': N.show(N.diff(term, 'u'))})
    ctx.floor(rule, n, 4, 'closures checked for the weak-coupling expansion')


_ELEMENTWISE_ATOMS = ('sym', 'pi', 'prime', 'neg1', 'exp', 'expq', 'pow')


def _non_elementwise_atoms(term):
    bad = []
    for leaf in P.leaves(term):
        for a in leaf.all_atoms():
            if a[0] in _ELEMENTWISE_ATOMS:
                continue
            if a[0] == 'fn' and a[1] in ('log', 'sin', 'cos', 'abs'):
                continue
            bad.append(N.show_atom(a))
    return bad


def rule_elementwise(ctx, rule='R09.e'):
    n = 0
    for dcls, f, users in defining_classes(ctx.prog):
        cname = dcls.qualname
        for flag in (False, True):
            try:
                w = run_closure(ctx.prog, dcls, flag)
                term = w['res'].t
            except (Unsupported, Raised) as e:
                ctx.undecided(rule, cname, 'apply_hard_core=%s: %s' % (flag, e), f.loc())
                continue
            n += 1
            bad = _non_elementwise_atoms(term)
            syms = set()
            for leaf in P.leaves(term):
                syms |= leaf.symbols()
            extra = syms - {'u', 'g', 'r', 'sigma'}
            if bad or extra:
                ctx.violation(rule, cname, 'elementwise',
                              'apply_hard_core=%s: value is not a pointwise function of (r_i,gamma_i,u_i): %s %s'
                              % (flag, bad, sorted(extra)), f.loc())
            else:
                ctx.holds(rule, cname, 'apply_hard_core=%s: only pointwise operators of r, gamma, u' % flag, f.loc(),
                          key='flag=%s' % flag)
    ctx.floor(rule, n, 8, 'closure terms checked for pointwise structure')


INPUT_ATTRS = ('self.potential', 'self.sigma', 'self.apply_hard_core')


def run_twice(prog, cls, flag, preset=()):
    """two consecutive evaluations of the same closure object with *different* symbolic potential and gamma"""
    ip = Interp(prog)
    ip.preset = list(preset)
    for s_, k in (('u', 'curve'), ('g', 'curve'), ('r', 'curve'), ('sigma', 'scalar'), ('u1', 'curve'), ('g1', 'curve')):
        ip.declare(s_, k)
    o = ip.construct(cls, [], {'apply_hard_core': Const(flag)})
    o.origin = 'self'
    o.attrs['sigma'] = Num(S)
    r = Arr(R, 'r', ip)
    m = ip.find_method(o, 'calculate')
    # first call: (u1, g1)
    o.attrs['potential'] = Arr(N.sym('u1'), 'self.potential', ip)
    ip.call(m, [r, Arr(N.sym('g1'), 'gamma', ip)], {})
    # the user (or PRISM.__init__ of a re-created object) installs another potential, the solver another gamma
    o.attrs['potential'] = Arr(U, 'self.potential', ip)
    res = ip.call(m, [r, Arr(G, 'gamma', ip)], {})
    return ip, {'res': res, 'obj': o}


def rule_history(ctx, rule='R09.h'):
    """The value returned by calculate depends only on the arguments and the *current* potential/sigma, never on an
    earlier evaluation (a cached exponential, a remembered mask ...).  Two-step induction: evaluate the object on
    (u1,g1), then on (u,g); the second result and every attribute left on the object must be the terms a fresh object
    yields for (u,g).  Then the object state after any call is a function of that call's inputs only, so every
    history of evaluations gives the same values as a fresh closure."""
    from ..interp import explore
    n = 0
    for dcls, f, users in defining_classes(ctx.prog):
        cname = dcls.qualname
        for flag in (False, True):
            try:
                fresh = run_closure(ctx.prog, dcls, flag)
                worlds = explore(lambda preset: run_twice(ctx.prog, dcls, flag, preset))
            except (Unsupported, Raised) as e:
                ctx.undecided(rule, cname, 'apply_hard_core=%s: %s' % (flag, e), f.loc())
                continue
            n += 1
            bad = []
            ft = fresh['res'].t
            for dec, ip, w in worlds:
                where = ''
                if dec:
                    where = ' (when %s)' % ', '.join('%s is %s' % (c.show(), b) for c, b, _ in dec)
                t2 = w['res'].t if isinstance(w['res'], (Arr, Num)) else None
                if t2 is None:
                    bad.append('second evaluation does not return an array term' + where)
                    continue
                diffs, _ = P.compare(t2, ft)
                if diffs:
                    v, lx, ly = diffs[0]
                    bad.append('second evaluation returns %s where a fresh closure returns %s%s: the value depends on an '
                               'earlier call' % (N.show(lx)[:160], N.show(ly)[:160], where))
                    continue
                for a, v in sorted(w['obj'].attrs.items()):
                    fv = fresh['obj'].attrs.get(a)
                    if isinstance(v, (Arr, Num)) and isinstance(fv, (Arr, Num)):
                        try:
                            d2, _ = P.compare(v.t, fv.t)
                        except Exception:
                            d2 = [1]
                        if d2:
                            bad.append('attribute %s after two calls is %s, after one call %s%s: state is carried between calls'
                                       % (a, P.show(v.t)[:120], P.show(fv.t)[:120], where))
            if bad:
                ctx.violation(rule, cname, 'history', 'apply_hard_core=%s: %s' % (flag, bad[0]), f.loc())
            else:
                ctx.holds(rule, cname, 'apply_hard_core=%s: re-evaluation with another potential and gamma gives the terms of a '
                          'fresh closure (%d path(s)); no state carried between calls' % (flag, len(worlds)), f.loc(),
                          key='flag=%s' % flag)
    ctx.floor(rule, n, 8, 'closure two-call history obligations')


def rule_purity(ctx, rule='R09.p'):
    """calculate modifies none of its inputs (r, gamma, self.potential, self.sigma, the flag) in place or by
    rebinding; the result is not an alias of an input.  Other attributes may be (re)bound as caches: whether
    they carry state between calls is decided by R09.h"""
    n = 0
    for dcls, f, users in defining_classes(ctx.prog):
        cname = dcls.qualname
        for flag in (False, True):
            try:
                w = run_closure(ctx.prog, dcls, flag)
            except (Unsupported, Raised) as e:
                ctx.undecided(rule, cname, 'apply_hard_core=%s: %s' % (flag, e), f.loc())
                continue
            n += 1
            bad = []
            for e in w['events']:
                if e['kind'] == 'write':
                    bad.append('in-place write to %s at %s (%s)' % (e['target'], e['loc'], e.get('via')))
                elif e['kind'] == 'bind' and e['target'] in INPUT_ATTRS:
                    bad.append('input attribute %s rebound at %s' % (e['target'], e['loc']))
                elif e['kind'] == 'unknown-call':
                    bad.append('unknown call %s' % e['target'])
            res = w['res']
            for nm, a in w['inputs'].items():
                if res is a or (hasattr(res, 'base') and res.base is a):
                    bad.append('returned array is %s itself' % nm)
            val = w['obj'].attrs.get('value')
            for nm, a in w['inputs'].items():
                if val is a:
                    bad.append('self.value aliases %s' % nm)
            if bad:
                ctx.violation(rule, cname, 'purity', 'apply_hard_core=%s: %s' % (flag, '; '.join(bad)), f.loc())
            else:
                ctx.holds(rule, cname, 'apply_hard_core=%s: r, gamma, potential, sigma untouched (no in-place write, no '
                          'rebinding); result is a fresh array' % flag, f.loc(), key='flag=%s' % flag)
    ctx.floor(rule, n, 8, 'closure purity obligations')


def rule_aliases(ctx, rule='R09.a'):
    """PY, HNC, MSA, MS: subclasses without members, exported from the module of their parent"""
    prog = ctx.prog
    init = prog.module('pyPRISM.closure')
    n = 0
    # an alias is a closure class whose direct base is itself an evaluable closure (PY(PercusYevick), ...);
    # found by the class hierarchy, so an alias that grows its own `calculate` is still recognised as one
    concrete = atomic_closure_classes(prog)
    pairs = []
    for c in concrete:
        bases = [b for b in c.mro()[1:2] if b in concrete]
        if bases:
            pairs.append((bases[0], c))
    for dcls, c in pairs:
        if True:
            n += 1
            members = sorted(list(c.methods) + list(c.getters) + list(c.setters) + list(c.class_attrs))
            if members:
                ctx.violation(rule, c.qualname, 'alias-members',
                              'alias class defines its own members %s and no longer behaves identically to %s'
                              % (members, dcls.name), c.module.relpath + ':%d' % c.node.lineno)
                continue
            imp = init.imports.get(c.name)
            if imp is None:
                ctx.violation(rule, c.qualname, 'alias-export', 'alias %s is not exported by pyPRISM.closure' % c.name,
                              init.relpath)
                continue
            if not (imp[0] == 'from' and imp[1] == c.module.name and imp[2] == c.name):
                ctx.violation(rule, c.qualname, 'alias-export',
                              'pyPRISM.closure.%s is bound to %s, not to the alias of %s' % (c.name, imp, dcls.name),
                              init.relpath)
                continue
            ctx.holds(rule, c.qualname, 'member-free subclass of %s, exported as pyPRISM.closure.%s' % (dcls.name, c.name),
                      c.module.relpath + ':%d' % c.node.lineno)
    # every exported name that is a closure class resolves
    for name, imp in sorted(init.imports.items()):
        if imp[0] == 'from' and imp[1] in prog.modules:
            if imp[2] not in prog.modules[imp[1]].classes:
                ctx.violation(rule, 'pyPRISM.closure::%s' % name, 'alias-export',
                              'exported name %s does not exist in %s' % (imp[2], imp[1]), init.relpath)
    ctx.floor(rule, n, 4, 'alias classes (PY, HNC, MSA, MS)')


def rule_mask_sites(ctx, rule='R03.b'):
    """the core mask compares the first parameter with the closure's own sigma, strictly (r > sigma)"""
    n = 0
    for dcls, f, users in defining_classes(ctx.prog):
        cname = dcls.qualname
        try:
            w = run_closure(ctx.prog, dcls, True)
            term = w['res'].t
        except (Unsupported, Raised) as e:
            ctx.undecided(rule, cname, str(e), f.loc())
            continue
        npw = _pointwise_fragment(term)
        if npw:
            ctx.undecided(rule, cname, 'core region is selected by non-pointwise operators %s (reported by R09.e): '
                          'equivalent to the mask only on sorted grids' % npw[:2], f.loc())
            continue
        ps, fs = P.conds(term)
        try:
            extra_pairs = set(_extras(term)[0].keys())
        except Unsupported:
            extra_pairs = set()
        ps = {p for p in ps if p not in extra_pairs}
        n += len(ps)
        want = {N.reg(R), N.reg(S)}
        bad = [p for p in ps if set(p) != want]
        if bad or fs or not ps:
            ctx.violation(rule, cname, 'core-mask',
                          'core region is not decided by comparing r with self.sigma: %s'
                          % ([(N.show(N.nf_from_key(a)), N.show(N.nf_from_key(b))) for a, b in ps] or 'no mask'),
                          f.loc())
        else:
            ctx.holds(rule, cname, 'mask operands are (r, self.sigma)', f.loc(), nontrivial=False)
    ctx.floor(rule, n, 4, 'closure core-mask comparison sites')
