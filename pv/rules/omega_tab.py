"""Rules R12.* -- tabulated omega is used verbatim on a matching grid and rejected otherwise."""
import ast
import re
from .. import nf as N
from .. import pw as P
from .. import natives as NAT
from .. import lib as L
from ..interp import (Interp, Arr, Num, View, Const, Obj, Seq, Unsupported, Raised, NONE, explore)
from ..model import AnalysisError

FA = 'pyPRISM.omega.FromArray::FromArray'
FF = 'pyPRISM.omega.FromFile::FromFile'


def path_facts(ip, g0=0, d0=0):
    """conditions established on a path that returned normally (from guard #g0 / decision #d0 on: the facts of an
    earlier evaluation concern that evaluation's grid, not this one's)"""
    facts = []
    for g in ip.guards[g0:]:
        if g['kind'] == 'assert' and hasattr(g.get('cond'), 'cond'):
            facts.append(g['cond'].cond)
    for c, b, loc in ip.decisions[d0:]:
        facts.append(c if b else ~c)
    return facts


def _conjuncts(c):
    t = c.key()
    if t[0] == 'and':
        return _conjuncts(P.Cond(t[1])) + _conjuncts(P.Cond(t[2]))
    return [c]


def has_fact(facts, want):
    """`want` is established when it is one of the facts or a conjunct of one (assert A and B establishes A and B)"""
    return any(g.same(want) for f in facts for g in _conjuncts(f))


def _allclose_ok(ip, a, b):
    """an executed allclose over exactly {a,b} with numpy's default tolerances, asserted on the path"""
    for kind, x in ip.notes:
        if kind != 'allclose':
            continue
        ts = x['args']
        if len(ts) != 2 or any(P.is_pw(t) for t in ts):
            continue
        if (ts[0].equals(a) and ts[1].equals(b)) or (ts[0].equals(b) and ts[1].equals(a)):
            extra = x['extra_args'] or set(x['kwargs']) - {'equal_nan'}
            flag = P.Cond.flag('allclose(%s,%s)' % tuple(sorted(P.show(t) for t in ts)))
            return (not extra), flag
    return None, None


def run_fromarray(prog, with_k, preset, second=False, seqtype=None):
    ip = Interp(prog)
    ip.preset = list(preset)
    NAT.install_containers(ip, domain_transforms=False, tables=False, matrixarray=False)
    for s in ('w', 'kk', 'k', 'k1'):
        ip.declare(s, 'curve')
    cls = prog.cls(FA)
    w = Arr(N.sym('w'), 'omega_arg', ip)
    kk = Arr(N.sym('kk'), 'k_arg', ip)
    if seqtype:
        # the documented argument types are "list or array"; any sequence of numbers (a tuple, a range) is array-like for
        # numpy and must be treated alike
        kk.seqtype = seqtype
        w.seqtype = seqtype
    kw = {'omega': w}
    if with_k:
        kw['k'] = kk
    o = ip.construct(cls, [], kw)
    o.origin = 'self'
    if second:      # an earlier evaluation on another grid (e.g. before the domain was changed)
        ip.call(ip.find_method(o, 'calculate'), [Arr(N.sym('k1'), 'k_first_call', ip)], {})
    g0, d0 = len(ip.guards), len(ip.decisions)
    k = Arr(N.sym('k'), 'k', ip)
    e0 = len(ip.events)
    res = ip.call(ip.find_method(o, 'calculate'), [k], {})
    return ip, {'obj': o, 'res': res, 'w': w, 'kk': kk, 'k': k, 'events': ip.events[e0:], 'g0': g0, 'd0': d0}


def rule_fromarray(ctx, rule='R12.g'):
    cls = ctx.prog.cls(FA)
    m = cls.find_method('calculate')
    mi = cls.find_method('__init__')
    lw, lk, lkk = (L.length_of(_decl(), N.sym(s)) for s in ('w', 'k', 'kk'))
    for with_k, second, seqtype in ((False, False, None), (True, False, None), (False, True, None), (True, True, None),
                                    (True, False, 'list'), (True, False, 'tuple')):
        tag = ('k given' if with_k else 'k omitted') + (', second evaluation on another grid' if second else '') + \
            ((' (omega and k passed as a %s)' % seqtype) if seqtype else '')
        try:
            worlds = explore(lambda preset: run_fromarray(ctx.prog, with_k, preset, second, seqtype))
        except (Unsupported,) as e:
            ctx.undecided(rule, FA + '.calculate', '%s: %s' % (tag, e), m.loc())
            continue
        normal = [(d, ip, r) for d, ip, r in worlds]
        if not normal:
            ctx.undecided(rule, FA + '.calculate', '%s: no normally returning path' % tag, m.loc())
            continue
        for d, ip, r in normal:
            facts = path_facts(ip, r['g0'], r['d0'])
            bad = []
            if not has_fact(facts, P.Cond.cmp('==', lw, lk)):
                bad.append('no guard comparing the number of stored values with the number of grid points')
            if with_k:
                if not has_fact(facts, P.Cond.cmp('==', lkk, lk)):
                    bad.append('no guard comparing the length of the stored k column with the grid')
                ok, flag = _allclose_ok(ip, N.sym('kk'), N.sym('k'))
                if ok is None or not has_fact(facts, flag):
                    bad.append('no np.allclose(stored k, grid k) guard on the returning path')
                elif ok is False:
                    bad.append('allclose is called with non-default tolerances')
            if bad:
                ctx.violation(rule, FA + '.calculate', 'guards:' + tag, '; '.join(bad), m.loc())
            else:
                ctx.holds(rule, FA + '.calculate', '%s: length%s guards hold on every returning path' % (tag, ' and allclose' if with_k else ''),
                          m.loc(), key=tag, sample={'case': tag, 'facts': [f.show() for f in facts]})
            # identity and copy
            res = r['res']
            val = r['obj'].attrs.get('value')
            t = ip.term_of(res)[0] if isinstance(res, (Arr, View, Num)) else None
            if t is None or P.is_pw(t) or not t.equals(N.sym('w')):
                ctx.violation('R12.i', FA + '.calculate', 'identity:' + tag, 'returns %s, not the stored values unchanged' % (P.show(t) if t is not None else res), m.loc())
            else:
                ctx.holds('R12.i', FA + '.calculate', '%s: returns the stored array unchanged' % tag, m.loc(), key=tag)
            cb = []
            if val is r['w'] or getattr(val, 'base', None) is r['w'] or (isinstance(val, Arr) and not val.fresh):
                cb.append('stored values alias the caller\'s array')
            kv = r['obj'].attrs.get('k')
            if with_k and (kv is r['kk'] or getattr(kv, 'base', None) is r['kk'] or (isinstance(kv, Arr) and not kv.fresh)):
                cb.append('stored k column aliases the caller\'s array')
            for e in r['events']:
                if e['kind'] == 'write':
                    cb.append('calculate writes %s at %s' % (e['target'], e['loc']))
            if cb:
                ctx.violation('R12.c', FA, 'copy:' + tag, '; '.join(cb), mi.loc())
            else:
                ctx.holds('R12.c', FA, '%s: constructor stores fresh copies; calculate writes nothing' % tag, mi.loc(), key=tag)


class _decl(object):
    """minimal stand-in carrying symbol kinds for lib.length_of"""
    sym_kind = {'w': 'curve', 'k': 'curve', 'kk': 'curve', 'fileData': 'file'}


def run_fromfile(prog, preset, second=False):
    ip = Interp(prog)
    ip.preset = list(preset)
    NAT.install_containers(ip, domain_transforms=False, tables=False, matrixarray=False)
    ip.declare('k', 'curve')
    ip.declare('k1', 'curve')
    cls = prog.cls(FF)
    o = ip.construct(cls, [], {'fileName': Const('omega.dat')})
    o.origin = 'self'
    if second:
        ip.call(ip.find_method(o, 'calculate'), [Arr(N.sym('k1'), 'k_first_call', ip)], {})
    g0, d0 = len(ip.guards), len(ip.decisions)
    k = Arr(N.sym('k'), 'k', ip)
    res = ip.call(ip.find_method(o, 'calculate'), [k], {})
    return ip, {'obj': o, 'res': res, 'k': k, 'g0': g0, 'd0': d0, 'all_facts': path_facts(ip)}


def rule_fromfile(ctx, rule='R12.f'):
    cls = ctx.prog.cls(FF)
    m = cls.find_method('calculate')
    _rule_fromfile(ctx, rule, False)
    _rule_fromfile(ctx, rule, True)


def _rule_fromfile(ctx, rule, second):
    cls = ctx.prog.cls(FF)
    m = cls.find_method('calculate')
    sfx = ' (second evaluation, on another grid)' if second else ''
    ksfx = ':second' if second else ''
    worlds = explore(lambda preset: run_fromfile(ctx.prog, preset, second))
    fd = N.sym('fileData')
    ndim = N.sym('ndim(fileData)')
    lf = L.length_of(_decl(), fd)
    lk = L.length_of(_decl(), N.sym('k'))
    two_d = P.Cond.cmp('>=', ndim, 2)
    seen = set()
    # how the file is read: np.loadtxt with its default layout.  ndmin>=1 turns a one-number file into a length-1 array,
    # which passes the equal-length test of exportToMatrixArray and is then broadcast over the whole grid by numpy
    # (with the default a one-number file is a 0-d array and is refused while the PRISM object is built)
    for d, ip, r in worlds[:1]:
        for k_, x in ip.notes:
            if k_ != 'loadtxt':
                continue
            kw = dict(x.get('kwargs') or {})
            if x.get('npos', 1) > 1:
                ctx.undecided(rule, FF + '.calculate', 'np.loadtxt is called with positional options', m.loc())
            nd = kw.pop('ndmin', 0)
            dt = kw.pop('dtype', None)
            if dt is not None:
                dts = str(dt)
                m_ = re.search(r"(?:numpy|builtins)\.(\w+)", dts)
                dname = m_.group(1) if m_ else dts.strip("'\"<>")
                if dname in ('float64', 'double', 'float', 'float_', 'f8', 'd', '<f8', 'longdouble', 'float128'):
                    pass
                elif dname in ('float32', 'single', 'float16', 'half', 'f4', 'f2', 'f', 'e', '<f4', 'int', 'int64', 'int32', 'intc',
                               'int_', 'i8', 'i4', 'i', 'l', 'int16', 'int8', 'uint8', 'bool', 'bool_'):
                    ctx.violation(rule, FF + '.calculate', 'loadtxt-dtype' + ksfx,
                                  'np.loadtxt(..., dtype=%s): the file is parsed into a narrower type than the double precision its '
                                  'text denotes, so the values handed on (and the omega built from them) are rounded -- not the '
                                  'tabulated values bit for bit' % dname, m.loc())
                else:
                    ctx.undecided(rule, FF + '.calculate', 'np.loadtxt is called with dtype=%s' % dts[:60], m.loc())
            for harmless in ('comments', 'delimiter', 'encoding'):
                kw.pop(harmless, None)
            if nd not in (0, None):
                ctx.violation(rule, FF + '.calculate', 'loadtxt-ndmin' + ksfx,
                              'np.loadtxt(..., ndmin=%s): a one-column file holding a single number becomes a length-1 array; '
                              'PairTable.exportToMatrixArray only compares the table entries with each other, so it is accepted '
                              'and numpy broadcasts it over the whole Fourier grid instead of rejecting the wrong length' % nd, m.loc())
            drop = {k2: v2 for k2, v2 in kw.items() if k2 in ('max_rows', 'skiprows') and v2 not in (None, 0)}
            for k2 in drop:
                kw.pop(k2)
            for k2 in ('max_rows', 'skiprows'):
                kw.pop(k2, None)           # explicitly the default
            if drop:
                ctx.violation(rule, FF + '.calculate', 'loadtxt-drops-rows' + ksfx,
                              'np.loadtxt(..., %s): part of the file is discarded before its length and k column are compared with '
                              'the grid, so a table that was written for another (longer) domain passes the guards and is used as if it '
                              'matched' % ', '.join('%s=%s' % kv for kv in sorted(drop.items())), m.loc())
            elif kw:
                ctx.undecided(rule, FF + '.calculate', 'np.loadtxt is called with layout-changing options %s' % sorted(kw), m.loc())
    for d, ip, r in worlds:
        facts = path_facts(ip, r['g0'], r['d0'])
        layout = r['all_facts']       # the file layout is a fact about the file, whichever call discovered it
        res = r['res']
        t = ip.term_of(res)[0] if isinstance(res, (Arr, View, Num)) else None
        if has_fact(layout, two_d):
            seen.add('2d')
            bad = []
            col0 = N.fn('col', fd, N.NF.const(0))
            col1 = N.fn('col', fd, N.NF.const(1))
            if not has_fact(facts, P.Cond.cmp('==', lf, lk)):
                bad.append('no guard comparing the number of rows with the grid length')
            ok, flag = _allclose_ok(ip, col0, N.sym('k'))
            if ok is None or not has_fact(facts, flag):
                bad.append('no np.allclose(first column, grid k) guard')
            elif ok is False:
                bad.append('allclose with non-default tolerances')
            if t is None or P.is_pw(t) or not t.equals(col1):
                bad.append('returns %s, not the second column unchanged' % (P.show(t) if t is not None else res))
            if bad:
                ctx.violation(rule, FF + '.calculate', 'two-column' + ksfx, '; '.join(bad) + sfx, m.loc())
            else:
                ctx.holds(rule, FF + '.calculate', 'two-column file: row-count and allclose(column 0, k) guards; returns column 1' + sfx, m.loc(), key='2d' + ksfx,
                          sample={'facts': [f.show() for f in facts], 'returns': N.show(t)})
        elif has_fact(layout, ~two_d):
            seen.add('1d')
            if t is None or P.is_pw(t) or not t.equals(fd):
                ctx.violation(rule, FF + '.calculate', 'one-column' + ksfx, 'returns %s, not the loaded data unchanged%s' % (P.show(t) if t is not None else res, sfx), m.loc())
            else:
                ctx.holds(rule, FF + '.calculate', 'one-column file: returns the loaded data unchanged (length checked at export, R12.e)' + sfx, m.loc(), key='1d' + ksfx)
        else:
            ctx.undecided(rule, FF + '.calculate', 'path does not branch on the dimensionality of the loaded data: %s' % [f.show() for f in facts], m.loc())
    if seen != {'1d', '2d'}:
        ctx.undecided(rule, FF + '.calculate', 'file layouts analysed: %s (expected one- and two-column)' % sorted(seen), m.loc())
