"""Rules R17.* -- UnitConverter conversions agree with SI constants and dimensional analysis.

The converter methods are abstractly interpreted with pint quantities modelled as (magnitude term, unit
monomial).  The pinned pint registry is consulted as *library metadata* (does this unit literal exist, what is
its dimensionality and its factor to base units, is it an offset unit) -- E9c; pyPRISM code is not executed.
The constants pi, N_A, k_B are kept symbolic so that the result can be compared with the textbook formula.
"""
import ast
import re
from fractions import Fraction as F
from .. import nf as N
from .. import pw as P
from ..interp import (Interp, Arr, Num, View, Const, Obj, Seq, Lib, Native, Unsupported, Raised, NONE, TRUE, FALSE,
                      explore)
from ..model import AnalysisError

UC = 'pyPRISM.util.UnitConverter::UnitConverter'
CONSTANT_UNITS = {'pi': N.PI, 'avogadro_constant': N.sym('N_A'), 'boltzmann_constant': N.sym('k_B'),
                  'molar_gas_constant': N.sym('N_A') * N.sym('k_B')}        # R = N_A k_B exactly (2019 SI)
_REG = []


def registry():
    if not _REG:
        import pint
        _REG.append(pint.UnitRegistry())
    return _REG[0]


_PLACEHOLDERS = {}


def _placeholder(name):
    ph = _PLACEHOLDERS.get(name)
    if ph is None:
        ph = 'pvcustomunit%d' % len(_PLACEHOLDERS)
        registry().define('%s = [pvcustomdim%d]' % (ph, len(_PLACEHOLDERS)))
        _PLACEHOLDERS[name] = ph
    return ph


class Units(object):
    """unit algebra backed by the pint registry's metadata"""
    def __init__(self):
        self.custom = {}      # name -> (factor NF, dims dict)

    def parse(self, s):
        """unit string -> {canonical unit name: Fraction exponent}; raises Raised(UndefinedUnitError)"""
        ureg = registry()
        for nm in self.custom:
            if s == nm:
                return {nm: F(1)}
        # names defined on *this* converter's registry take precedence inside compound strings too ('1/dc', 'dc**3'):
        # they are parsed through placeholders that exist in the shared stock registry only under a mangled name
        back = {}
        text = s
        for nm in sorted(self.custom, key=len, reverse=True):
            if re.search(r'(?<![A-Za-z0-9_])%s(?![A-Za-z0-9_])' % re.escape(nm), text):
                ph = _placeholder(nm)
                text = re.sub(r'(?<![A-Za-z0-9_])%s(?![A-Za-z0-9_])' % re.escape(nm), ph, text)
                back[ph] = nm
        try:
            uc = ureg.parse_units(text)
        except Exception as e:
            raise Raised(type(e).__name__, '%r: %s' % (s, e))
        return {back.get(str(k), str(k)): F(v).limit_denominator(1000) for k, v in dict(uc._units).items()}

    def base(self, name):
        """(factor NF, dims, offset or None) of one canonical unit name"""
        if name in self.custom:
            f, d = self.custom[name]
            return f, d, None
        ureg = registry()
        dims = {str(k): F(v).limit_denominator(1000) for k, v in dict(ureg.get_dimensionality(name)).items()}
        if name in CONSTANT_UNITS:
            return CONSTANT_UNITS[name], dims, None
        fac, _ = ureg.get_base_units(name)
        off = None
        try:
            conv = ureg._units[name].converter
            if getattr(conv, 'offset', 0):
                off = F(repr(conv.offset))
                fac = conv.scale
        except Exception:
            pass
        return N.NF.const(F('%.15g' % float(fac)) if not isinstance(fac, int) else F(fac)), dims, off

    def to_base(self, u):
        fac = N.NF.const(1)
        dims = {}
        for nm, e in u.items():
            f, d, off = self.base(nm)
            fac = fac * N.rat_pow(f, e)
            for k, x in d.items():
                dims[k] = dims.get(k, F(0)) + x * e
        return fac, {k: v for k, v in dims.items() if v != 0}


TEMPLATE_RE = r'^\s*(\w+)\s*=\s*\{([^{}]*)\}\s*\{([^{}]*)\}\s*=\s*(\w+)\s*$'


def _lossless_spec(spec):
    """format spec of the value placeholder under which a Python float survives str.format -> pint parser unchanged"""
    spec = spec.strip()
    if spec in ('', '!r', '!s', ':', '0', '0!r', '0!s'):
        return True
    mm = re.match(r'^(?:0)?:\.?(\d+)([geE])$', spec)
    return bool(mm and int(mm.group(1)) >= 17)


def _tbl(units, reg):
    """the unit table of a registry object (the first registry of an analysis uses the table the rule holds)"""
    return getattr(reg, 'tbl', None) or units


def _same_registry(ip2, a, b, node):
    ra, rb = getattr(a, 'reg', None), getattr(b, 'reg', None)
    if ra is not None and rb is not None and ra is not rb:
        raise Raised('ValueError', 'Cannot operate with Quantity and Quantity of different registries.', ip2.loc(node))


def _q(m, u, ityp=False):
    """ityp: the magnitude may still have the (possibly integer) dtype of the caller's array -- it has only been
    multiplied by integer-valued magnitudes so far (numpy in-place true division / float scaling of such an array raises)"""
    return Obj('Quantity', {'m': m, 'u': {k: v for k, v in u.items() if v != 0}, 'ityp': bool(ityp)})


def _ityp(v):
    if isinstance(v, Obj) and v.cls == 'Quantity':
        return bool(v.attrs.get('ityp'))
    if getattr(v, 'maybe_int', False):
        return True
    if isinstance(v, Num) and not P.is_pw(v.t) and v.t.is_const() and v.t.const_value().denominator == 1:
        return getattr(v, 'int_literal', True)
    return False


def install(ip, units):
    units0 = units
    made = []

    def ureg_new(ip2, args, kwargs, node):
        r = Obj('ureg', {})
        r.tbl = units if not made else Units()       # every registry has its own definitions
        made.append(r)
        return r
    ip.lib_overrides['pint.UnitRegistry'] = ureg_new

    def fmt(ip2, s, args, kwargs, node):
        return Obj('fmt', {'template': s.v, 'args': list(args)})
    ip.str_methods['format'] = fmt

    def define(ip2, o, args, kwargs, node):
        d = args[0]
        if not (isinstance(d, Obj) and d.cls == 'fmt'):
            raise Unsupported('define() of something that is not a formatted literal', node)
        # string arguments are rendered into the template first ('{} = {} {} = {}'.format(name, value, unit, alias) is the
        # same definition as 'name = {} {} = alias'.format(value, unit)); the remaining placeholders are the value and unit
        template, fargs = d.attrs['template'], list(d.attrs['args'])
        fields = list(re.finditer(r'\{([^{}]*)\}', template))
        if len(fields) == len(fargs) and len(fargs) > 2:
            keep, out, pos = [], '', 0
            for i, (fm, a) in enumerate(zip(fields, fargs)):
                out += template[pos:fm.start()]
                pos = fm.end()
                first_or_last_name = isinstance(a, Const) and isinstance(a.v, str) and re.match(r'^\w+$', a.v) and \
                    fm.group(1) == '' and (not template[:fm.start()].strip() or not template[fm.end():].strip())
                if first_or_last_name:
                    out += a.v
                else:
                    out += fm.group(0)
                    keep.append(a)
            out += template[pos:]
            template, fargs = out, keep
        m = re.match(TEMPLATE_RE, template)
        if not m or len(fargs) != 2:
            raise Unsupported('unit definition template %r is not "name = {} {} = alias"' % d.attrs['template'], node)
        d = Obj('fmt', {'template': template, 'args': fargs})
        spec = m.group(2)
        if not _lossless_spec(spec):
            # str.format('{}') of a float round-trips through pint's parser; a precision-limited spec does not
            ip2.event('lossy-format', m.group(1), node, why='the characteristic value is formatted with {%s} before pint parses the '
                      'definition: it is rounded (e.g. {:g} keeps 6 significant digits), so every conversion is off by the rounding '
                      'error for values with more digits' % spec)
        val, unit = d.attrs['args']
        if not (isinstance(unit, Const) and isinstance(unit.v, str)):
            raise Unsupported('unit of a characteristic quantity is not a string literal', node)
        vt, _ = ip2.term_of(val, node)
        tb = _tbl(units, o)
        fac, dims = tb.to_base(tb.parse(unit.v))
        for nm in (m.group(1), m.group(4)):
            tb.custom[nm] = (vt * fac, dims)
        ip2.notes.append(('define', {'names': (m.group(1), m.group(4)), 'unit': unit.v, 'loc': ip2.loc(node)}))
        return NONE
    ip.natives[('ureg', 'define')] = define

    def quantity(ip2, o, args, kwargs, node):
        v, unit = args[0], args[1]
        if not (isinstance(unit, Const) and isinstance(unit.v, str)):
            raise Unsupported('Quantity unit is not a string literal', node)
        vt, _ = ip2.term_of(v, node)
        ip2.notes.append(('unit-literal', {'s': unit.v, 'loc': ip2.loc(node), 'use': 'Quantity'}))
        q = _q(vt, _tbl(units, o).parse(unit.v), _ityp(v))
        q.reg = o
        q.arrayish = getattr(v, 'kind', 'scalar') == 'array'
        if getattr(v, 'maybe_int', False):
            q.attrs['wraps_argument'] = True     # pint wraps the caller's array without copying it
        if isinstance(v, (Arr, View)):
            q.attrs['buf'] = v.base if isinstance(v, View) else v     # the Quantity wraps this very array (no copy)
            q.attrs['buf_t'] = q.attrs['buf'].t
        return q
    ip.natives[('ureg', 'Quantity')] = quantity

    def call(ip2, o, args, kwargs, node):
        unit = args[0]
        if not (isinstance(unit, Const) and isinstance(unit.v, str)):
            raise Unsupported('registry called with a non-literal', node)
        ip2.notes.append(('unit-literal', {'s': unit.v, 'loc': ip2.loc(node), 'use': 'call'}))
        q = _q(N.NF.const(1), _tbl(units, o).parse(unit.v), True)
        q.reg = o
        return q
    ip.natives[('ureg', '__call__')] = call

    def mul(sign):
        def f(ip2, o, args, kwargs, node):
            other = args[0]
            if isinstance(other, Obj) and other.cls == 'Quantity':
                _same_registry(ip2, o, other, node)
                u = dict(o.attrs['u'])
                for k, v in other.attrs['u'].items():
                    u[k] = u.get(k, F(0)) + sign * v
                m = o.attrs['m'] * other.attrs['m'] if sign > 0 else o.attrs['m'] / other.attrs['m']
                r = _q(m, u, sign > 0 and _ityp(o) and _ityp(other))
                r.reg = getattr(o, 'reg', None) or getattr(other, 'reg', None)
                r.arrayish = getattr(o, 'arrayish', False) or getattr(other, 'arrayish', False)
                return r
            t, k_ = ip2.term_of(other, node)
            r = _q(o.attrs['m'] * t if sign > 0 else o.attrs['m'] / t, o.attrs['u'], sign > 0 and _ityp(o) and _ityp(other))
            r.reg = getattr(o, 'reg', None)
            r.arrayish = getattr(o, 'arrayish', False) or k_ == 'array'
            return r
        return f
    ip.natives[('Quantity', '__mul__')] = mul(+1)
    ip.natives[('Quantity', '__rmul__')] = mul(+1)
    ip.natives[('Quantity', '__truediv__')] = mul(-1)

    def imul(sign):
        plain = mul(sign)

        def f(ip2, o, args, kwargs, node):
            # pint applies  *=  and  /=  to an ndarray magnitude in place
            if o.attrs.get('wraps_argument'):
                ip2.event('inplace-on-argument', 'Quantity', node, why='the quantity wraps the caller\'s array: the in-place operator modifies the argument')
            if _ityp(o) and (sign < 0 or not _ityp(args[0])):
                ip2.event('inplace-int', 'Quantity', node,
                          why='in-place %s on a magnitude that still has the dtype of the caller\'s array: numpy refuses to '
                              'store the floating-point result into an integer array (UFuncTypeError for integer input)'
                              % ('true division' if sign < 0 else 'scaling by a non-integer'))
            return plain(ip2, o, args, kwargs, node)
        return f
    ip.natives[('Quantity', '__imul__')] = imul(+1)
    ip.natives[('Quantity', '__itruediv__')] = imul(-1)

    def check(ip2, o, args, kwargs, node):
        units = _tbl(units0, getattr(o, 'reg', None))
        d = args[0]
        if not (isinstance(d, Const) and isinstance(d.v, str)):
            raise Unsupported('.check() with a non-literal dimension', node)
        try:
            want = {str(k): F(v).limit_denominator(1000) for k, v in dict(registry().get_dimensionality(d.v)).items()}
        except Exception as e:
            raise Raised(type(e).__name__, '%r: %s' % (d.v, e), ip2.loc(node))
        _, have = units.to_base(o.attrs['u'])
        return TRUE if {k: v for k, v in want.items() if v != 0} == have else FALSE
    ip.natives[('Quantity', 'check')] = check

    def q_getattr(ip2, o, args, kwargs, node):
        units = _tbl(units0, getattr(o, 'reg', None))
        nm = args[0].v
        if nm in ('magnitude', 'm'):
            r = Num(o.attrs['m'], 'scalar')
            r.maybe_int = bool(o.attrs.get('ityp'))
            return r
        if nm in ('units', 'u'):
            return _q(N.NF.const(1), o.attrs['u'], True)
        if nm == 'dimensionless':
            return TRUE if not units.to_base(o.attrs['u'])[1] else FALSE
        raise Unsupported('attribute %s of a pint Quantity is not modelled' % nm, node)
    ip.natives[('Quantity', '__getattr__')] = q_getattr

    def rdiv(ip2, o, args, kwargs, node):
        t, k_ = ip2.term_of(args[0], node)
        r = _q(t / o.attrs['m'], {k: -v for k, v in o.attrs['u'].items()})
        r.arrayish = getattr(o, 'arrayish', False) or k_ == 'array'
        return r
    ip.natives[('Quantity', '__rtruediv__')] = rdiv

    def power(ip2, o, args, kwargs, node):
        e = args[0]
        if not (isinstance(e, Num) and e.t.is_const()):
            raise Unsupported('quantity raised to a non-constant power', node)
        q = e.t.const_value()
        return _q(N.rat_pow(o.attrs['m'], q), {k: v * q for k, v in o.attrs['u'].items()}, False)
    ip.natives[('Quantity', '__pow__')] = power

    def to(ip2, o, args, kwargs, node):
        units = _tbl(units0, getattr(o, 'reg', None))
        tgt = args[0]
        if not (isinstance(tgt, Const) and isinstance(tgt.v, str)):
            raise Unsupported('.to() with a non-literal target', node)
        ip2.notes.append(('unit-literal', {'s': tgt.v, 'loc': ip2.loc(node), 'use': 'to'}))
        tu = units.parse(tgt.v)
        fs, ds = units.to_base(o.attrs['u'])
        ft, dt = units.to_base(tu)
        if ds != dt:
            raise Raised('DimensionalityError', 'cannot convert %s (%s) to %r (%s)' % (o.attrs['u'], ds, tgt.v, dt), ip2.loc(node))
        offs = [(nm, units.base(nm)[2]) for nm in tu if units.base(nm)[2] is not None]
        src_offs = [nm for nm in o.attrs['u'] if units.base(nm)[2] is not None]
        if src_offs:
            raise Unsupported('conversion from an offset unit', node)
        m = o.attrs['m'] * fs / ft
        if offs:
            if len(tu) != 1 or list(tu.values()) != [F(1)]:
                raise Unsupported('offset unit inside a compound target', node)
            m = m - N.NF.const(offs[0][1])
        r = _q(m, tu, False)
        r.attrs['normalised'] = tgt.v
        return r
    ip.natives[('Quantity', 'to')] = to

    def ito(ip2, o, args, kwargs, node):
        # in-place conversion: pint rescales an ndarray magnitude in its own memory
        if o.attrs.get('wraps_argument'):
            ip2.event('inplace-on-argument', 'Quantity', node, why='the quantity wraps the caller\'s array: the in-place conversion '
                      'rescales the argument itself')
        if _ityp(o):
            ip2.event('inplace-int', 'Quantity', node,
                      why='in-place conversion of a magnitude that still has the dtype of the caller\'s array: numpy refuses to '
                          'store the rescaled values into an integer array (UFuncTypeError for integer input)')
        r = to(ip2, o, args, kwargs, node)
        o.attrs['m'], o.attrs['u'], o.attrs['ityp'] = r.attrs['m'], r.attrs['u'], False
        o.attrs['normalised'] = r.attrs.get('normalised')
        return NONE
    ip.natives[('Quantity', 'ito')] = ito
    ip.natives[('Quantity', 'to_base_units')] = lambda ip2, o, a, k, n: o

    def keep_registry(f):
        def g(ip2, o, args, kwargs, node):
            r = f(ip2, o, args, kwargs, node)
            if isinstance(r, Obj) and r.cls == 'Quantity' and getattr(r, 'reg', None) is None:
                r.reg = getattr(o, 'reg', None)
            if isinstance(r, Obj) and r.cls == 'Quantity' and r is not o and not hasattr(r, 'arrayish'):
                r.arrayish = getattr(o, 'arrayish', False)
            return r
        return g
    for key_ in list(ip.natives):
        if key_[0] == 'Quantity':
            ip.natives[key_] = keep_registry(ip.natives[key_])


CHAR_DEFAULTS = {'dc_unit': 'nanometer', 'mc_unit': 'gram/mole', 'ec_unit': 'kilojoule/mole'}


def make_converter(prog, ec_unit='kilojoule/mole'):
    ip = Interp(prog)
    units = Units()
    install(ip, units)
    cls = prog.cls(UC)
    kw = {}
    for p in ('dc', 'mc', 'ec'):
        kw[p] = Num(ip.declare(p))
    kw['ec_unit'] = Const(ec_unit)
    o = ip.construct(cls, [], kw)
    o.origin = 'self'
    return ip, units, o


def _expected(method, ec_unit):
    """textbook magnitudes in the target unit, as terms over the symbolic characteristic values"""
    x, d = N.sym('x'), N.sym('diam')
    dc, ec = N.sym('dc'), N.sym('ec')
    NA, kB = N.sym('N_A'), N.sym('k_B')
    e_si = ec * 1000                       # kilojoule -> joule
    T = x * e_si / kB / (NA if '/mole' in ec_unit else 1)
    dc_m = dc * F(1, 10 ** 9)
    return {
        'toKelvin': ('K', T),
        'toCelcius': ('degC', T - F('273.15')),
        'toInvAngstrom': ('angstrom^-1', x / (dc * 10)),
        'toInvNanometer': ('nanometer^-1', x / dc),
        'toConcentration': ('mol/L', x / (dc_m ** 3 * NA) / 1000),
        'toVolumeFraction': ('dimensionless', x * N.PI * d ** 3 / 6),
    }[method]


METHODS = ('toKelvin', 'toCelcius', 'toInvAngstrom', 'toInvNanometer', 'toConcentration', 'toVolumeFraction')


def rule_conversions(ctx, rule='R17.d'):
    cls = ctx.prog.cls(UC)
    n = 0
    for ec_unit in ('kilojoule/mole', 'kilojoule'):
        for meth in METHODS:
            m = cls.find_method(meth)
            construct = '%s.%s' % (UC, meth)
            tag = 'ec in %s' % ec_unit
            if m is None:
                ctx.violation(rule, construct, 'missing', 'documented conversion method does not exist')
                continue
            try:
                def run_scalar(preset, meth=meth, ec_unit=ec_unit):
                    ip_, units_, o_ = make_converter(ctx.prog, ec_unit)
                    ip_.preset = list(preset)
                    ip_.declare('x')
                    ip_.declare('diam')
                    args_ = [Num(N.sym('x'))] + ([Num(N.sym('diam'))] if meth == 'toVolumeFraction' else [])
                    for a_ in args_:
                        a_.maybe_int = True         # the caller may pass an integer-dtype array
                    e0_ = len(ip_.events)
                    res_ = ip_.call(ip_.find_method(o_, meth), args_, {})
                    return ip_, {'units': units_, 'o': o_, 'e0': e0_, 'res': res_}
                worlds_ = explore(run_scalar, keep_raised=True)
                # a path that raises only under a condition on the argument's value (if x < 0: raise ...) is a refusal of
                # that input, not a failure of the conversion; the value-independent path is the one that is checked
                normal_ = [(d_, i_, w_) for d_, i_, w_ in worlds_ if i_ is not None]
                uncond_ = [w_ for d_, i_, w_ in worlds_ if i_ is None and not d_]
                if uncond_:
                    raise uncond_[0]
                if not normal_:
                    raise Unsupported('no normally returning path')
                # several normally returning paths that differ in a condition on the argument's value (`if not diameter:`):
                # each of them must give the textbook magnitude for the arguments it is taken for.  The path that takes no
                # equality for granted is examined in full; on the others the decided equalities are substituted
                extra_bad = []
                if len(normal_) > 1:
                    unit_x, want_x = _expected(meth, ec_unit)
                    generic_ = [x for x in normal_ if not P.equalities(x[0])]
                    for d_, i_, w2_ in normal_:
                        eqs_ = P.equalities(d_)
                        r2_ = w2_['res']
                        if not eqs_ or not (isinstance(r2_, Obj) and r2_.cls == 'Quantity'):
                            continue
                        g2_, w3_ = P.subs(r2_.attrs['m'], eqs_), P.subs(want_x, eqs_)
                        if P.compare(g2_, w3_)[0]:
                            extra_bad.append('for %s the magnitude is %s, the textbook value is %s' % (
                                ', '.join('%s = %s' % (k__, N.show(v__)) for k__, v__ in sorted(eqs_.items())), P.show(g2_)[:80],
                                P.show(w3_)[:80]))
                    if len(generic_) != 1:
                        raise Unsupported('%d normally returning paths depend on the value of the argument' % len(normal_))
                    normal_ = generic_
                if extra_bad:
                    n += 1
                    ctx.violation(rule, construct, 'formula-on-special-value:' + tag, '%s: %s' % (tag, '; '.join(extra_bad[:2])), m.loc())
                    continue
                _, ip, w_ = normal_[0]
                units, o, e0, res = w_['units'], w_['o'], w_['e0'], w_['res']
            except Raised as e:
                n += 1
                key = 'raises:%s' % e.exc
                ctx.violation('R17.u', construct, key, '%s: the method cannot return for valid numeric input: %s: %s' % (tag, e.exc, e.msg), m.loc())
                continue
            except Unsupported as e:
                ctx.undecided(rule, construct, '%s: %s' % (tag, e), m.loc())
                continue
            # the same conversion with an array argument: a scalar-only construct (`if x < 0:`) raises for arrays of more
            # than one element although it works for scalars
            try:
                ipa, unitsa, oa = make_converter(ctx.prog, ec_unit)
                ipa.declare('x')
                ipa.declare('diam')
                aargs = [Num(N.sym('x'), 'array')] + ([Num(N.sym('diam'))] if meth == 'toVolumeFraction' else [])
                for a_ in aargs:
                    a_.maybe_int = True

                def run_array(preset, meth=meth, ec_unit=ec_unit):
                    ipb, unitsb, ob = make_converter(ctx.prog, ec_unit)
                    ipb.preset = list(preset)
                    ipb.declare('x', 'curve')
                    ipb.declare('diam')
                    bargs = [Num(N.sym('x'), 'array')] + ([Num(N.sym('diam'))] if meth == 'toVolumeFraction' else [])
                    for a_ in bargs:
                        a_.maybe_int = True
                    return ipb, ipb.call(ipb.find_method(ob, meth), bargs, {})
                collapsed = []
                for dec_b, ipb, rb in explore(run_array, keep_raised=True):
                    if ipb is None:
                        if not dec_b:
                            raise rb          # raises for every array argument
                        conds_ = getattr(rb, 'decisions', [])
                        if conds_ and all('len(' in c_.show() for c_, v_, _ in conds_):
                            # the refusal depends on the SHAPE of the array only (its number of elements), not on its values
                            collapsed.append('raises %s when %s' % (rb.exc, ', '.join('%s is %s' % (c_.show(), v_) for c_, v_, _ in conds_)))
                        continue              # refusal of some arrays only (a condition on the data)
                    if isinstance(rb, Obj) and rb.cls == 'Quantity' and not getattr(rb, 'arrayish', False):
                        collapsed.append(', '.join('%s is %s' % (c_.show(), v_) for c_, v_, _ in dec_b) or 'always')
                if collapsed:
                    n += 1
                    if collapsed[0].startswith('raises '):
                        ctx.violation('R17.l', construct, 'array-shape-refused:' + tag,
                                      '%s: an array argument %s: the conversion does not work elementwise on every array'
                                      % (tag, collapsed[0]), m.loc())
                        continue
                    ctx.violation('R17.l', construct, 'array-collapses:' + tag,
                                  '%s: for an array argument the returned magnitude is a plain number, not an array (when %s): the '
                                  'conversion does not work elementwise on every array' % (tag, collapsed[0]), m.loc())
                    continue
            except Raised as e_:
                n += 1
                ctx.violation('R17.l', construct, 'array-argument:' + tag,
                              '%s: the conversion works for a scalar but raises %s for an array argument (%s): it does not work '
                              'elementwise' % (tag, e_.exc, (e_.msg or '')[:110]), m.loc())
                continue
            except Unsupported:
                pass
            n += 1
            inpl = [e for e in ip.events[e0:] if e['kind'] in ('inplace-int', 'inplace-on-argument')]
            if inpl:
                ctx.violation('R17.l', construct, 'inplace:' + tag, '%s: %s at %s' % (tag, inpl[0]['why'], inpl[0]['loc']), m.loc())
            else:
                ctx.holds('R17.l', construct, '%s: no in-place operator is applied to a value that still carries the argument\'s '
                          'array or dtype (array-safe for integer and float input alike)' % tag, m.loc(), key=tag, nontrivial=False)
            unit, want = _expected(meth, ec_unit)
            if not (isinstance(res, Obj) and res.cls == 'Quantity'):
                ctx.violation(rule, construct, 'not-a-quantity', '%s: returns %r' % (tag, res), m.loc())
                continue
            # a quantity expressed in plain units only carries its number as the magnitude, whether it came out of .to() or
            # was wrapped directly (Quantity(number, 'mol/L')); constants and the converter's own dc/mc/ec are *units* to pint
            const_units = [k for k in res.attrs['u'] if k in CONSTANT_UNITS or k in units.custom]
            if const_units:
                ctx.violation('R17.n', construct, 'unnormalised',
                              '%s: the returned quantity is not the result of a final .to(<plain unit>): its unit is %s, so its '
                              'magnitude (%s) is not the textbook value (pint keeps %s as a *unit*; the number appears only after '
                              'conversion)' % (tag, res.attrs['u'], N.show(res.attrs['m']), const_units or 'constants'), m.loc())
                continue
            wu = units.parse(unit)
            got = res.attrs['m']
            bad = []
            if res.attrs['u'] != wu:
                bad.append('unit is %s, expected %s' % (res.attrs['u'], unit))
            if not got.equals(want):
                bad.append('magnitude is %s, textbook value is %s' % (N.show(got), N.show(want)))
            # linear (affine for Celsius) in the argument
            lin = N.diff(got, 'x')
            if 'x' in lin.symbols():
                bad.append('not linear in its argument')
            elif meth != 'toCelcius' and not N.subs(got, {'x': 0}).is_zero():
                bad.append('not homogeneous in its argument')
            if bad:
                ctx.violation(rule, construct, 'formula:' + tag, '%s: %s' % (tag, '; '.join(bad)), m.loc())
            else:
                ctx.holds(rule, construct, '%s: magnitude == %s in %s; linear in the argument' % (tag, N.show(want), unit), m.loc(),
                          key=tag, sample={'method': meth, 'ec_unit': ec_unit, 'magnitude': N.show(got), 'unit': unit})
    ctx.floor(rule, n, 12, 'conversion method x characteristic-energy kind')


def rule_call_history(ctx, rule='R17.h'):
    """a conversion depends on its own arguments only: called after any conversion method (itself included) was called with
    other arguments on the same converter, it returns the quantity a fresh converter returns (no value cached from an
    earlier call, no state left behind)"""
    cls = ctx.prog.cls(UC)
    n = 0

    def args_for(ip, meth, tag):
        a = [Num(ip.declare('x' + tag))] + ([Num(ip.declare('diam' + tag))] if meth == 'toVolumeFraction' else [])
        return a

    def run(meth, before, preset):
        ip, units, o = make_converter(ctx.prog)
        ip.preset = list(preset)
        if before == '<fresh array>':
            rest = args_for(ip, meth, '')[1:]
            ip.declare('x', 'curve')
            return ip, ip.call(ip.find_method(o, meth), [Arr(N.sym('x'), 'argument', ip)] + rest, {})
        if before == '<same array object>':
            # the caller converts an array, changes its contents in place (k *= 2, rho[:] = ...) and converts the very
            # same array object again: the second result is that of the current contents
            rest = args_for(ip, meth, '')[1:]
            ip.declare('x_first', 'curve')
            ip.declare('x', 'curve')
            a = Arr(N.sym('x_first'), 'argument', ip)
            r1 = ip.call(ip.find_method(o, meth), [a] + rest, {})
            a.t = N.sym('x')
            res = ip.call(ip.find_method(o, meth), [a] + rest, {})
            b1 = r1.attrs.get('buf') if isinstance(r1, Obj) else None
            if b1 is not None and b1 is not a:
                b2 = res.attrs.get('buf') if isinstance(res, Obj) else None
                if b1 is b2 or (not P.is_pw(b1.t) and not P.is_pw(r1.attrs['buf_t']) and not b1.t.equals(r1.attrs['buf_t'])):
                    return ip, ('ALIAS', 'the quantity returned by the first call wraps an array kept on the converter (%s): the '
                                'second call on an array of the same shape overwrites the first result' % (b1.origin or 'a scratch buffer'), ())
            return ip, res
        if before is not None:
            ip.call(ip.find_method(o, before), args_for(ip, before, '_first'), {})
        res = ip.call(ip.find_method(o, meth), args_for(ip, meth, ''), {})
        return ip, res

    def norm(res):
        if isinstance(res, tuple) and res and res[0] == 'ALIAS':
            return res
        if isinstance(res, Obj) and res.cls == 'Quantity':
            return ('Q', res.attrs['m'], tuple(sorted(res.attrs['u'].items())))
        if isinstance(res, Num):
            return ('N', res.t, ())
        raise Unsupported('conversion returns %r' % (res,))

    present = [m_ for m_ in METHODS if cls.find_method(m_) is not None]
    for meth in present:
        m = cls.find_method(meth)
        construct = '%s.%s' % (UC, meth)
        try:
            fresh = [norm(r) for d, i, r in explore(lambda preset: run(meth, None, preset)) if i is not None]
        except (Unsupported, Raised) as e:
            ctx.undecided(rule, construct, 'fresh call: %s' % e, m.loc())
            continue
        bad, und = [], []
        for before in present + ['<same array object>']:
            try:
                ws = [norm(r) for d, i, r in explore(lambda preset: run(meth, before, preset)) if i is not None]
                ref = fresh
                if before.startswith('<'):
                    # array in, array out: the reference is a fresh converter given an array once (whatever the method
                    # decides from the data of the array, it decides the same way there)
                    ref = [norm(r) for d, i, r in explore(lambda preset: run(meth, '<fresh array>', preset)) if i is not None]
            except (Unsupported, Raised) as e:
                und.append('after %s: %s' % (before, e))
                continue
            for k_, mt, u in ws:
                if k_ == 'ALIAS':
                    bad.append(mt)
                    continue
                if not any(k_ == k2 and u == u2 and not P.compare(mt, m2)[0] for k2, m2, u2 in ref):
                    bad.append('after %s the result is %s %s where a fresh converter gives %s' % (
                        'the same array object was converted with other contents' if before.startswith('<') else
                        before + '(other arguments)', P.show(mt), dict(u), P.show(fresh[0][1]) if fresh else '?'))
        if bad:
            n += 1
            ctx.violation(rule, construct, 'call-history', '; '.join(bad[:2]), m.loc())
        elif und:
            ctx.undecided(rule, construct, '; '.join(und[:2]), m.loc())
        else:
            n += 1
            ctx.holds(rule, construct, 'same quantity after each of the %d conversion methods was called with other arguments first'
                      % len(present), m.loc())
    ctx.floor(rule, n, 6, 'conversion methods with a call-history check')


def rule_definitions(ctx, rule='R17.c'):
    """the characteristic units are defined with the values the user passed (no rounding on the way into the registry)"""
    cls = ctx.prog.cls(UC)
    mi = cls.find_method('__init__')
    try:
        ip, units, o = make_converter(ctx.prog)
    except Unsupported as e:
        ctx.undecided(rule, UC + '.__init__', str(e), mi.loc())
        return
    except Raised as e:
        ctx.violation(rule, UC + '.__init__', 'raises', 'constructor raises %s: %s' % (e.exc, e.msg), mi.loc())
        return
    lossy = [e for e in ip.events if e['kind'] == 'lossy-format']
    defs = [x for k_, x in ip.notes if k_ == 'define']
    if lossy:
        ctx.violation(rule, UC + '.__init__', 'lossy-format:' + ','.join(sorted(e['target'] for e in lossy)),
                      '%s (%s)' % (lossy[0]['why'], ', '.join('%s at %s' % (e['target'], e['loc']) for e in lossy)), mi.loc())
    elif len(defs) < 3:
        ctx.undecided(rule, UC + '.__init__', 'expected three unit definitions (dc, mc, ec), found %d' % len(defs), mi.loc())
    else:
        bad = []
        for nm, sym in (('dc', 'dc'), ('mc', 'mc'), ('ec', 'ec')):
            if nm in units.custom:
                fac, dims = units.custom[nm]
                if sym not in fac.symbols() or not N.diff(fac, sym).is_const() is False and False:
                    pass
                if sym not in fac.symbols():
                    bad.append('%s is defined without reference to the constructor argument %s (%s)' % (nm, sym, N.show(fac)))
            else:
                bad.append('%s is never defined' % nm)
        if bad:
            ctx.violation(rule, UC + '.__init__', 'definitions', '; '.join(bad), mi.loc())
        else:
            ctx.holds(rule, UC + '.__init__', 'dc, mc, ec are defined from the constructor arguments, formatted losslessly', mi.loc())


def rule_registry_isolation(ctx, rule='R17.r'):
    """Every converter defines its characteristic units dc/mc/ec by name in a pint registry; two converters with
    different characteristic values therefore need two registries.  Two instances are constructed in one analysis
    and must not share the registry object (a module-level / cached registry makes the second converter convert with
    the first one's units, or raise on re-definition)."""
    cls = ctx.prog.cls(UC)
    mi = cls.find_method('__init__')
    try:
        ip = Interp(ctx.prog)
        units = Units()
        install(ip, units)
        objs = []
        for tag in ('', '2'):
            kw = {p: Num(ip.declare(p + tag)) for p in ('dc', 'mc', 'ec')}
            objs.append(ip.construct(cls, [], kw))
    except Unsupported as e:
        ctx.undecided(rule, UC + '.__init__', str(e), mi.loc())
        return
    except Raised as e:
        ctx.violation(rule, UC + '.__init__', 'second-instance', 'constructing a second converter raises %s: %s' % (e.exc, e.msg), mi.loc())
        return
    # two converters for the SAME reduced unit system (a re-run notebook cell, a helper that builds its own): after the first
    # one was used, every conversion on the second returns what a fresh converter returns (nothing belonging to the first
    # one's registry is handed to the second: pint refuses to combine quantities of different registries)
    same_bad, same_und = [], []
    for meth in [m_ for m_ in METHODS if cls.find_method(m_) is not None]:
        def run_same(preset, meth=meth):
            ip2 = Interp(ctx.prog)
            ip2.preset = list(preset)
            install(ip2, Units())
            cs = [ip2.construct(cls, [], {p: Num(ip2.declare(p)) for p in ('dc', 'mc', 'ec')}) for _ in range(2)]
            out = []
            for c_ in cs:
                a_ = [Num(ip2.declare('x'))] + ([Num(ip2.declare('diam'))] if meth == 'toVolumeFraction' else [])
                out.append(ip2.call(ip2.find_method(c_, meth), a_, {}))
            return ip2, out
        try:
            for dec_, ip2, out in explore(run_same, keep_raised=True):
                if ip2 is None:
                    same_bad.append('%s on a second converter built with the same arguments raises %s (%s) after the first one was used'
                                    % (meth, out.exc, (out.msg or '')[:80]))
                    continue
                a_, b_ = out
                if not (isinstance(a_, Obj) and isinstance(b_, Obj) and a_.cls == b_.cls == 'Quantity'):
                    continue
                if P.compare(a_.attrs['m'], b_.attrs['m'])[0] or a_.attrs['u'] != b_.attrs['u']:
                    same_bad.append('%s on a second converter built with the same arguments returns %s, the first returned %s'
                                    % (meth, P.show(b_.attrs['m'])[:80], P.show(a_.attrs['m'])[:80]))
                elif getattr(b_, 'reg', None) is not None and getattr(b_, 'reg', None) is getattr(a_, 'reg', None):
                    same_bad.append('%s on the second converter returns a quantity of the FIRST converter\'s registry' % meth)
        except Unsupported as e:
            same_und.append('%s: %s' % (meth, e))
    if same_bad:
        ctx.violation(rule, UC, 'equal-converters', '; '.join(sorted(set(same_bad))[:2]), mi.loc())
    elif same_und:
        ctx.undecided(rule, UC, 'two converters with the same definition: ' + same_und[0], mi.loc())
    else:
        ctx.holds(rule, UC, 'two converters built from the same arguments convert independently (every method, the second after the '
                  'first)', mi.loc(), key='equal-converters')
    regs = [[k for k, v in o.attrs.items() if isinstance(v, Obj) and v.cls == 'ureg'] for o in objs]
    shared = [k for k in regs[0] if k in regs[1] and objs[0].attrs[k] is objs[1].attrs[k]]
    if not regs[0]:
        ctx.undecided(rule, UC + '.__init__', 'no pint registry attribute found on the converter', mi.loc())
    elif shared:
        ctx.violation(rule, UC + '.__init__', 'shared-registry',
                      'two converters share one unit registry (attribute %s): the names dc/mc/ec defined for the second instance '
                      'collide with those of the first, so one of them converts with the other\'s characteristic units' % shared, mi.loc())
    else:
        ctx.holds(rule, UC + '.__init__', 'each converter owns its registry (two instances constructed: distinct registry objects)', mi.loc())


def rule_unit_literals(ctx, rule='R17.u'):
    """every unit string the converter hands to pint -- in the constructor and in each conversion method, for both kinds of
    characteristic energy -- exists in the pinned registry or is defined by the class itself.  The strings are collected
    while the methods are executed abstractly (wherever they are spelled: literals, module constants, helper arguments)."""
    cls = ctx.prog.cls(UC)
    seen = {}
    problems = []
    for ec_unit in ('kilojoule/mole', 'kilojoule'):
        for meth in METHODS:
            if cls.find_method(meth) is None:
                continue

            def run(preset, meth=meth, ec_unit=ec_unit):
                ip_, units_, o_ = make_converter(ctx.prog, ec_unit)
                ip_.preset = list(preset)
                ip_.declare('x')
                ip_.declare('diam')
                args_ = [Num(N.sym('x'))] + ([Num(N.sym('diam'))] if meth == 'toVolumeFraction' else [])
                try:
                    ip_.call(ip_.find_method(o_, meth), args_, {})
                finally:
                    for k_, x_ in ip_.notes:
                        if k_ == 'unit-literal':
                            seen.setdefault(x_['s'], (x_['loc'], x_['use']))
                return ip_, None
            try:
                for d_, i_, r_ in explore(run, keep_raised=True):
                    if i_ is None and r_.exc in ('UndefinedUnitError', 'DefinitionSyntaxError'):
                        problems.append('%s (ec in %s): %s: %s' % (meth, ec_unit, r_.exc, (r_.msg or '')[:120]))
            except Unsupported:
                pass            # reported by R17.d
    for s_ in sorted(seen):
        ctx.holds(rule, UC, '%r (%s, %s) is known to the registry of the converter' % (s_, seen[s_][1], seen[s_][0]), nontrivial=False, key=s_)
    for pr in sorted(set(problems)):
        ctx.violation(rule, UC, 'literal:' + pr.split(':')[0], 'a unit string is not defined: %s' % pr)
    ctx.floor(rule, len(seen), 8, 'distinct unit strings handed to pint')
