"""Rules R10.* (potentials equal their definitions) and R03.d (hard-core potentials)."""
import itertools
from .. import nf as N
from .. import pw as P
from ..interp import Interp, Arr, Num, Const, Obj, Unsupported, Raised, NONE, TRUE, FALSE, explore
from ..model import AnalysisError
from spec import potentials as SPEC

R = N.sym('r')
S = N.sym('sigma')


def potential_classes(prog):
    out = [c for c in prog.subclasses_of('Potential') if c.find_method('calculate') is not None]
    if not out:
        raise AnalysisError('no Potential subclass with a calculate method found')
    return out


def valuations(cls):
    """constructor-flag valuations to enumerate for this class"""
    init = cls.find_method('__init__')
    params = [p for p in init.params if p != 'self'] if init is not None else []
    flags = {}
    for c in cls.mro():
        if c.name in SPEC.FLAG_PARAMS and init is not None and init.cls is c:
            flags = SPEC.FLAG_PARAMS[c.name]
            break
    names = [p for p in params if p in flags]
    out = []
    for combo in itertools.product(*[flags[p] for p in names]):
        out.append(dict(zip(names, combo)))
    return params, out or [{}]


def run_potential(prog, cls, val, twice=False, preset=()):
    ip = Interp(prog)
    ip.preset = list(preset)
    params, _ = valuations(cls)
    kw = {}
    for p in params:
        if p in val:
            v = val[p]
            if v is None:
                kw[p] = NONE
            elif v is True or v is False:
                kw[p] = Const(v)
            elif v in ('np.True_', 'np.False_'):
                kw[p] = Const(v == 'np.True_')
                kw[p].npbool = True
            else:
                ip.declare(p)
                kw[p] = Num(N.sym(p))
        else:
            ip.declare(p)
            kw[p] = Num(N.sym(p))
    ip.declare('r', 'curve')
    o = ip.construct(cls, [], kw)
    o.origin = 'self'
    r = Arr(R, 'r', ip)
    m = ip.find_method(o, 'calculate')
    e0 = len(ip.events)
    res = ip.call(m, [r], {})
    out = {'ip': ip, 'obj': o, 'res': res, 'r': r, 'events': ip.events[e0:], 'func': m}
    if twice:
        e1 = len(ip.events)
        out['res2'] = ip.call(ip.find_method(o, 'calculate'), [r], {})
        out['events2'] = ip.events[e1:]
    return out


def spec_for(cls):
    if cls.name in SPEC.REFERENCES:
        return SPEC.REFERENCES[cls.name]
    return None


def _valname(v):
    return ','.join('%s=%s' % (k, 'given' if x == 'sym' else x) for k, x in sorted(v.items())) or '-'


def rule_definition(ctx, rule='R10.d'):
    n = 0
    for cls in potential_classes(ctx.prog):
        f = cls.find_method('calculate')
        refs = spec_for(cls)
        params, vals = valuations(cls)
        for val in vals:
            try:
                w = run_potential(ctx.prog, cls, val)
                term = w['res'].t
            except (Unsupported, Raised) as e:
                ctx.undecided(rule, cls.qualname, '%s: %s' % (_valname(val), e), f.loc())
                continue
            n += 1
            if refs is None:
                ctx.holds(rule, cls.qualname, '%s: no reference in spec/potentials.py for this class; generic rules '
                          'only (extracted %s)' % (_valname(val), P.show(term)), f.loc(), nontrivial=False)
                continue
            ref = [t for v, t in refs if v == val]
            if not ref:
                ctx.undecided(rule, cls.qualname, 'no reference for valuation %s' % _valname(val), f.loc())
                continue
            diffs, nreg = P.compare(term, ref[0])
            if not diffs:
                ctx.holds(rule, cls.qualname, '%s: u(r) equals the documented form on all %d orderings'
                          % (_valname(val), nreg), f.loc(), key=_valname(val),
                          sample={'class': cls.name, 'flags': _valname(val), 'extracted': P.show(term)})
            else:
                where = '; '.join('where %s: got %s, documented %s' % (P.show_val(v), N.show(a), N.show(b))
                                  for v, a, b in diffs[:3])
                ctx.violation(rule, cls.qualname, 'definition:' + _valname(val), where, f.loc(),
                              extracted=P.show(term), reference=P.show(ref[0]))
    ctx.floor(rule, n, 8, 'potential definition obligations (5 classes, 8 flag valuations)')


def _core_leaves(term, rkey, skey):
    key = (rkey, skey) if repr(rkey) <= repr(skey) else (skey, rkey)
    flipped = key[0] != rkey
    ps, fs = P.conds(term)

    def at(o):
        o2 = {'lt': 'gt', 'gt': 'lt', 'eq': 'eq'}[o] if flipped else o
        val = {p: 'gt' for p in ps}   # other comparisons (r vs rcut): irrelevant for the core
        val[key] = o2
        return P.at(term, val)
    return key in ps, at


def rule_core(ctx, rule='R03.d'):
    """hard-core family: the overlap value on r<sigma and r==sigma, a finite tail (no overlap value) on r>sigma"""
    n = 0
    for cls in potential_classes(ctx.prog):
        if not any(c.name in SPEC.HARD_CORE_FAMILY for c in cls.mro()):
            continue
        f = cls.find_method('calculate')
        try:
            w = run_potential(ctx.prog, cls, {})
            term = w['res'].t
        except (Unsupported, Raised) as e:
            ctx.undecided(rule, cls.qualname, str(e), f.loc())
            continue
        n += 1
        has, at = _core_leaves(term, N.reg(R), N.reg(S))
        bad = []
        if not has:
            bad.append('no comparison of r with sigma defines a core')
        else:
            for o in ('lt', 'eq'):
                if not at(o).equals(SPEC.high):
                    bad.append('at r %s sigma the value is %s, not the overlap value'
                               % ({'lt': '<', 'eq': '=='}[o], N.show(at(o))))
            if 'high_value' in at('gt').symbols():
                bad.append('outside the core (r > sigma) the value still contains the overlap value: %s' % N.show(at('gt')))
        if bad:
            ctx.violation(rule, cls.qualname, 'core-region', '; '.join(bad), f.loc())
        else:
            ctx.holds(rule, cls.qualname, 'overlap value exactly on r<sigma and r==sigma; finite tail on r>sigma',
                      f.loc(), sample={'class': cls.name, 'r<sigma': N.show(at('lt')), 'r==sigma': N.show(at('eq')),
                                       'r>sigma': N.show(at('gt'))})
    ctx.floor(rule, n, 3, 'hard-core potentials')


def rule_core_infinite(ctx, rule='R10.i'):
    """high_value ranges over all floats, +infinity included (the genuinely hard core the parameter approximates): with
    IEEE-754 rules for the symbol (0*inf, inf-inf are NaN) the tail outside sigma is still NaN-free and finite and the core is
    +infinity.  `high_value*(r<=sigma)` equals `np.where(r>sigma,0,high_value)` for every finite value only."""
    n = 0
    for cls in potential_classes(ctx.prog):
        if not any(c.name in SPEC.HARD_CORE_FAMILY for c in cls.mro()):
            continue
        init = cls.find_method('__init__')
        if init is None or 'high_value' not in init.params:
            continue
        f = cls.find_method('calculate')
        try:
            ip = Interp(ctx.prog)
            ip.inf_syms = frozenset(['high_value'])
            kw = {}
            for p in init.params:
                if p != 'self':
                    ip.declare(p)
                    kw[p] = Num(N.sym(p))
            ip.declare('r', 'curve')
            o = ip.construct(cls, [], kw)
            term = ip.call(ip.find_method(o, 'calculate'), [Arr(R, 'r', ip)], {}).t
            fin = run_potential(ctx.prog, cls, {})['res'].t
        except (Unsupported, Raised) as e:
            ctx.undecided(rule, cls.qualname, 'high_value=+inf: %s' % e, f.loc())
            continue
        n += 1
        has, at = _core_leaves(term, N.reg(R), N.reg(S))
        hasf, atf = _core_leaves(fin, N.reg(R), N.reg(S))
        bad = []
        if not has or not hasf:
            bad.append('no comparison of r with sigma defines a core')
        else:
            tail = at('gt')
            syms = tail.symbols()
            if 'NaN' in syms:
                bad.append('outside the core the value is NaN (0*inf or inf-inf in the evaluation: %s)' % N.show(tail))
            elif 'MaybeNaN' in syms:
                ctx.undecided(rule, cls.qualname, 'high_value=+inf: cannot tell whether %s is NaN' % N.show(tail), f.loc())
                continue
            elif not tail.equals(atf('gt')):
                bad.append('outside the core the value is %s for an infinite overlap value, %s for a finite one' % (
                    N.show(tail), N.show(atf('gt'))))
            for o_ in ('lt', 'eq'):
                if not at(o_).equals(SPEC.high):
                    bad.append('at r %s sigma the value is %s, not +infinity' % ({'lt': '<', 'eq': '=='}[o_], N.show(at(o_))))
        if bad:
            ctx.violation(rule, cls.qualname, 'infinite-core', 'high_value=+inf: ' + '; '.join(bad), f.loc())
        else:
            ctx.holds(rule, cls.qualname, 'with high_value=+inf (IEEE rules) the tail is the finite-value tail and the core is +inf',
                      f.loc())
    ctx.floor(rule, n, 3, 'hard-core potentials with a high_value parameter')


def rule_flag_truthiness(ctx, rule='R10.f'):
    """a boolean option acts through its truth value: passed as numpy.bool_ (what a numpy comparison such as
    `eps.min() > 0` yields) it gives the potential it gives for the Python literal of the same truth value"""
    n = 0
    for cls in potential_classes(ctx.prog):
        f = cls.find_method('calculate')
        params, vals = valuations(cls)
        flags = sorted({p for v in vals for p, x in v.items() if x is True or x is False})
        for p_ in flags:
            for val in vals:
                if val.get(p_) not in (True, False):
                    continue
                alt = dict(val)
                alt[p_] = 'np.True_' if val[p_] else 'np.False_'
                tag = '%s with %s=numpy.bool_(%s)' % (_valname(val), p_, val[p_])
                try:
                    t0 = run_potential(ctx.prog, cls, val)['res'].t
                    t1 = run_potential(ctx.prog, cls, alt)['res'].t
                except (Unsupported, Raised) as e:
                    ctx.undecided(rule, cls.qualname, '%s: %s' % (tag, e), f.loc())
                    continue
                n += 1
                d, _ = P.compare(t0, t1)
                if d:
                    ev, a_, b_ = d[0]
                    ctx.violation(rule, cls.qualname, 'flag-truthiness:%s:%s' % (p_, _valname(val)),
                                  '%s: u(r) is %s, with the Python literal it is %s%s' % (
                                      tag, N.show(b_)[:120], N.show(a_)[:120], (' (where %s)' % P.show_val(ev)) if ev else ''), f.loc())
                else:
                    ctx.holds(rule, cls.qualname, '%s: same u(r) as with the Python literal' % tag, f.loc(), key=tag)
    ctx.floor(rule, n, 4, 'potential flag valuations re-run with a numpy boolean')


def rule_cut_shift(ctx, rule='R10.k'):
    """LennardJones: exactly zero beyond r_cut; continuous at r_cut when shifted"""
    n = 0
    cls = ctx.prog.cls('pyPRISM.potential.LennardJones::LennardJones')
    f = cls.find_method('calculate')
    rc = N.sym('rcut')
    for shift in (False, True):
        val = {'rcut': 'sym', 'shift': shift}
        try:
            w = run_potential(ctx.prog, cls, val)
            term = w['res'].t
        except (Unsupported, Raised) as e:
            ctx.undecided(rule, cls.qualname, '%s: %s' % (_valname(val), e), f.loc())
            continue
        n += 1
        has, at = _core_leaves(term, N.reg(R), N.reg(rc))
        bad = []
        if not has:
            bad.append('no comparison of r with rcut')
        else:
            if not at('gt').is_zero():
                bad.append('beyond r_cut the value is %s, not exactly 0' % N.show(at('gt')))
            inner = at('lt')
            if not at('eq').equals(inner) and not at('eq').is_zero():
                bad.append('value at r == rcut is neither the inner branch nor 0')
            if shift:
                lim = N.subs(inner, {'r': rc})
                if not lim.is_zero():
                    bad.append('shifted potential is discontinuous at r_cut: inner branch -> %s' % N.show(lim))
                at_eq = N.subs(at('eq'), {'r': rc})
                if not at_eq.is_zero():
                    bad.append('value at r == rcut is %s, not 0' % N.show(at_eq))
        if bad:
            ctx.violation(rule, cls.qualname, 'cut:' + _valname(val), '; '.join(bad), f.loc())
        else:
            ctx.holds(rule, cls.qualname, '%s: 0 beyond r_cut%s' % (_valname(val), '; inner branch -> 0 at r_cut' if shift else ''),
                      f.loc(), key=_valname(val))
    ctx.floor(rule, n, 2, 'LennardJones cut valuations')


def rule_wca(ctx, rule='R10.w'):
    """WCA: inner branch == eps(2(sigma/r)^6-1)^2 (non-negative for eps>=0, zero at the cut);
    rcut == 2^(1/6) sigma recomputed from the current sigma on every call"""
    cls = ctx.prog.cls('pyPRISM.potential.WeeksChandlerAndersen::WeeksChandlerAndersen')
    f = cls.find_method('calculate')
    w = run_potential(ctx.prog, cls, {}, twice=True)
    term = w['res'].t
    ps, fs = P.conds(term)
    bad = []
    want = P.Cond.cmp('>', R, SPEC.WCA_RCUT)
    wp, _ = want.pairs()
    if ps != wp:
        bad.append('cut is not at 2^(1/6) sigma: mask compares %s'
                   % [(N.show(N.nf_from_key(a)), N.show(N.nf_from_key(b))) for a, b in ps])
    else:
        (key,) = ps
        inner = [P.at(term, {key: o}) for o in ('lt', 'eq', 'gt')]
        ref = [P.at(P.ite(want, N.NF.const(0), SPEC.WCA_SQUARE), {key: o}) for o in ('lt', 'eq', 'gt')]
        for o, a, b in zip(('lt', 'eq', 'gt'), inner, ref):
            if not a.equals(b):
                # at r == rcut both 0 and the square (which vanishes there) are acceptable
                if o == 'eq' and (a.is_zero() or N.subs(a, {'r': SPEC.WCA_RCUT}).is_zero()):
                    continue
                bad.append('ordering %s: %s is not the perfect square %s' % (o, N.show(a), N.show(b)))
    # (that the cut follows a *later* change of sigma is decided semantically by R10.h, not by looking for a re-binding)
    if bad:
        ctx.violation(rule, cls.qualname, 'wca', '; '.join(bad), f.loc())
    else:
        ctx.holds(rule, cls.qualname, 'inner branch is eps*(2(sigma/r)^6-1)^2 (perfect-square certificate), 0 beyond '
                  '2^(1/6) sigma, rcut recomputed per call', f.loc(),
                  sample={'extracted': P.show(term), 'certificate': N.show(SPEC.WCA_SQUARE)})


def rule_purity(ctx, rule='R10.p'):
    """no write to r, result fresh, attribute writes idempotent, second evaluation gives the same term"""
    n = 0
    for cls in potential_classes(ctx.prog):
        f = cls.find_method('calculate')
        params, vals = valuations(cls)
        for val in vals:
            try:
                def run(preset, cls=cls, val=val):
                    w_ = run_potential(ctx.prog, cls, val, twice=True, preset=preset)
                    return w_['ip'], w_
                worlds = [w_ for d_, ip_, w_ in explore(run)]
            except (Unsupported, Raised) as e:
                ctx.undecided(rule, cls.qualname, '%s: %s' % (_valname(val), e), f.loc())
                continue
            n += 1
            bad = []
            for w in worlds:
                _purity_of(w, bad)
            if bad:
                ctx.violation(rule, cls.qualname, 'purity:' + _valname(val), '; '.join(sorted(set(bad))), f.loc())
            else:
                ctx.holds(rule, cls.qualname, '%s: r untouched, fresh result, pointwise, repeat evaluation identical'
                          % _valname(val), f.loc(), key=_valname(val))
    ctx.floor(rule, n, 8, 'potential purity obligations')


def _purity_of(w, bad):
    if True:
        if True:
            if isinstance(w['res'], Arr) and w['res'] is w['res2']:
                bad.append('two evaluations return the same array object (a buffer kept on the potential): the array the caller '
                           'got from the first evaluation is overwritten by the second')
            for e in w['events'] + w['events2']:
                if e['kind'] == 'write':
                    bad.append('in-place write to %s at %s (%s)' % (e['target'], e['loc'], e.get('via')))
                elif e['kind'] == 'unknown-call':
                    bad.append('unknown call %s' % e['target'])
                elif e['kind'] == 'dtype-cast' and e['target'] == 'r':
                    bad.append('the result buffer is allocated with the dtype of r (np.*_like(r) without dtype) and filled by a '
                               'store at %s: on an integer grid (e.g. Domain(dr=1)) the potential is truncated to integers' % e['loc'])
            for res in (w['res'], w['res2']):
                if res is w['r'] or getattr(res, 'base', None) is w['r']:
                    bad.append('returned array is r itself (or a view of it)')
                elif isinstance(res, Arr) and not res.fresh:
                    bad.append('returned array is stored state %s' % res.origin)
            diffs, _ = P.compare(w['res'].t, w['res2'].t)
            if diffs:
                bad.append('second evaluation differs from the first: %s' % P.show(w['res2'].t))
            syms = set()
            for leaf in P.leaves(w['res'].t):
                for a in leaf.all_atoms():
                    if a[0] == 'fn' and a[1] not in ('log', 'sin', 'cos', 'abs'):
                        bad.append('non-pointwise operator %s' % N.show_atom(a))


def rule_contact(ctx, rule='R10.t'):
    """a grid point that coincides with sigma (to the tolerance of the system check) must be inside the
    core: an exact float comparison of the grid with sigma cannot guarantee that"""
    n = 0
    forms = {}
    for cls in potential_classes(ctx.prog):
        if not any(c.name in SPEC.HARD_CORE_FAMILY for c in cls.mro()):
            continue
        f = cls.find_method('calculate')
        try:
            w = run_potential(ctx.prog, cls, {})
            term = w['res'].t
        except (Unsupported, Raised) as e:
            ctx.undecided(rule, cls.qualname, str(e), f.loc())
            continue
        ps, fs = P.conds(term)
        for a, b in ps:
            ta, tb = N.nf_from_key(a), N.nf_from_key(b)
            if 'r' not in (ta.symbols() | tb.symbols()):
                continue
            n += 1
            d = ta - tb
            exact = d.equals(R - S) or d.equals(S - R)
            forms[cls.qualname] = 'exact' if exact else N.show(d)
            if exact:
                ctx.violation(rule, cls.qualname, 'Cmp(r,sigma)',
                              'core mask compares the grid with sigma exactly; with r_i=(i+1)dr in floating point a grid '
                              'point the system check calls "on the grid" can fall outside the core '
                              '(e.g. dr=0.1, sigma=0.3: r[2]=0.30000000000000004 > sigma)', f.loc())
            else:
                ctx.holds(rule, cls.qualname, 'core comparison carries a tolerance term: %s' % N.show(d), f.loc())
    if len(set(forms.values())) > 1:
        ctx.violation(rule, 'hard-core family', 'inconsistent-contact', 'core comparisons differ between potentials: %s' % forms)
    ctx.floor(rule, n, 3, 'core-mask comparison sites in hard-core potentials')


# ---------------------------------------------------------------------------------------------
# R10.h  evaluation histories
# ---------------------------------------------------------------------------------------------
def _build(prog, cls, val, ip, sigma_sym='sigma'):
    params, _ = valuations(cls)
    kw = {}
    for p in params:
        if p in val:
            v = val[p]
            kw[p] = NONE if v is None else (Const(v) if v is True or v is False else Num(ip.declare(p)))
        else:
            kw[p] = Num(ip.declare(p))
    if 'sigma' in kw and sigma_sym != 'sigma':
        kw['sigma'] = Num(ip.declare(sigma_sym))
    o = ip.construct(cls, [], kw)
    o.origin = 'self'
    return o


def _hist_run(prog, cls, val, mode, preset):
    ip = Interp(prog)
    ip.preset = list(preset)
    for s_ in ('r', 'r1', 'junk'):
        ip.declare(s_, 'curve')
    calc = lambda o, arr: ip.call(ip.find_method(o, 'calculate'), [arr], {})
    if mode == 'fresh':
        o = _build(prog, cls, val, ip)
        res = calc(o, Arr(R, 'r', ip))
    elif mode == 'sigma-reassigned':     # evaluated, then the contact distance is changed (diameter sweep), evaluated again
        o = _build(prog, cls, val, ip, sigma_sym='sigma1')
        calc(o, Arr(R, 'r_first_call', ip))
        ip.set_attr(o, 'sigma', Num(S), None)
        res = calc(o, Arr(R, 'r', ip))
    elif mode == 'other-grid-before':
        o = _build(prog, cls, val, ip)
        calc(o, Arr(N.sym('r1'), 'r_first_call', ip))
        res = calc(o, Arr(R, 'r', ip))
    elif mode == 'result-mutated':
        o = _build(prog, cls, val, ip)
        r1 = calc(o, Arr(R, 'r_first_call', ip))
        if isinstance(r1, Arr):
            r1.t = N.sym('junk')
        res = calc(o, Arr(R, 'r', ip))
    elif mode == 'copy-then-original-modified':
        # what PairTable.__setitem__ and PRISM.__init__ do: the object in use is a deep copy of the caller's; the caller
        # then re-uses its own object with other parameters (deepcopy does not copy function objects: a lambda that reads
        # `self` keeps reading the *original*)
        tmpl = _build(prog, cls, val, ip)
        o = ip.lib.deepcopy(ip, [tmpl], {}, None)
        o.origin = 'self'
        for k_, v_ in list(tmpl.attrs.items()):
            if isinstance(v_, Num) and not (P.is_pw(v_.t)):
                ip.set_attr(tmpl, k_, Num(ip.declare('changed_' + k_)), None)
        res = calc(o, Arr(R, 'r', ip))
    else:
        raise AssertionError(mode)
    return ip, {'res': res, 'obj': o}


def rule_history(ctx, rule='R10.h'):
    """u(r) returned by calculate depends only on r and the *current* parameters: after an evaluation with another
    sigma (the contact distance is re-assigned in diameter sweeps and defaulted by PRISM.__init__), on another grid,
    or after the caller edited the array it got back, the value is the term a freshly constructed potential returns"""
    from ..interp import explore
    n = 0
    for cls in potential_classes(ctx.prog):
        f = cls.find_method('calculate')
        params, vals = valuations(cls)
        for val in vals:
            tag = _valname(val)
            try:
                (_, ipf, rf), = explore(lambda preset: _hist_run(ctx.prog, cls, val, 'fresh', preset))[:1]
                tf = rf['res'].t
            except (Unsupported, Raised, ValueError) as e:
                ctx.undecided(rule, cls.qualname, '%s: fresh evaluation: %s' % (tag, e), f.loc())
                continue
            bad, und, paths = [], [], 0
            for mode in ('sigma-reassigned', 'other-grid-before', 'result-mutated', 'copy-then-original-modified'):
                try:
                    worlds = explore(lambda preset: _hist_run(ctx.prog, cls, val, mode, preset))
                except (Unsupported, Raised) as e:
                    und.append('%s: %s' % (mode, e))
                    continue
                for dec, ip, r in worlds:
                    paths += 1
                    t = r['res'].t if isinstance(r['res'], (Arr, Num)) else None
                    if t is None:
                        und.append('%s: result is not an array term' % mode)
                        continue
                    diffs, _ = P.compare(t, tf)
                    if diffs:
                        v, a, b = diffs[0]
                        bad.append('history "%s": where %s the value is %s, a fresh potential gives %s'
                                   % (mode, P.show_val(v), N.show(a)[:120], N.show(b)[:120]))
            n += 1
            if bad:
                ctx.violation(rule, cls.qualname, 'history:' + tag, '%s: %s' % (tag, '; '.join(bad[:2])), f.loc())
            elif und:
                ctx.undecided(rule, cls.qualname, '%s: %s' % (tag, und[0]), f.loc())
            else:
                ctx.holds(rule, cls.qualname, '%s: re-evaluation after sigma re-assignment / on another grid / after the result was '
                          'edited, and evaluation of a deep copy after the original was re-parameterised, equal a fresh potential '
                          '(%d paths)' % (tag, paths), f.loc(), key=tag)
    ctx.floor(rule, n, 8, 'potential history obligations')
