"""Semantic rule R16.v -- the wiring done by PRISM.__init__, decided by abstract execution of the *real* classes.

The symbolic rule R16.w runs the pair loop of the constructor once, for a symbolic pair; state carried from one pair to
the next (a dictionary of already tabulated potentials, a memo of evaluated omegas) is invisible to it.  Here a real System
over the concrete types ['S','C'] (not in alphabetical order) is built from real potential, closure and omega objects with symbolic parameters, the
real PRISM constructor is executed, and for every pair

    closure[a,b].potential == (the potential object the user stored for that pair).calculate(domain.r) / kT
                              with sigma = (d_a+d_b)/2 exactly when the potential was stored without a sigma,
    closure[a,b].sigma     == (d_a+d_b)/2,
    omega[a,b](k)          == (the omega object stored for that pair).calculate(domain.k) * site density,

where the right-hand sides come from deep copies of the stored objects evaluated outside the constructor.  Scenarios: the
potentials of all pairs agree in class, sigma and epsilon but differ in a further parameter; all potentials are copies of
one prototype without sigma over unequal diameters; and a second PRISM object built from the same System after its domain
spacing and a diameter were changed, compared with a System that never saw a constructor.
"""
from .. import nf as N
from .. import pw as P
from .. import worlds as W
from ..interp import Interp, Arr, View, Const, Num, Seq, Obj, Unsupported, Raised, NONE, explore
from ..model import AnalysisError
from .density_sem import label

SYSQ = 'pyPRISM.core.System::System'
PRISMQ = 'pyPRISM.core.PRISM::PRISM'
# deliberately NOT in alphabetical order: the arrays of the PRISM object are combined position by position, so every table
# has to be laid out in the order of System.types, not in some canonical order of the labels
LABELS = ('S', 'C')
PAIRS = (('S', 'S'), ('S', 'C'), ('C', 'C'))


def _cls(prog, name):
    cs = prog.classes_named(name)
    if not cs:
        raise Unsupported('class %s not found in the package' % name)
    return cs[0]


def _setitem(ip, tbl, key, val):
    m = ip.find_method(tbl, '__setitem__')
    if m is None:
        raise AnalysisError('%s.__setitem__ vanished' % tbl.clsname)
    ip.call(m, [key, val], {})


def _getitem(ip, tbl, a, b):
    m = ip.find_method(tbl, '__getitem__')
    if m is None:
        raise AnalysisError('%s.__getitem__ vanished' % tbl.clsname)
    return ip.call(m, [Seq([label(a), label(b)])], {})


def grid_domain(ip, cfg, dom=None):
    """a Domain whose grids are opaque arrays r<cfg>, k<cfg> over one common number of points (the transforms are not
    needed by the constructor).  With `dom` given, that Domain object is re-spaced in place the way its dr setter does it:
    same object, new grid arrays."""
    from ..interp import View
    cls = ip.prog.cls('pyPRISM.core.Domain::Domain')
    ip.len_alias = dict(getattr(ip, 'len_alias', {}) or {})
    for nm in ('r', 'k'):
        ip.declare(nm + cfg, 'curve')
        ip.len_alias[nm + cfg] = 'grid'
    N.declare_int('len(grid)')
    ip.sym_kind.setdefault('len(grid)', 'scalar')
    r = Arr(N.sym('r' + cfg), 'domain.r', ip)
    k = Arr(N.sym('k' + cfg), 'domain.k', ip)
    attrs = {'_dr': Num(ip.declare('dr' + cfg)), '_dk': Num(ip.declare('dk' + cfg)), '_length': Num(N.sym('len(grid)')), 'r': r, 'k': k,
             'long_r': View(r, ('reshape', 'col3', None)),
             'DST_II_coeffs': Arr(2 * N.PI * N.sym('r' + cfg) * N.sym('dr' + cfg), 'domain.DST_II_coeffs', ip),
             'DST_III_coeffs': Arr(N.sym('k' + cfg) * N.sym('dk' + cfg) / (4 * N.PI * N.PI), 'domain.DST_III_coeffs', ip)}
    if dom is None:
        return Obj(cls, attrs, 'domain')
    dom.attrs.update(attrs)
    return dom


def make_system(ip, scenario, cfg=''):
    """a fully specified two-component System; cfg tags the symbols that a later re-configuration replaces"""
    prog = ip.prog
    sysobj = ip.construct(prog.cls(SYSQ), [Seq([label(x) for x in LABELS], 'list')], {'kT': Num(ip.declare('kT'))})
    ip.set_attr(sysobj, 'domain', grid_domain(ip, cfg), None)
    for l in LABELS:
        _setitem(ip, ip.get_attr(sysobj, 'density', None), label(l), Num(ip.declare('rho_%s' % l)))
        _setitem(ip, ip.get_attr(sysobj, 'diameter', None), label(l), Num(ip.declare('d_%s%s' % (l, cfg if l == LABELS[0] else ''))))
    pot, clo, om = ip.get_attr(sysobj, 'potential', None), ip.get_attr(sysobj, 'closure', None), ip.get_attr(sysobj, 'omega', None)
    proto = ip.construct(_cls(prog, 'WeeksChandlerAndersen'), [], {'epsilon': Num(ip.declare('eps'))})
    for i, (a, b) in enumerate(PAIRS):
        key = Seq([label(a), label(b)])
        if scenario == 'other-parameter':
            # same class, same sigma, same epsilon for every pair; the decay length differs
            u = ip.construct(_cls(prog, 'Exponential'), [], {
                'epsilon': Num(ip.declare('eps')), 'alpha': Num(ip.declare('alpha_%s%s' % (a, b))), 'sigma': Num(ip.declare('sig'))})
        elif scenario == 'prototype':
            u = proto        # ONE object without a sigma, assigned pair by pair (the table stores a copy per pair)
        else:
            raise AnalysisError('unknown scenario ' + scenario)
        _setitem(ip, pot, key, u)
        _setitem(ip, clo, key, ip.construct(_cls(prog, 'PercusYevick'), [], {}))
        # an omega object of the abstract base class: its calculate(k) is an uninterpreted function of the pair it was made
        # for and of the grid it is given, and leaves the result in .value like every omega class of the package does
        w = Obj(_cls(prog, 'Omega'), {'_made_for': Const('%s%s' % (a, b))}, None)
        _setitem(ip, om, key, w)
    return sysobj


def _omega_calculate(ip, o, args, kwargs, node):
    grid, _ = ip.term_of(args[0], node)
    if P.is_pw(grid):
        raise Unsupported('piecewise k grid', node)
    tag = o.attrs['_made_for'].v
    ip.sym_kind.setdefault('omega_' + tag, 'scalar')      # an opaque parameter of that omega object
    val = ip.fresh_array(N.fn('omegafn', N.sym('omega_' + tag), grid))
    o.attrs['value'] = val
    return val


def expected(ip, sysobj):
    """what the constructor has to produce for this System, from deep copies of the stored objects"""
    out = {}
    dom = ip.get_attr(sysobj, 'domain', None)
    r, k = ip.get_attr(dom, 'r', None), ip.get_attr(dom, 'k', None)
    kT, _ = ip.term_of(ip.get_attr(sysobj, 'kT', None))
    dens = ip.get_attr(sysobj, 'density', None)
    for a, b in PAIRS:
        da = ip.term_of(_value(ip, ip.get_attr(sysobj, 'diameter', None), a))[0]
        db = ip.term_of(_value(ip, ip.get_attr(sysobj, 'diameter', None), b))[0]
        contact = (da + db) / 2
        u = ip.lib.deepcopy(ip, [_getitem(ip, ip.get_attr(sysobj, 'potential', None), a, b)], {}, None)
        sg = ip.get_attr(u, 'sigma', None)
        if isinstance(sg, Const) and sg.v is None:
            ip.set_attr(u, 'sigma', Num(contact), None)
        ut = ip.term_of(ip.call(ip.find_method(u, 'calculate'), [r], {}))[0]
        o = ip.lib.deepcopy(ip, [_getitem(ip, ip.get_attr(sysobj, 'omega', None), a, b)], {}, None)
        ot = ip.term_of(ip.call(ip.find_method(o, 'calculate'), [k], {}))[0]
        ra = ip.term_of(_value(ip, dens, a))[0]
        rb = ip.term_of(_value(ip, dens, b))[0]
        out[(a, b)] = {'potential': P.lift1(lambda x: x / kT, ut) if P.is_pw(ut) else ut / kT, 'sigma': contact,
                       'omega': P.lift1(lambda x: x * (ra if a == b else ra + rb), ot) if P.is_pw(ot) else ot * (ra if a == b else ra + rb)}
    return out


def _value(ip, tbl, l):
    m = ip.find_method(tbl, '__getitem__')
    v = ip.call(m, [label(l)], {})
    if isinstance(v, Seq) and len(v.items) == 1:
        v = v.items[0]
    return v


def _attr(ip, o, name):
    """attribute as the package itself would read it (plain attribute, property, class default); None when absent"""
    try:
        return ip.get_attr(o, name, None)
    except Raised:
        return None


def observed(ip, prism):
    psys = prism.attrs.get('sys')
    if not (isinstance(psys, Obj) and psys.isa('System')):
        raise Unsupported('PRISM.sys is %r' % (psys,))
    om = prism.attrs.get('omega')
    if not (isinstance(om, Obj) and om.isa('MatrixArray') and isinstance(om.attrs.get('data'), Arr)):
        raise Unsupported('PRISM.omega is %r' % (om,))
    out = {}
    pdom = ip.get_attr(psys, 'domain', None)
    out['grid'] = tuple(ip.term_of(ip.get_attr(pdom, nm, None))[0] for nm in ('r', 'k')) if isinstance(pdom, Obj) else None
    for a, b in PAIRS:
        c = _getitem(ip, ip.get_attr(psys, 'closure', None), a, b)
        cp, cs = _attr(ip, c, 'potential'), _attr(ip, c, 'sigma')
        i, j = LABELS.index(a), LABELS.index(b)
        out[(a, b)] = {'potential': ip.term_of(cp)[0] if isinstance(cp, (Arr, View, Num)) else None,
                       'sigma': ip.term_of(cs)[0] if isinstance(cs, (Arr, View, Num)) else None,
                       'omega': ip.read_cell(om.attrs['data'], i, j), 'omega_T': ip.read_cell(om.attrs['data'], j, i)}
    return out


def _diff(got, want, what):
    bad = []
    for pair in PAIRS:
        for k_ in ('potential', 'sigma', 'omega'):
            g, w = got[pair][k_], want[pair][k_]
            if g is None or P.compare(g, w)[0]:
                bad.append('%s: %s of pair %s-%s is %s, expected %s' % (
                    what, {'potential': 'closure.potential', 'sigma': 'closure.sigma', 'omega': 'omega'}[k_], pair[0], pair[1],
                    (P.show(g)[:110] if g is not None else 'not set'), P.show(w)[:110]))
        g, w = got[pair]['omega_T'], want[pair]['omega']
        if g is None or P.compare(g, w)[0]:
            bad.append('%s: omega[%s,%s] (mirrored entry) is %s, expected %s' % (what, pair[1], pair[0],
                                                                               P.show(g)[:110] if g is not None else 'not set', P.show(w)[:110]))
    return bad


def _snapshot(ip, root):
    """{cell id: printable contents} of everything reachable from a value"""
    from .prism import reachable
    heap = reachable(root)
    snap = {}
    for a in heap['arr']:
        snap[('a', a.aid)] = (P.show(a.t), tuple(sorted((k_, P.show(v_)) for k_, v_ in (a.cells or {}).items())))
    for o in heap['obj']:
        for k_, v_ in o.attrs.items():
            if isinstance(v_, Num):
                snap[('o', o.oid, k_)] = P.show(v_.t)
            elif isinstance(v_, Const):
                snap[('o', o.oid, k_)] = repr(v_.v)
            elif isinstance(v_, (Obj, Arr)):
                snap[('o', o.oid, k_)] = ('ref', getattr(v_, 'oid', None) or getattr(v_, 'aid', None))
    return heap, snap


def verdict(prog):
    """(violations, undecided) of all scenarios -- used by R16.w / R16.c when their own extraction does not apply"""
    key = id(prog)
    if key not in _VERDICT:
        bad, und = [], []
        for scenario, history in SCENARIOS:
            try:
                for dec, ip, r in explore(lambda preset: run(prog, scenario, preset, history), keep_raised=True):
                    bad += ['constructor raises %s' % r.exc] if ip is None else r
            except Unsupported as e:
                und.append(str(e))
        _VERDICT.clear()
        _VERDICT[key] = (bad, und)
    return _VERDICT[key]


_VERDICT = {}
SCENARIOS = (('prototype', True), ('other-parameter', True))


def run(prog, scenario, preset, history):
    ip = Interp(prog)
    ip.preset = list(preset)
    ip.natives[('Omega', 'calculate')] = _omega_calculate
    ip.natives[('shape', '__getitem__')] = ip.lib.shape_getitem
    sysobj = make_system(ip, scenario)
    want = expected(ip, sysobj)
    heap0, snap0 = _snapshot(ip, sysobj)
    prism = ip.construct(prog.cls(PRISMQ), [sysobj], {})
    obs1 = observed(ip, prism)
    bad = _diff(obs1, want, 'first PRISM object')
    # isolation: the constructor leaves the caller's System as it found it and keeps no mutable part of it
    heap1, snap1 = _snapshot(ip, sysobj)
    changed = sorted(str(k_) for k_ in snap0 if snap1.get(k_) != snap0[k_])
    if changed:
        bad.append('constructing a PRISM object modifies the caller\'s System (%d cell(s)/attribute(s) differ afterwards, e.g. %s)'
                   % (len(changed), _where(heap0, changed[0])))
    from .prism import reachable
    mine = reachable(prism)
    shared = [a for a in mine['arr'] if any(a is b for b in heap0['arr'])]
    shared_o = [o for o in mine['obj'] if any(o is b for b in heap0['obj']) and not (o.cls == 'dict' and not o.attrs.get('items'))]
    if shared or shared_o:
        bad.append('the PRISM object keeps %d array(s) and %d object(s) of the caller\'s System (e.g. %s): later changes to the '
                   'System show through' % (len(shared), len(shared_o), (shared_o[0].clsname if shared_o else 'an array')))
    if history:
        # the same System is re-configured in place (sys.domain.dr = ..., sys.diameter['A'] = ...) and a
        # second PRISM object is built from it; the reference is a System that no constructor ever touched
        grid_domain(ip, '_2', dom=ip.get_attr(sysobj, 'domain', None))
        _setitem(ip, ip.get_attr(sysobj, 'diameter', None), label(LABELS[0]), Num(ip.declare('d_%s_2' % LABELS[0])))
        twin = make_system(ip, scenario, cfg='_2')
        want2 = expected(ip, twin)
        prism2 = ip.construct(prog.cls(PRISMQ), [sysobj], {})
        bad += _diff(observed(ip, prism2), want2, 'second PRISM object built from the same System after dr and the diameter of S '
                                                  'were changed')
        obs1b = observed(ip, prism)
        bad += _diff(obs1b, want, 'first PRISM object, after the System was re-configured and used again')
        if obs1['grid'] is None or obs1b['grid'] is None or any(P.compare(x, y)[0] for x, y in zip(obs1['grid'], obs1b['grid'])):
            bad.append('the grid of the first PRISM object (PRISM.sys.domain.r / .k) changes when the caller re-spaces the domain of '
                       'the System it was built from: the object does not own its Domain')
    return ip, bad


def _where(heap, key):
    return key


def rule_wiring_concrete(ctx, rule='R16.v'):
    cls = ctx.prog.cls(PRISMQ)
    m = cls.find_method('__init__')
    construct = PRISMQ + '.__init__'
    n = 0
    for scenario, history in SCENARIOS:
        tag = '%s%s' % (scenario, '+reuse' if history else '')
        try:
            worlds = explore(lambda preset: run(ctx.prog, scenario, preset, history), keep_raised=True)
        except Unsupported as e:
            ctx.undecided(rule, construct, '%s: %s' % (tag, e), m.loc())
            continue
        bad = []
        for dec, ip, r in worlds:
            if ip is None:
                bad.append('constructor raises %s (%s) for a fully specified two-component System' % (r.exc, (r.msg or '')[:80]))
            else:
                bad += r
        n += 1
        if bad:
            ctx.violation(rule, construct, 'wiring:' + tag, '%s: %s' % (tag, '; '.join(sorted(set(bad))[:3])), m.loc())
        else:
            ctx.holds(rule, construct, '%s: every pair\'s closure sees its own potential/kT and contact distance, omega is each '
                      'pair\'s own table entry on the current k grid times site density (%d path(s))' % (tag, len(worlds)), m.loc(), key=tag)
    ctx.floor(rule, n, 2, 'concrete PRISM construction scenarios (each: fresh System, then the same System re-configured and re-used)')
