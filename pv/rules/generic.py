"""R00.*: standing assumptions that are themselves checked on every run."""
import ast
import os
import warnings
from ..report import VERIF

_DYN_CALLS = ('setattr', 'exec', 'eval', 'delattr', 'globals', 'locals', 'vars', '__import__', 'compile')
_DYN_DEFS = ('__getattr__', '__getattribute__', '__setattr__', '__delattr__', '__new__', '__init_subclass__',
             '__class_getitem__')


def _literal_strings(e):
    """True when the expression is a literal whose iteration yields only string constants (a string, or a tuple / list of
    string constants)"""
    if isinstance(e, ast.Constant) and isinstance(e.value, str):
        return True
    if isinstance(e, (ast.Tuple, ast.List)):
        return bool(e.elts) and all(isinstance(x, ast.Constant) and isinstance(x.value, str) for x in e.elts)
    return False


def static_attribute_names(tree):
    """ids of the setattr/getattr calls whose attribute name is statically known: a string literal, or a loop variable of a
    `for` over a literal collection of strings (directly, or through zip(...) of such literals, position by position).  Such a
    call is an ordinary attribute access that the interpreter executes; only *computed* names defeat the attribute model."""
    ok = set()
    for fn in ast.walk(tree):
        if not isinstance(fn, (ast.FunctionDef, ast.AsyncFunctionDef)):
            continue
        literal_vars = set()
        stores = {}
        for n in ast.walk(fn):
            if isinstance(n, ast.Name) and isinstance(n.ctx, ast.Store):
                stores[n.id] = stores.get(n.id, 0) + 1
        for n in ast.walk(fn):
            if not isinstance(n, ast.For):
                continue
            it, tg = n.iter, n.target
            if isinstance(tg, ast.Name) and _literal_strings(it):
                literal_vars.add(tg.id)
            elif isinstance(it, ast.Call) and isinstance(it.func, ast.Name) and it.func.id == 'zip' and not it.keywords and \
                    isinstance(tg, ast.Tuple) and len(tg.elts) == len(it.args):
                for t_, a_ in zip(tg.elts, it.args):
                    if isinstance(t_, ast.Name) and _literal_strings(a_):
                        literal_vars.add(t_.id)
        literal_vars = {v for v in literal_vars if stores.get(v, 0) == 1}      # bound by that loop only
        for n in ast.walk(fn):
            if isinstance(n, ast.Call) and isinstance(n.func, ast.Name) and n.func.id in ('setattr', 'getattr', 'hasattr') and len(n.args) >= 2:
                nm = n.args[1]
                if (isinstance(nm, ast.Constant) and isinstance(nm.value, str)) or (isinstance(nm, ast.Name) and nm.id in literal_vars):
                    ok.add(id(n))
    return ok


def read_only_introspection(tree):
    """ids of `vars(x)` calls that are only *read*: `vars(x).values()/.items()/.keys()/.get(..)`, `for .. in vars(x)`, `.. in
    vars(x)`, `len(vars(x))`.  Reading the attribute dictionary does not change what attributes exist."""
    ok = set()
    parents = {}
    for n in ast.walk(tree):
        for c in ast.iter_child_nodes(n):
            parents[id(c)] = n
    for n in ast.walk(tree):
        if isinstance(n, ast.Call) and isinstance(n.func, ast.Name) and n.func.id == 'vars' and len(n.args) == 1:
            p = parents.get(id(n))
            if isinstance(p, ast.Attribute) and p.attr in ('values', 'items', 'keys', 'get', 'copy') and \
                    isinstance(parents.get(id(p)), ast.Call):
                ok.add(id(n))
            elif isinstance(p, (ast.For, ast.comprehension)) and p.iter is n:
                ok.add(id(n))
            elif isinstance(p, ast.Compare) and n in p.comparators:
                ok.add(id(n))
            elif isinstance(p, ast.Call) and isinstance(p.func, ast.Name) and p.func.id in ('len', 'list', 'sorted', 'dict'):
                ok.add(id(n))
    return ok


def dynamic_constructs(tree):
    out = []
    static_ok = static_attribute_names(tree) | read_only_introspection(tree)
    enum_names = {'Enum', 'IntEnum', 'Flag', 'IntFlag'}
    for n in ast.walk(tree):            # `parent = Enum` (the Python-2 fallback idiom of core/Space.py)
        if isinstance(n, ast.Assign) and isinstance(n.value, ast.Name) and n.value.id in enum_names:
            for t in n.targets:
                if isinstance(t, ast.Name):
                    enum_names.add(t.id)
    for n in ast.walk(tree):
        if isinstance(n, ast.Call) and isinstance(n.func, ast.Name) and n.func.id in _DYN_CALLS:
            if id(n) in static_ok:
                continue
            out.append((n.lineno, 'call of %s' % n.func.id))
        elif isinstance(n, ast.FunctionDef) and n.name in _DYN_DEFS:
            out.append((n.lineno, 'definition of %s' % n.name))
        elif isinstance(n, ast.ClassDef) and any(k.arg == 'metaclass' for k in n.keywords):
            out.append((n.lineno, 'metaclass on %s' % n.name))
        elif isinstance(n, ast.ClassDef) and any(ast.unparse(b).split('.')[-1] in enum_names for b in n.bases):
            # enumeration members are modelled as plain constants compared by identity/value: an enumeration that redefines
            # comparison, hashing or truth makes `space == Space.Real` mean something else
            for x in n.body:
                # (__eq__ / __ne__ are interpreted: Interp.enum_method)
                if isinstance(x, ast.FunctionDef) and x.name in ('__bool__', '__lt__', '__le__', '__gt__', '__ge__', '__contains__',
                                                                  '_missing_', '__getattr__'):
                    out.append((x.lineno, 'enumeration %s redefines %s' % (n.name, x.name)))
        elif isinstance(n, ast.Attribute) and n.attr in ('__dict__', '__class__') and isinstance(n.ctx, ast.Store):
            out.append((n.lineno, 'store to %s' % n.attr))
    return out


def rule_no_dynamic(ctx, rule='R00.dyn'):
    """assumption A1: no dynamic attribute machinery in the package (expected count zero), with a
    positive control that must match on every run"""
    fx = os.path.join(VERIF, 'selftest', 'fixtures', 'dynamic.py')
    with warnings.catch_warnings():
        warnings.simplefilter('ignore')
        ctl = dynamic_constructs(ast.parse(open(fx).read()))
    if len(ctl) < 4:
        ctx.undecided(rule, 'positive-control', 'the fixture with setattr/exec/eval/__getattr__ was not flagged (%d hits)' % len(ctl))
        return
    hits = []
    for m in ctx.prog.modules.values():
        for line, what in dynamic_constructs(m.tree):
            hits.append('%s:%d %s' % (m.relpath, line, what))
    if hits:
        ctx.undecided(rule, 'package', 'dynamic constructs invalidate the attribute/alias model: %s' % '; '.join(hits))
    else:
        ctx.holds(rule, 'package', 'no setattr/exec/eval/__getattr__/metaclass in %d modules (positive control: %d hits)'
                  % (len(ctx.prog.modules), len(ctl)), nontrivial=False)


# ---------------------------------------------------------------------------------------------------------------------
# R07.v: no store through a reshape()/ravel() of an array the function did not allocate
# ---------------------------------------------------------------------------------------------------------------------
_RESHAPERS = ('reshape', 'ravel')


def _is_existing_array_expr(e):
    """an expression that names existing storage (a parameter, an attribute chain, a subscript/transpose of one) rather
    than the fresh result of a computation"""
    while True:
        if isinstance(e, ast.Name):
            return True
        if isinstance(e, ast.Attribute):
            if e.attr == 'T':
                e = e.value
                continue
            e = e.value
            continue
        if isinstance(e, ast.Subscript):
            e = e.value
            continue
        return False


def _reshape_source(v):
    """for `E.reshape(..)`, `E.ravel()`, `np.reshape(E, ..)`, `np.ravel(E)`: the expression E, else None"""
    if isinstance(v, ast.Attribute) and v.attr == 'T':
        return _reshape_source(v.value)
    if isinstance(v, ast.Call) and isinstance(v.func, ast.Attribute) and v.func.attr in _RESHAPERS:
        base = v.func.value
        if isinstance(base, ast.Name) and base.id in ('np', 'numpy') and v.args:
            return v.args[0]
        return base
    return None


def reshape_stores(fn):
    """(line, name, source text) for every store through a name bound to a reshape/ravel of existing storage.
    numpy returns a *view* from reshape only when the strides allow it and silently a *copy* otherwise (a transposed,
    Fortran-ordered or sliced caller array): a store through the result may therefore never reach the array."""
    bound = {}
    hits = []
    for st in ast.walk(fn):
        if isinstance(st, ast.Assign) and len(st.targets) == 1 and isinstance(st.targets[0], ast.Name):
            src = _reshape_source(st.value)
            if src is not None and _is_existing_array_expr(src):
                bound[st.targets[0].id] = (st.lineno, ast.unparse(src))
            elif st.targets[0].id in bound and st.lineno > bound[st.targets[0].id][0]:
                pass    # re-binding is handled below by line order
    if not bound:
        return hits
    rebinds = {}
    for st in ast.walk(fn):
        if isinstance(st, ast.Assign):
            for t in st.targets:
                if isinstance(t, ast.Name) and t.id in bound and _reshape_source(st.value) is None:
                    rebinds.setdefault(t.id, []).append(st.lineno)
    for st in ast.walk(fn):
        tgt = None
        if isinstance(st, ast.Assign):
            for t in st.targets:
                if isinstance(t, ast.Subscript) and isinstance(t.value, ast.Name):
                    tgt = t.value.id
        elif isinstance(st, ast.AugAssign):
            t = st.target
            if isinstance(t, ast.Subscript) and isinstance(t.value, ast.Name):
                tgt = t.value.id
            elif isinstance(t, ast.Name):
                tgt = t.id
        elif isinstance(st, ast.Call):
            for k in st.keywords:
                if k.arg == 'out' and isinstance(k.value, ast.Name):
                    tgt = k.value.id
                    st = k.value
        if tgt in bound and getattr(st, 'lineno', 0) > bound[tgt][0] and \
                not any(bound[tgt][0] < ln <= st.lineno for ln in rebinds.get(tgt, ())):
            hits.append((st.lineno, tgt, bound[tgt][1]))
    return sorted(set(hits))


_RESHAPE_CONTROL = '''
def f(marray, dom):
    pairs = marray.data.reshape((marray.length, -1))
    pairs[:] = dom.to_fourier(pairs.T).T
def g(x):
    flat = np.ravel(x)
    flat *= 2.0
def ok(x):
    y = (x * 2.0).reshape((-1,))
    y[0] = 1.0
    z = x.reshape((-1, 1, 1))
    return z * y
'''


def rule_reshape_stores(ctx, rule='R07.v'):
    """no function of the package stores through reshape()/ravel() of an array it did not allocate itself (expected count
    zero; positive control on every run)"""
    ctl = [h for fn in ast.parse(_RESHAPE_CONTROL).body for h in reshape_stores(fn)]
    if len(ctl) != 2:
        ctx.undecided(rule, 'positive-control', 'the control snippet gave %d hits, expected 2' % len(ctl))
        return
    hits = []
    nf = 0
    for m in ctx.prog.modules.values():
        if '/test/' in m.relpath:
            continue
        for n in ast.walk(m.tree):
            if isinstance(n, (ast.FunctionDef, ast.AsyncFunctionDef)):
                nf += 1
                for line, name, src in reshape_stores(n):
                    hits.append((m.relpath, line, n.name, name, src))
    for rel, line, fname, name, src in hits:
        ctx.violation(rule, '%s:%s' % (rel, fname), 'store-through-reshape:%s' % name,
                      '`%s` is a reshape/ravel of the existing array `%s` and is stored through: numpy returns a copy instead of a view '
                      'when that array is not contiguous in the reshaped axes (transposed, Fortran-ordered or sliced data), and '
                      'the store is then silently lost' % (name, src), '%s:%d' % (rel, line))
    if not hits:
        ctx.holds(rule, 'package', 'no store through reshape()/ravel() of existing storage in %d functions (positive control: 2 hits)' % nf,
                  nontrivial=False)
