"""R00.*: standing assumptions that are themselves checked on every run."""
import ast
import os
import warnings
from ..report import VERIF

_DYN_CALLS = ('setattr', 'exec', 'eval', 'delattr', 'globals', 'locals', 'vars', '__import__', 'compile')
_DYN_DEFS = ('__getattr__', '__getattribute__', '__setattr__', '__delattr__', '__new__', '__init_subclass__',
             '__class_getitem__')


def dynamic_constructs(tree):
    out = []
    for n in ast.walk(tree):
        if isinstance(n, ast.Call) and isinstance(n.func, ast.Name) and n.func.id in _DYN_CALLS:
            out.append((n.lineno, 'call of %s' % n.func.id))
        elif isinstance(n, ast.FunctionDef) and n.name in _DYN_DEFS:
            out.append((n.lineno, 'definition of %s' % n.name))
        elif isinstance(n, ast.ClassDef) and any(k.arg == 'metaclass' for k in n.keywords):
            out.append((n.lineno, 'metaclass on %s' % n.name))
        elif isinstance(n, ast.Attribute) and n.attr in ('__dict__', '__class__') and isinstance(n.ctx, ast.Store):
            out.append((n.lineno, 'store to %s' % n.attr))
    return out


def rule_no_dynamic(ctx, rule='R00.dyn'):
    """assumption A1: no dynamic attribute machinery in the package (expected count zero), with a
    positive control that must match on every run"""
    fx = os.path.join(VERIF, 'selftest', 'fixtures', 'dynamic.py')
    with warnings.catch_warnings():
        warnings.simplefilter('ignore')
        ctl = dynamic_constructs(ast.parse(open(fx).read()))
    if len(ctl) < 4:
        ctx.undecided(rule, 'positive-control', 'the fixture with setattr/exec/eval/__getattr__ was not flagged (%d hits)' % len(ctl))
        return
    hits = []
    for m in ctx.prog.modules.values():
        for line, what in dynamic_constructs(m.tree):
            hits.append('%s:%d %s' % (m.relpath, line, what))
    if hits:
        ctx.undecided(rule, 'package', 'dynamic constructs invalidate the attribute/alias model: %s' % '; '.join(hits))
    else:
        ctx.holds(rule, 'package', 'no setattr/exec/eval/__getattr__/metaclass in %d modules (positive control: %d hits)'
                  % (len(ctx.prog.modules), len(ctl)), nontrivial=False)
