"""Rules R13.* -- MatrixArray arithmetic matches per-matrix linear algebra without aliasing."""
import ast
import itertools
from .. import nf as N
from .. import pw as P
from .. import natives as NAT
from .. import worlds as W
from ..interp import (Interp, Arr, Num, View, Const, Obj, Seq, Label, Index, Types, Unsupported, Raised, NONE,
                      TRUE, FALSE, const_num)
from ..model import AnalysisError

MA = 'pyPRISM.core.MatrixArray::MatrixArray'
SPACES = ('Real', 'Fourier', 'NonSpatial')
MEMBERS = ('__add__', '__iadd__', '__sub__', '__isub__', '__mul__', '__imul__', '__truediv__', '__itruediv__',
           '__div__', '__idiv__', 'dot', 'invert', '__matmul__', '__imatmul__', 'get_copy')
# operator -> (term builder, in-place?)
BIN = {
    '__add__': (lambda a, b: a + b, False), '__iadd__': (lambda a, b: a + b, True),
    '__sub__': (lambda a, b: a - b, False), '__isub__': (lambda a, b: a - b, True),
    '__mul__': (lambda a, b: a * b, False), '__imul__': (lambda a, b: a * b, True),
    '__truediv__': (lambda a, b: a / b, False), '__itruediv__': (lambda a, b: a / b, True),
    '__div__': (lambda a, b: a / b, False), '__idiv__': (lambda a, b: a / b, True),
    '__matmul__': (lambda a, b: N.fn('dot', a, b), False), '__imatmul__': (lambda a, b: N.fn('dot', a, b), True),
}
A = N.sym('A')
B = N.sym('B')


def _ip(prog, raw_items=False):
    ip = Interp(prog)
    NAT.install_containers(ip, domain_transforms=False, tables=False, matrixarray=not raw_items)
    # IdentityMatrixArray(...) == identity matrices whatever `data` is passed: summary justified by R13.I on every run
    ip.natives[('IdentityMatrixArray', '__new__')] = NAT.identity_new
    return ip


def _pair(ip, sa='Real', sb='Real'):
    a = W.matrixarray(ip, 'A', sa, origin='self')
    b = W.matrixarray(ip, 'B', sb, origin='other')
    return a, b


def allowed(sa, sb):
    return sa == sb or 'NonSpatial' in (sa, sb)


def rule_members(ctx, rule='R13.1'):
    cls = ctx.prog.cls(MA)
    missing = [m for m in MEMBERS if cls.find_method(m) is None]
    if missing:
        ctx.violation(rule, MA, 'operator-table', 'operators missing from MatrixArray: %s' % missing,
                      cls.module.relpath)
    else:
        ctx.holds(rule, MA, 'all %d operator members present' % len(MEMBERS), nontrivial=False)


def _call(ip, obj, name, args, kwargs=None):
    m = ip.find_method(obj, name)
    if m is None:
        raise AnalysisError('MatrixArray.%s vanished' % name)
    return ip.call(m, args, kwargs or {})


def guarded_members(cls):
    out = [m for m in BIN if cls.find_method(m) is not None]
    out.append('dot')
    return out


def rule_space_guard(ctx, rule='R13.2'):
    """every member that combines two MatrixArrays refuses (AssertionError, before touching any data)
    exactly the space pairs that are neither equal nor contain NonSpatial: 3x3 truth table"""
    cls = ctx.prog.cls(MA)
    n = 0
    for name in guarded_members(cls):
        m = cls.find_method(name)
        construct = '%s.%s' % (MA, name)
        bad = []
        try:
            for sa, sb in itertools.product(SPACES, SPACES):
                ip = _ip(ctx.prog)
                a, b = _pair(ip, sa, sb)
                e0 = len(ip.events)
                try:
                    _call(ip, a, name, [b])
                    raised = None
                except Raised as e:
                    raised = e
                touched = [x for x in ip.events[e0:] if x['kind'] in ('write', 'bind')]
                if allowed(sa, sb):
                    if raised is not None:
                        bad.append('(%s,%s) is refused (%s)' % (sa, sb, raised.exc))
                else:
                    if raised is None:
                        bad.append('(%s,%s) is accepted' % (sa, sb))
                    elif raised.exc != 'AssertionError':
                        bad.append('(%s,%s) raises %s' % (sa, sb, raised.exc))
                    elif touched:
                        bad.append('(%s,%s): data modified at %s before the refusal' % (sa, sb, touched[0]['loc']))
        except Unsupported as e:
            ctx.undecided(rule, construct, str(e), m.loc())
            continue
        n += 1
        if bad:
            ctx.violation(rule, construct, 'space-guard', 'space rule violated: ' + '; '.join(bad), m.loc())
        else:
            ctx.holds(rule, construct, 'refuses exactly Real x Fourier (both orders) before any write; 9 space pairs enumerated',
                      m.loc(), sample={'member': name, 'truth_table': {('%s,%s' % p): allowed(*p) for p in itertools.product(SPACES, SPACES)}})
    ctx.floor(rule, n, 11, 'members carrying the space guard')


def _others(ip):
    """the three operand kinds of the statement: MatrixArray, scalar, plain array"""
    b = W.matrixarray(ip, 'B', 'Real', origin='other')
    ip.declare('s')
    ip.declare('v', 'tensor')
    ip.declare('w', 'row')        # a 1-D array with one value per column, shape (rank,): broadcast along the last axis
    return [('MatrixArray', b, B), ('scalar', Num(N.sym('s')), N.sym('s')),
            ('ndarray', Arr(N.sym('v'), 'other_array', ip), N.sym('v')),
            ('row vector', Arr(N.sym('w'), 'other_row', ip), N.sym('w'))]


_OWN_ATTRS = ('data', 'space', 'types', 'rank', 'length', 'typeMap')


def _new_cache_attr(ev):
    """a bind event that creates a *new* attribute (not one of the documented MatrixArray fields) on an operand: harmless
    by itself; whether it retains a result buffer or carries state between calls is decided by R13.h"""
    name = (ev['target'] or '').split('.')[-1]
    return name not in _OWN_ATTRS and not ev.get('existed')


def rule_arithmetic(ctx, rules=('R13.3', 'R13.4', 'R13.5', 'R13.8')):
    """semantics, freshness / in-place discipline and metadata of the binary operators"""
    cls = ctx.prog.cls(MA)
    n = 0
    terms = {}
    for name, (build, inplace) in sorted(BIN.items()):
        m = cls.find_method(name)
        if m is None:
            continue
        construct = '%s.%s' % (MA, name)
        kinds = ('MatrixArray',) if 'matmul' in name else ('MatrixArray', 'scalar', 'ndarray', 'row vector')
        for kind in kinds:
          from ..interp import explore

          def run_one(preset, name=name, kind=kind):
              ip = _ip(ctx.prog)
              ip.preset = list(preset)
              a = W.matrixarray(ip, 'A', 'Real', origin='self')
              other, oterm = [(o, t) for k, o, t in _others(ip) if k == kind][0]
              adata = a.attrs['data']
              e0 = len(ip.events)
              res = _call(ip, a, name, [other])
              return ip, {'a': a, 'other': other, 'oterm': oterm, 'adata': adata, 'e0': e0, 'res': res}
          try:
              worlds_ = explore(run_one)
          except (Unsupported, Raised) as e:
              ctx.undecided('R13.5', construct, '%s operand: %s' % (kind, e), m.loc())
              continue
          for dec_, ip, w_ in worlds_:
            a, other, oterm, adata, e0, res = w_['a'], w_['other'], w_['oterm'], w_['adata'], w_['e0'], w_['res']
            if dec_:
                kind_tag = kind + ' [' + ', '.join('%s is %s' % (c.show(), b) for c, b, _ in dec_) + ']'
            else:
                kind_tag = kind
            n += 1
            evs = ip.events[e0:]
            want = build(A, oterm)
            # --- semantics
            if not (isinstance(res, Obj) and res.isa('MatrixArray')):
                ctx.violation('R13.5', construct, 'semantics:' + kind, 'does not return a MatrixArray', m.loc())
                continue
            rdata = res.attrs.get('data')
            t = W.attr_term(ip, rdata)
            if t is None or P.is_pw(t) or not t.equals(want):
                ctx.violation('R13.5', construct, 'semantics:' + kind,
                              'result data is %s, expected %s' % (P.show(t) if t is not None else rdata, N.show(want)), m.loc())
            else:
                ctx.holds('R13.5', construct, '%s operand: data == %s' % (kind_tag, N.show(want)), m.loc(), key=kind_tag,
                          sample={'member': name, 'operand': kind, 'data': N.show(t)})
            terms[(name.replace('__i', '__'), kind, inplace)] = t
            # --- aliasing
            writes = [x for x in evs if x['kind'] == 'write']
            binds = [x for x in evs if x['kind'] == 'bind']
            bad = []
            if inplace:
                if res is not a:
                    bad.append('does not return the left operand itself')
                for x in writes:
                    if x['target'] != 'self.data':
                        bad.append('writes %s at %s' % (x['target'], x['loc']))
                for x in binds:
                    if x['target'] != 'self.data':
                        bad.append('rebinds %s at %s' % (x['target'], x['loc']))
                if not writes and not [x for x in binds if x['target'] == 'self.data']:
                    bad.append('left operand is not updated')
                if a.attrs['data'] is (other.attrs['data'] if isinstance(other, Obj) else other):
                    bad.append('left operand now shares memory with the right operand')
                if bad:
                    ctx.violation('R13.4', construct, 'inplace:' + kind, '; '.join(bad), m.loc())
                else:
                    ctx.holds('R13.4', construct, '%s operand: writes only self.data, returns self' % kind, m.loc(), key=kind)
            else:
                if res is a or res is other:
                    bad.append('returns an operand instead of a new object')
                if rdata is adata or (isinstance(other, Obj) and rdata is other.attrs['data']) or rdata is other:
                    bad.append('result shares its data array with an operand')
                if isinstance(rdata, View):
                    bad.append('result data is a view of %s' % (rdata.base.origin or 'an array'))
                elif isinstance(rdata, Arr) and not rdata.fresh:
                    bad.append('result data is the pre-existing array %s' % rdata.origin)
                for x in writes + [b_ for b_ in binds if not _new_cache_attr(b_)]:
                    bad.append('modifies %s at %s' % (x['target'], x['loc']))
                if bad:
                    ctx.violation('R13.3', construct, 'fresh:' + kind, '%s operand: %s' % (kind_tag, '; '.join(bad)), m.loc())
                else:
                    ctx.holds('R13.3', construct, '%s operand: new object, fresh data, operands untouched' % kind, m.loc(), key=kind)
            # --- metadata
            sp, ty = res.attrs.get('space'), res.attrs.get('types')
            if not (isinstance(sp, Const) and sp.v == ('Space', 'Real')) or ty is not a.attrs['types']:
                ctx.violation('R13.8', construct, 'metadata:' + kind, 'result space/types are %r/%r, not those of the left operand' % (sp, ty), m.loc())
            else:
                ctx.holds('R13.8', construct, '%s operand: space and types of the left operand' % kind, m.loc(), nontrivial=False, key=kind)
    # sibling cross-check: in-place and out-of-place variants denote the same term
    for (base, kind, inplace), t in terms.items():
        sib = terms.get((base, kind, not inplace))
        if sib is not None and inplace and not t.equals(sib):
            ctx.violation('R13.5', '%s.%s' % (MA, base), 'sibling:' + kind,
                          'in-place variant computes %s, out-of-place computes %s' % (N.show(t), N.show(sib)))
    ctx.floor('R13.5', n, 40, 'operator x operand-kind combinations')


def rule_broadcast(ctx, rule='R13.b'):
    """out-of-place operators broadcast a length-1 left operand (the NonSpatial density arrays) against a full-length right
    operand, as the per-matrix operation does; an implementation that routes them through an in-place ufunc cannot"""
    cls = ctx.prog.cls(MA)
    n = 0
    # broadcasting: a length-1 left operand (the density arrays) combined out of place with a full-length right operand
    for name, (build, inplace) in sorted(BIN.items()):
        m = cls.find_method(name)
        if m is None or inplace or 'matmul' in name:
            continue
        construct = '%s.%s' % (MA, name)
        for kind in ('MatrixArray', 'ndarray'):
            n += 1
            try:
                from ..interp import explore

                def run_b(preset, name=name, kind=kind):
                    ip_ = _ip(ctx.prog)
                    ip_.preset = list(preset)
                    ip_.strict_asserts = True        # an assertion that holds only for some lengths is a refusal for the others
                    a1_ = W.matrixarray(ip_, 'A1', 'NonSpatial', origin='self', kind='mat1')
                    other_, oterm_ = [(o, t) for k, o, t in _others(ip_) if k == kind][0]
                    return ip_, (_call(ip_, a1_, name, [other_]), oterm_)
                worlds_b = explore(run_b, keep_raised=True)
                refused = [(d_, r_) for d_, ip_, r_ in worlds_b if ip_ is None]
                if refused:
                    d_, r_ = refused[0]
                    raise Raised(r_.exc, (r_.msg or '') + ' [on the path where the decisions are %s]' % (d_,), r_.loc)
                ip, (res, oterm) = [(ip_, r_) for d_, ip_, r_ in worlds_b if ip_ is not None][0]
                t = W.attr_term(ip, res.attrs.get('data')) if isinstance(res, Obj) else None
                want = build(N.sym('A1'), oterm)
                if t is None or P.is_pw(t) or not t.equals(want):
                    ctx.violation(rule, construct, 'broadcast:' + kind, 'length-1 left operand, %s right operand: result data is %s, '
                                  'expected %s' % (kind, P.show(t) if t is not None else res, N.show(want)), m.loc())
                else:
                    ctx.holds(rule, construct, 'length-1 left operand broadcasts against a full-length %s' % kind, m.loc(),
                              key='broadcast:' + kind)
            except Raised as e:
                ctx.violation(rule, construct, 'broadcast:' + kind, 'a length-1 left operand (e.g. a density array) with a full-length '
                              '%s right operand raises %s: %s' % (kind, e.exc, e.msg), m.loc())
            except Unsupported as e:
                ctx.undecided(rule, construct, 'length-1 left operand, %s: %s' % (kind, e), m.loc())
    ctx.floor(rule, n, 8, 'out-of-place operator x full-length operand kind')


def rule_dot_invert(ctx, rule='R13.6'):
    cls = ctx.prog.cls(MA)
    for inplace, spname in ((False, 'Real'), (True, 'Real'), (False, 'Fourier'), (True, 'Fourier')):
        for name, want in (('dot', N.fn('dot', A, B)), ('invert', N.fn('inv', A))):
            m = cls.find_method(name)
            construct = '%s.%s' % (MA, name)
            rid = 'R13.6' if name == 'dot' else 'R13.7'
            try:
                ip = _ip(ctx.prog)
                a = W.matrixarray(ip, 'A', spname, origin='self')
                b = W.matrixarray(ip, 'B', spname, origin='other')
                adata, bdata = a.attrs['data'], b.attrs['data']
                e0 = len(ip.events)
                args = [b] if name == 'dot' else []
                res = _call(ip, a, name, args, {'inplace': Const(inplace)})
            except (Unsupported, Raised) as e:
                ctx.undecided(rid, construct, 'inplace=%s: %s' % (inplace, e), m.loc())
                continue
            evs = ip.events[e0:]
            bad = []
            rdata = res.attrs.get('data') if isinstance(res, Obj) else None
            t = W.attr_term(ip, rdata)
            if t is None or P.is_pw(t) or not t.equals(want):
                bad.append('result data is %s, expected %s' % (P.show(t) if t is not None else rdata, N.show(want)))
            if name == 'dot':
                es = [x for kind, x in ip.notes if kind == 'einsum']
                if not es or any(x['canon'] != 'abc,acd->abd' for x in es):
                    bad.append('einsum specification %s is not the batch matrix product lij,ljk->lik' % [x['spec'] for x in es])
            if inplace:
                if res is not a:
                    bad.append('inplace=True does not return self')
                for x in evs:
                    if x['kind'] in ('write', 'bind') and x['target'] != 'self.data':
                        bad.append('modifies %s' % x['target'])
            else:
                if res is a or res is b:
                    bad.append('returns an operand')
                if rdata is adata or rdata is bdata or (isinstance(rdata, Arr) and not rdata.fresh):
                    bad.append('result shares data with an operand')
                for x in evs:
                    if x['kind'] in ('write', 'bind') and not (x['kind'] == 'bind' and _new_cache_attr(x)):
                        bad.append('modifies %s at %s' % (x['target'], x['loc']))
                if a.attrs['data'] is not adata:
                    bad.append('self.data rebound by an out-of-place call')
            if bdata.t is not None and not bdata.t.equals(B):
                bad.append('right operand modified')
            casts = [x for x in evs if x['kind'] == 'dtype-cast' and (x['target'] or '').startswith(('self', 'other'))]
            if casts:
                bad.append('the result is stored into an array that has the dtype of an operand (%s at %s): integer data is '
                           'truncated' % (casts[0].get('via'), casts[0]['loc']))
            sp = res.attrs.get('space') if isinstance(res, Obj) else None
            if not (isinstance(sp, Const) and sp.v == ('Space', spname)):
                bad.append('result of %s-space operands is flagged %r' % (spname, getattr(sp, 'v', sp)))
            if bad:
                ctx.violation(rid, construct, 'inplace=%s:%s' % (inplace, spname), '; '.join(bad), m.loc())
            else:
                ctx.holds(rid, construct, 'inplace=%s, %s space: data == %s, flag kept, aliasing discipline respected' % (
                    inplace, spname, N.show(want)), m.loc(), key='inplace=%s:%s' % (inplace, spname),
                    sample={'member': name, 'inplace': inplace, 'data': N.show(t)})


def rule_rank_one(ctx, rule='R13.o'):
    """One-component arrays (rank 1), decided on the real class with a concrete rank (the symbolic worlds assume a generic
    rank of at least two): every operator, dot and invert act on the single pair function as the scalar operation, Real with
    Fourier is refused and NonSpatial combines with either -- also on whatever special path the code takes for rank 1."""
    cls = ctx.prog.cls(MA)
    space_cls = 'Space'
    n = 0
    ops = [(nm, BIN[nm][0], BIN[nm][1]) for nm in sorted(BIN) if cls.find_method(nm) is not None and 'matmul' not in nm]
    ops += [('dot', lambda a, b: a * b, False), ('dot:inplace', lambda a, b: a * b, True), ('__matmul__', lambda a, b: a * b, False),
            ('invert', lambda a, b: N.NF.const(1) / a, False)]
    for name, build, inplace in ops:
        meth = name.split(':')[0]
        m = cls.find_method(meth)
        if m is None:
            continue
        construct = '%s.%s' % (MA, meth)
        bad, und = [], []
        for sa, sb in (('Real', 'Real'), ('Fourier', 'Fourier'), ('Real', 'Fourier'), ('Fourier', 'Real'), ('Fourier', 'NonSpatial'),
                       ('NonSpatial', 'Real')):
            if meth == 'invert' and sb != sa:
                continue
            try:
                ip = Interp(ctx.prog)
                ip.natives[('shape', '__getitem__')] = ip.lib.shape_getitem
                Lsym = ip.declare('L', integer=True)
                made = []
                for tag, sp in (('a00', sa), ('b00', sb)):
                    ip.declare(tag, 'curve')
                    o = ip.construct(cls, [], {'length': Num(Lsym), 'rank': const_num(1), 'space': W.SPACE[sp]})
                    d = o.attrs.get('data')
                    if not isinstance(d, Arr):
                        raise Unsupported('MatrixArray.data is %r' % (d,))
                    d.cells = {(0, 0): N.sym(tag)}
                    made.append(o)
                a, b = made
                kw = {'inplace': Const(True)} if name.endswith(':inplace') else {}
                try:
                    res = _call(ip, a, meth, [] if meth == 'invert' else [b], kw)
                    refused = None
                except Raised as e:
                    res, refused = None, e.exc
            except Unsupported as e:
                und.append('%s with %s: %s' % (sa, sb, e))
                continue
            ok = allowed(sa, sb) or meth == 'invert'
            if refused is not None:
                if ok:
                    bad.append('%s with %s raises %s for one-component arrays' % (sa, sb, refused))
                elif refused != 'AssertionError':
                    bad.append('%s with %s is refused with %s, not the AssertionError of the space guard' % (sa, sb, refused))
                continue
            if not ok:
                bad.append('%s with %s is accepted for one-component arrays (the space guard is skipped)' % (sa, sb))
                continue
            rd = res.attrs.get('data') if isinstance(res, Obj) else None
            if not isinstance(rd, Arr):
                bad.append('does not return a MatrixArray with data')
                continue
            got = ip.read_cell(rd, 0, 0)
            want = build(N.sym('a00'), N.sym('b00'))
            if P.is_pw(got) or not got.equals(want):
                bad.append('%s with %s: the single pair function is %s, expected %s' % (sa, sb, P.show(got)[:80], N.show(want)))
        n += 1
        if bad:
            ctx.violation(rule, construct, 'rank-one:' + name, '; '.join(sorted(set(bad))[:3]), m.loc())
        elif und:
            ctx.undecided(rule, construct, und[0], m.loc())
        else:
            ctx.holds(rule, construct, '%s on rank-1 arrays: scalar operation on the pair function, space rule enforced' % name, m.loc(),
                      key=name)
    ctx.floor(rule, n, 10, 'members executed on one-component arrays')


def rule_get_copy(ctx, rule='R13.3'):
    cls = ctx.prog.cls(MA)
    # get_copy: for a receiver in each of the three spaces the copy owns fresh data equal to self.data and carries the same
    # space flag, types, rank and length
    m = cls.find_method('get_copy')
    for sp_name in SPACES:
        try:
            ip = _ip(ctx.prog)
            a, b = _pair(ip, sp_name)
            res = _call(ip, a, 'get_copy', [])
            bad = []
            if not isinstance(res, Obj) or res.cls is not a.cls:
                bad.append('get_copy returns %r, not a MatrixArray' % (res,))
            else:
                rdata = res.attrs.get('data')
                if res is a or rdata is a.attrs['data'] or not isinstance(rdata, Arr) or not rdata.fresh or not rdata.t.equals(A):
                    bad.append('get_copy does not return an independent copy of the data')
                sp = res.attrs.get('space')
                if not (isinstance(sp, Const) and sp.v == a.attrs['space'].v):
                    bad.append('the copy of a %s array is flagged %s' % (sp_name, getattr(sp, 'v', sp)))
                ty = res.attrs.get('types')
                if not isinstance(ty, Types) or getattr(ty, 'partial', None):
                    bad.append('types of the copy are %r, not the types of the original' % (ty,))
                for attr in ('rank', 'length'):
                    t0, t1 = W.attr_term(ip, a.attrs.get(attr)), W.attr_term(ip, res.attrs.get(attr))
                    if t0 is None or t1 is None or P.is_pw(t1) or not t0.equals(t1):
                        bad.append('%s of the copy is %s' % (attr, P.show(t1) if t1 is not None else res.attrs.get(attr)))
        except (Unsupported, Raised) as e:
            ctx.undecided(rule, MA + '.get_copy', 'space=%s: %s' % (sp_name, e), m.loc())
            continue
        if bad:
            ctx.violation(rule, MA + '.get_copy', 'copy:' + sp_name, '; '.join(bad), m.loc())
        else:
            ctx.holds(rule, MA + '.get_copy', 'space=%s: fresh data array equal to self.data, same space/types/rank/length' % sp_name,
                      m.loc(), key='copy:' + sp_name)


def rule_items(ctx, rule='R13.9'):
    """assigning by type names writes both (a,b) and (b,a); reading either order returns that pair function;
    unknown names raise ValueError (KeyError converted at all four look-ups)"""
    cls = ctx.prog.cls(MA)
    ms, mg = cls.find_method('__setitem__'), cls.find_method('__getitem__')
    # setter
    for case, distinct in (('a!=b', True), ('a==b', False)):
        ip = _ip(ctx.prog, raw_items=True)
        a = W.matrixarray(ip, 'A', 'Real', origin='self')
        la = Label('a')
        lb = Label('b') if distinct else la
        if distinct:
            ip.distinct.add(frozenset(('a', 'b')))
        ip.declare('val', 'curve')
        try:
            _call(ip, a, '__setitem__', [Seq([la, lb]), Arr(N.sym('val'), 'val', ip)])
        except (Unsupported, Raised) as e:
            ctx.undecided(rule, MA + '.__setitem__', '%s: %s' % (case, e), ms.loc())
            continue
        pairs = sorted(w['pair'] for w in ip.entry_writes)
        want = sorted({('a', lb.name), (lb.name, 'a')})
        vals = [w for w in ip.entry_writes if not w['term'].equals(N.sym('val'))]
        if pairs != want or vals:
            ctx.violation(rule, MA + '.__setitem__', 'mirror:' + case,
                          'stores go to %s (expected %s)%s' % (pairs, want, '; a stored value differs from the assigned one' if vals else ''),
                          ms.loc())
        else:
            ctx.holds(rule, MA + '.__setitem__', '%s: stores exactly %s' % (case, want), ms.loc(), key=case,
                      sample={'case': case, 'stores': [list(p) for p in pairs]})
    # getter
    ip = _ip(ctx.prog, raw_items=True)
    a = W.matrixarray(ip, 'A', 'Real', origin='self')
    try:
        v = _call(ip, a, '__getitem__', [Seq([Label('a'), Label('b')])])
        ok = isinstance(v, View) and v.base is a.attrs['data'] and v.idx == ('entry', 'a', 'b')
        if ok:
            ctx.holds(rule, MA + '.__getitem__', 'returns data[:, index(a), index(b)] (a view: in-place arithmetic on it writes through)', mg.loc())
        else:
            ctx.violation(rule, MA + '.__getitem__', 'getter', 'returns %r instead of the (a,b) pair function of self.data' % (v,), mg.loc())
    except (Unsupported, Raised) as e:
        ctx.undecided(rule, MA + '.__getitem__', str(e), mg.loc())


def rule_unknown_names(ctx, rule='R13.u'):
    """unknown type names raise ValueError in both positions of the setter and of the getter (a clause of C13 only: it is
    about the error path, not about the values other properties build on)"""
    n = 0
    for meth, extra in (('__setitem__', [Num(N.NF.const(0))]), ('__getitem__', [])):
        for pos in (0, 1):
            ip = _ip(ctx.prog, raw_items=True)
            a = W.matrixarray(ip, 'A', 'Real', origin='self')
            key = [Label('a'), Label('a')]
            key[pos] = Const('no-such-type')
            construct = '%s.%s' % (MA, meth)
            try:
                _call(ip, a, meth, [Seq(key)] + extra)
                n += 1
                ctx.violation(rule, construct, 'unknown-name:%d' % pos, 'an unknown type name in position %d does not raise' % pos)
            except Raised as e:
                n += 1
                if e.exc == 'ValueError':
                    ctx.holds(rule, construct, 'unknown name in position %d -> ValueError' % pos, key='unknown%d' % pos, nontrivial=False)
                else:
                    ctx.violation(rule, construct, 'unknown-name:%d' % pos,
                                  'an unknown type name in position %d raises %s, not ValueError' % (pos, e.exc))
            except Unsupported as e:
                ctx.undecided(rule, construct, str(e))
    # an integer that is not one of the types is an unknown name as well (M[0,'A'] on types A,B,C), executed on the real class
    try:
        ip = Interp(ctx.prog)
        ip.declare('L', integer=True)
        cls = ctx.prog.cls(MA)
        o = ip.construct(cls, [], {'length': Num(N.sym('L')), 'rank': const_num(3), 'types': Seq([Const(x) for x in 'ABC'], 'list')})
        for pos in (0, 1):
            key = [Const('A'), Const('A')]
            key[pos] = const_num(0)
            try:
                _call(ip, o, '__getitem__', [Seq(key)])
                ctx.violation(rule, MA + '.__getitem__', 'unknown-int:%d' % pos, 'M[...] with the integer 0 in position %d (not a type of '
                              'the array) does not raise ValueError: positions are accepted as if they were type names' % pos)
            except Raised as e:
                if e.exc != 'ValueError':
                    ctx.violation(rule, MA + '.__getitem__', 'unknown-int:%d' % pos, 'an integer that is not a type raises %s' % e.exc)
                else:
                    ctx.holds(rule, MA + '.__getitem__', 'integer that is not a type in position %d -> ValueError' % pos,
                              key='unknown-int%d' % pos, nontrivial=False)
    except Unsupported as e:
        ctx.undecided(rule, MA + '.__getitem__', 'integer key: %s' % e)
    ctx.floor(rule, n, 4, 'KeyError->ValueError conversion sites')


def rule_iterpairs(ctx, rule='R13.i'):
    """MatrixArray.iterpairs yields each unordered pair exactly once, in row-major order, with the pair's own indices,
    type labels and pair function: the real generator is abstractly executed for rank 1..4 (the range the property
    names) and the yielded sequence is compared with the upper (or lower) triangle"""
    cls = ctx.prog.cls(MA)
    m = cls.find_method('iterpairs')
    bad = []
    tables = {}
    try:
        for rank in (1, 2, 3, 4):
            got = NAT.enumerate_iterpairs(ctx.prog, cls, rank)
            pairs = [(i, j) for i, j, _, _ in got]
            upper = [(i, j) for i in range(rank) for j in range(rank) if i <= j]
            lower = [(i, j) for i in range(rank) for j in range(rank) if i >= j]
            tables[rank] = pairs
            if pairs != upper and pairs != lower:
                miss = sorted(set(upper) - {tuple(sorted(p)) for p in pairs})
                dup = sorted({p for p in pairs if pairs.count(p) > 1})
                bad.append('rank %d: yields %s -- %s' % (rank, pairs, ('unordered pairs never visited: %s' % miss) if miss else
                                                        ('pairs visited twice: %s' % dup) if dup else 'not a triangle in row-major order'))
                break
            if not all(l for _, _, l, _ in got):
                bad.append('rank %d: the labels yielded with (i,j) are not (types[i], types[j])' % rank)
                break
            if not all(o for _, _, _, o in got):
                bad.append('rank %d: the array yielded with (i,j) is not the view self.data[:,i,j]' % rank)
                break
    except (Unsupported, Raised) as e:
        ctx.undecided(rule, MA + '.iterpairs', str(e), m.loc())
        return
    if bad:
        ctx.violation(rule, MA + '.iterpairs', 'triangle', '; '.join(bad), m.loc())
    else:
        ctx.holds(rule, MA + '.iterpairs', 'each unordered pair once, in row-major order, with its own labels and pair-function view '
                  '(generator abstractly executed for rank 1..4)', m.loc(), sample={'rank 3': tables.get(3)})


def _identity_sem(ctx, cls):
    """execute the real constructor for rank 1..4 (symbolic length) and read every pair function: 1 on the diagonal, 0 off
    it.  Returns (list of problems) or raises Unsupported."""
    bad = []
    for rank in (1, 2, 3, 4):
        ip = Interp(ctx.prog)
        L = ip.declare('L', integer=True)
        o = ip.construct(cls, [], {'length': Num(L), 'rank': const_num(rank)})
        data = o.attrs.get('data')
        if not isinstance(data, Arr):
            raise Unsupported('IdentityMatrixArray.data is %r' % (data,))
        for i in range(rank):
            for j in range(rank):
                t = ip.read_cell(data, i, j)
                want = N.NF.const(1 if i == j else 0)
                if P.is_pw(t) or not t.equals(want):
                    bad.append('rank %d: pair function [%d,%d] is %s, expected %s' % (rank, i, j, P.show(t), N.show(want)))
        sp = o.attrs.get('space')
        if isinstance(sp, Const) and sp.v is not None and not (isinstance(sp.v, tuple) and sp.v[0] == 'Space'):
            bad.append('space is %r' % (sp.v,))
        # a second identity array of the same shape, built in the same process, owns its own memory (in-place arithmetic on
        # one must not reach the other) and is the identity as well
        o2 = ip.construct(cls, [], {'length': Num(L), 'rank': const_num(rank)})
        d2 = o2.attrs.get('data')
        r1 = data.base if isinstance(data, View) else data
        r2 = d2.base if isinstance(d2, View) else d2
        if r1 is r2:
            bad.append('rank %d: two IdentityMatrixArrays of the same shape share one data array (an in-place operation on one '
                       'changes the other and every identity created later)' % rank)
        elif isinstance(d2, Arr):
            for i in range(rank):
                t = ip.read_cell(d2, i, i)
                if P.is_pw(t) or not t.equals(N.NF.const(1)):
                    bad.append('rank %d: the second identity array has %s at [%d,%d]' % (rank, P.show(t), i, i))
    return bad


def rule_identity(ctx, rule='R13.I'):
    """IdentityMatrixArray: ones on exactly the diagonal of a zero array -- decided by executing the real constructor for
    rank 1..4; the textual idiom recogniser below is only a fallback when that execution is not possible"""
    cls = ctx.prog.cls('pyPRISM.core.IdentityMatrixArray::IdentityMatrixArray')
    m = cls.find_method('__init__')
    try:
        bad = _identity_sem(ctx, cls)
        if bad:
            ctx.violation(rule, cls.qualname, 'identity', '; '.join(bad[:3]), m.loc())
        else:
            ctx.holds(rule, cls.qualname, 'the constructor executed for rank 1..4 leaves 1 on every diagonal and 0 on every '
                      'off-diagonal pair function (any length)', m.loc())
        return
    except (Unsupported, Raised):
        pass
    body = [s for s in m.node.body if not (isinstance(s, ast.Expr) and isinstance(s.value, ast.Constant))]
    src = [ast.unparse(s).replace(' ', '') for s in body]
    zeros = [s for s in src if s.startswith('self.data=np.zeros((length,rank,rank))')]
    loops = [s for s in body if isinstance(s, ast.For)]
    ok = bool(zeros) and len(loops) == 1
    if ok:
        lp = loops[0]
        ok = ast.unparse(lp.iter).replace(' ', '') == 'range(rank)' and len(lp.body) == 1 and \
            ast.unparse(lp.body[0]).replace(' ', '') in ('self.data[:,%s,%s]=1.0' % (lp.target.id, lp.target.id),
                                                         'self.data[:,%s,%s]=1' % (lp.target.id, lp.target.id))
        # the zero fill must precede the loop
        ok = ok and body.index(lp) > [i for i, s in enumerate(src) if s.startswith('self.data=np.zeros')][-1]
    elif bool(zeros) and not loops:
        # second accepted idiom: one identity matrix broadcast over the zero array
        bc = [i for i, s_ in enumerate(src) if s_ in ('self.data[:,:,:]=np.identity(rank)', 'self.data[:]=np.identity(rank)',
                                                      'self.data[...]=np.identity(rank)', 'self.data[:,:,:]=np.eye(rank)',
                                                      'self.data[:]=np.eye(rank)', 'self.data[...]=np.eye(rank)',
                                                      'self.data+=np.identity(rank)', 'self.data+=np.eye(rank)')]
        ok = len(bc) == 1 and bc[0] > [i for i, s_ in enumerate(src) if s_.startswith('self.data=np.zeros')][-1]
    sup = [s for s in src if s.startswith('super(IdentityMatrixArray,self).__init__(') or s.startswith('super().__init__(')]
    if ok and sup:
        ctx.holds(rule, cls.qualname, 'zeros((length,rank,rank)) then data[:,i,i]=1 for i in range(rank); space/types passed to MatrixArray.__init__', m.loc())
    else:
        ctx.undecided(rule, cls.qualname, 'identity construction idiom not recognised: %s' % src, m.loc())


# ---------------------------------------------------------------------------------------------
# two-call histories and subclass receivers
# ---------------------------------------------------------------------------------------------
def _receivers(prog):
    """MatrixArray itself and every concrete subclass (an operator inherited by IdentityMatrixArray runs with
    self of that class: `self.__class__(...)` / `type(self)(...)` then build the result through *its* constructor)"""
    base = prog.cls(MA)
    out = [base]
    for c in prog.subclasses_of('MatrixArray'):
        if c is not base:
            out.append(c)
    return out


def _heap_of(v):
    from .prism import reachable
    return {id(a) for a in reachable(v)['arr']}


def rule_history(ctx, rule='R13.h'):
    """Out-of-place members, dot/invert(inplace=False) and get_copy, called twice on the same left operand (the second
    time with another right operand), for a receiver of every MatrixArray class: both results are new objects whose
    data (i) equals the per-matrix operation on the operands of *that* call, (ii) is not reachable from either operand
    after the call (no retained buffer), (iii) is a different array for the two calls, and (iv) the first result is
    unchanged by the second call.  By induction every call history yields independent results."""
    from ..interp import explore
    cls0 = ctx.prog.cls(MA)
    n = 0
    members = [(nm, BIN[nm][0]) for nm in sorted(BIN) if not BIN[nm][1] and cls0.find_method(nm) is not None]
    members += [('dot', lambda a, b: N.fn('dot', a, b)), ('invert', lambda a, b: N.fn('inv', a)), ('get_copy', lambda a, b: a)]
    for rcls in _receivers(ctx.prog):
        for name, build in members:
            m = rcls.find_method(name)
            if m is None:
                continue
            construct = '%s.%s' % (MA, name)
            tag = 'receiver %s' % rcls.name

            def run(preset, name=name, rcls=rcls, mutate=False, same_right=None):
                ip = _ip(ctx.prog)
                ip.preset = list(preset)
                a = W.matrixarray(ip, 'A', 'Real', origin='self')
                a.cls = rcls
                b1 = W.matrixarray(ip, 'B1', same_right or 'Real', origin='other1')
                nargs = 0 if name in ('invert', 'get_copy') else 1
                r1 = _call(ip, a, name, [b1][:nargs])
                t1 = W.attr_term(ip, r1.attrs.get('data')) if isinstance(r1, Obj) else None
                if mutate:
                    # the caller changed the contents of the left operand in place (A *= 2, A[t1,t2] = ...): same array
                    # object, new values
                    ip.declare('A2', 'tensor', symmetric=True)
                    a.attrs['data'].t = N.sym('A2')
                if same_right:
                    # the right operand of both calls is ONE object whose contents the caller changed in place in between
                    # (R *= 2 on a density-like NonSpatial array): same array object, new values
                    ip.declare('B', 'tensor', symmetric=True)
                    b1.attrs['data'].t = B
                    b2 = b1
                else:
                    b2 = W.matrixarray(ip, 'B', 'Real', origin='other')
                r2 = _call(ip, a, name, [b2][:nargs])
                return ip, {'a': a, 'b1': b1, 'b2': b2, 'r1': r1, 'r2': r2, 't1': t1, 'left': N.sym('A2') if mutate else A,
                            'same_right': same_right}
            try:
                worlds = explore(run) + explore(lambda preset: run(preset, mutate=True))
                if name not in ('invert', 'get_copy'):
                    for sp in ('Real', 'NonSpatial'):
                        worlds += explore(lambda preset, sp=sp: run(preset, same_right=sp))
            except (Unsupported, Raised) as e:
                ctx.undecided(rule, construct, '%s: %s' % (tag, e), m.loc())
                continue
            n += 1
            bad = []
            for dec, ip, w in worlds:
                a, r1, r2 = w['a'], w['r1'], w['r2']
                if not (isinstance(r1, Obj) and isinstance(r2, Obj) and r1.isa('MatrixArray') and r2.isa('MatrixArray')):
                    bad.append('does not return a MatrixArray')
                    continue
                d1, d2 = r1.attrs.get('data'), r2.attrs.get('data')
                root1 = d1.base if isinstance(d1, View) else d1
                root2 = d2.base if isinstance(d2, View) else d2
                if r1 is r2 or root1 is root2:
                    bad.append('two successive calls return the same data array (the first result is overwritten by the second)')
                t1_now = W.attr_term(ip, d1)
                if w['t1'] is not None and t1_now is not None and not P.is_pw(t1_now) and not t1_now.equals(w['t1']):
                    bad.append('the first result changes when the member is called again: %s becomes %s'
                               % (N.show(w['t1'])[:80], N.show(t1_now)[:80]))
                want2 = build(w['left'], B)
                t2 = W.attr_term(ip, d2)
                if t2 is None or P.is_pw(t2) or not t2.equals(want2):
                    bad.append('second call%s returns %s, expected %s' % (
                        ' (after the left operand was modified in place)' if w['left'] is not A else
                        (' (same %s right operand, modified in place between the calls)' % w['same_right'] if w['same_right'] else ''),
                        P.show(t2)[:120] if t2 is not None else d2, N.show(want2)))
                held = _heap_of(a) | _heap_of(w['b1']) | _heap_of(w['b2'])
                for which, root in (('first', root1), ('second', root2)):
                    if isinstance(root, Arr) and id(root) in held:
                        bad.append('the data of the %s result stays reachable from an operand after the call (retained buffer)' % which)
            if bad:
                ctx.violation(rule, construct, 'history:' + rcls.name, '%s: %s' % (tag, '; '.join(sorted(set(bad)))), m.loc())
            else:
                ctx.holds(rule, construct, '%s: two successive calls give independent, correct results (%d path(s))'
                          % (tag, len(worlds)), m.loc(), key=rcls.name)
    ctx.floor(rule, n, 2 * 9, 'out-of-place member x receiver class')


def rule_typemap(ctx, rule='R13.t'):
    """every MatrixArray maps type names to positions according to its OWN type list: arrays built over ['A','B'] and
    then over ['B','A'] (same names, other order, one after the other in the same process) each address their own
    columns; the real constructor, setter and getter are executed with concrete labels"""
    cls = ctx.prog.cls(MA)
    m = cls.find_method('__init__')
    construct = MA + '.__init__'
    try:
        ip = Interp(ctx.prog)
        ip.declare('L', integer=True)
        made = []
        # string labels in several orders, and integer labels that differ from their positions (any hashable is a type)
        for order in (('A', 'B'), ('B', 'A'), ('A', 'B', 'C'), (1, 2, 3), (2, 1)):
            o = ip.construct(cls, [], {'length': Num(N.sym('L')), 'rank': const_num(len(order)),
                                       'types': Seq([Const(x) for x in order], 'list')})
            made.append((order, o))
    except (Unsupported, Raised) as e:
        ctx.undecided(rule, construct, str(e), m.loc())
        return
    bad = []
    # behaviour, not the attribute: after ALL arrays exist, each one is written and read through its public item interface
    # with type names and the pair functions are inspected at their positions in *that* array's own type list
    try:
        for order, o in made:
            data = o.attrs.get('data')
            if not isinstance(data, Arr):
                raise Unsupported('MatrixArray.data is %r' % (data,))
            setter, getter = ip.find_method(o, '__setitem__'), ip.find_method(o, '__getitem__')
            for i, a in enumerate(order):
                for j, b in enumerate(order):
                    if i > j:
                        continue
                    name = 'w_%s_%s%s' % (''.join(map(str, order)), a, b)
                    ip.declare(name, 'curve')
                    ip.call(setter, [Seq([Const(a), Const(b)]), Arr(N.sym(name), None, ip)], {})
            for i, a in enumerate(order):
                for j, b in enumerate(order):
                    lo, hi = (a, b) if i <= j else (b, a)
                    want = N.sym('w_%s_%s%s' % (''.join(map(str, order)), lo, hi))
                    got = ip.read_cell(data, i, j)
                    if P.is_pw(got) or not got.equals(want):
                        bad.append('array with types %s (others with permuted types exist): position [%d,%d] holds %s after '
                                   'M[%r,%r] = %s was assigned' % (list(order), i, j, P.show(got), lo, hi, N.show(want)))
                    back = ip.call(getter, [Seq([Const(a), Const(b)])], {})
                    tb = ip.term_of(back)[0]
                    if P.is_pw(tb) or not tb.equals(want):
                        bad.append('array with types %s: M[%r,%r] reads %s, expected %s' % (list(order), a, b, P.show(tb), N.show(want)))
    except (Unsupported, Raised) as e:
        ctx.undecided(rule, construct, str(e), m.loc())
        return
    if bad:
        ctx.violation(rule, construct, 'typemap', '; '.join(bad[:3]), m.loc())
    else:
        ctx.holds(rule, construct, 'name -> column map follows the instance\'s own type list (three arrays with permuted / extended '
                  'type lists constructed in one process)', m.loc())
