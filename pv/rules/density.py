"""Rules R15.* -- Density and Diameter keep derived quantities consistent under any history.

Inductive argument: assume the derived tables are consistent for all previously assigned types
(arbitrary symbolic pre-state).  `x[t1] = v` is abstractly interpreted with a symbolic label t1; the inner
loop over all types is executed once with a symbolic label t2 and case-split on (t2 is t1 / t2 is another
assigned type / t2 is unassigned).  In every case the stores must be the specification evaluated with the
*post-state* values, keyed by (t1,t2) through the symmetric setter; nothing else may be written.
"""
import ast
from fractions import Fraction as F
from .. import nf as N
from .. import pw as P
from .. import natives as NAT
from ..interp import (Interp, Arr, Num, View, Const, Obj, Seq, Label, Types, Unsupported, Raised, NONE, explore,
                      relabel)
from ..flow import Flow, norm
from ..model import AnalysisError

DENS = 'pyPRISM.core.Density::Density'
DIAM = 'pyPRISM.core.Diameter::Diameter'


def _elem(fname):
    def elem(ip, t, node):
        t = ip.canon_label(t)
        cache = ip.__dict__.setdefault('_unset_cache', {})
        if (fname, t) not in cache:
            cache[(fname, t)] = ip.decide(P.Cond.flag('unset(%s)' % t), node)
        if cache[(fname, t)]:
            return NONE
        return Num(N.NF.atom(('fn', fname, t)))
    return elem


def _canon_term(ip, t):
    m = {l: ip.canon_label(l) for l in ip.label_alias}
    return relabel(t, m, ip.symmetric) if m else t


def attr_or_none(ip, o, name):
    """an attribute as the package reads it: plain attribute or property; None when absent"""
    try:
        return ip.get_attr(o, name, None)
    except Raised:
        return None


def run_set(prog, which, keys, preset):
    ip = Interp(prog)
    NAT.install_containers(ip)
    ip.preset = list(preset)
    cls = prog.cls(DENS if which == 'density' else DIAM)
    types = Types()
    o = ip.construct(cls, [types], {})
    o.origin = 'self'
    ip.declare('v')
    st = {}

    def attr_of(name):
        try:
            return ip.get_attr(o, name, None)        # plain attribute or property
        except Raised:
            return None
    if which == 'density':
        vt = attr_of('density')
        if not (isinstance(vt, Obj) and vt.isa('ValueTable')):
            raise AnalysisError('Density.density is not a ValueTable')
        vt.attrs['_native_elem'] = _elem('rho')
        for nm, sym in (('pair', 'P0'), ('site', 'S0')):
            ma = attr_of(nm)
            if not (isinstance(ma, Obj) and ma.isa('MatrixArray')):
                raise AnalysisError('Density.%s is not a MatrixArray' % nm)
            ip.declare(sym, 'mat1', symmetric=True)
            ma.attrs['data'] = Arr(N.sym(sym), 'self.%s.data' % nm, ip)
            ma.origin = 'self.' + nm
            st[nm] = ma
        ip.set_attr(o, 'total', Num(ip.declare('T0')), None)
    else:
        vt = attr_of('diameter')
        vol = attr_of('volume')
        sig = attr_of('sigma')
        if not (isinstance(vt, Obj) and vt.isa('ValueTable') and isinstance(vol, Obj) and isinstance(sig, Obj)
                and sig.isa('PairTable')):
            raise AnalysisError('Diameter tables changed kind')
        vt.attrs['_native_elem'] = _elem('dia')
        vol.attrs['_native_elem'] = lambda ip2, t, n: Num(N.NF.atom(('fn', 'vol', ip2.canon_label(t))))
        sig.attrs['_native_elem'] = lambda ip2, a, b, n: Num(N.NF.atom(('fn', 'sig') + tuple(sorted((a, b)))))
    labels = [Label(k) for k in keys]
    for i in range(len(keys)):
        for j in range(i):
            ip.distinct.add(frozenset((keys[i], keys[j])))
    key = labels[0] if len(labels) == 1 else Seq(labels, 'list')
    m = ip.find_method(o, '__setitem__')
    ip.call(m, [key, Num(N.sym('v'))], {})
    return ip, o


def _worlds(prog, which, keys):
    def mk(preset):
        return run_set(prog, which, keys, preset)
    return explore(mk)


def _post(fname, keys, ip, label):
    """post-state value of a type"""
    l = ip.canon_label(label)
    return N.sym('v') if l in keys else N.NF.atom(('fn', fname, l))


def rule_density(ctx, rule='R15.f'):
    cls = ctx.prog.cls(DENS)
    m = cls.find_method('__setitem__')
    construct = DENS + '.__setitem__'
    worlds = _worlds(ctx.prog, 'density', ('a',))
    kinds = {}
    bad = []
    for decisions, ip, o in worlds:
        loops = [c for k, c in ip.notes if k == 'pairloop']
        t2loops = [c for c in loops if c.get('kind') == 'types']
        if len(t2loops) != 1:
            bad.append('expected one loop over all types, found %d' % len(t2loops))
            continue
        t2 = t2loops[0]['labels'][0]
        c2 = ip.canon_label(t2)
        unset = ip.__dict__.get('_unset_cache', {}).get(('rho', c2))
        kind = 'same' if c2 == 'a' else ('unset' if unset else 'other')
        kinds[kind] = kinds.get(kind, 0) + 1
        writes = {}
        for w in ip.entry_writes:
            nm = {'self.pair.data': 'pair', 'self.site.data': 'site'}.get(w['arr'].origin, w['arr'].origin)
            pr = tuple(sorted(ip.canon_label(x) for x in w['pair']))
            writes.setdefault(nm, []).append((pr, _canon_term(ip, w['term'])))
        # density table itself
        recs = attr_or_none(ip, o, 'density').attrs['_native_store']
        if not (len(recs) == 1 and recs[0]['label'] == 'a' and isinstance(recs[0]['value'], Num)
                and recs[0]['value'].t.equals(N.sym('v'))):
            bad.append('world %s: density[t1] is not set to the assigned value' % kind)
        tot = attr_or_none(ip, o, 'total')
        tt = _canon_term(ip, tot.t) if isinstance(tot, Num) else None
        if kind == 'unset':
            if writes:
                bad.append('an unassigned type still produces stores %s' % sorted(writes))
            want_tot = N.NF.const(0)
        else:
            r1, r2 = _post('rho', ('a',), ip, 'a'), _post('rho', ('a',), ip, t2)
            key = tuple(sorted(('a', c2)))
            want = {'pair': [(key, r1 * r2)], 'site': [(key, r1 if kind == 'same' else r1 + r2)]}
            for nm in ('pair', 'site'):
                got = writes.get(nm, [])
                if len(got) != 1 or got[0][0] != want[nm][0][0] or not got[0][1].equals(want[nm][0][1]):
                    bad.append('world t2 %s t1: %s density store is %s, expected %s := %s' % (
                        'is' if kind == 'same' else 'is another assigned type than', nm,
                        [(k, N.show(t)) for k, t in got], want[nm][0][0], N.show(want[nm][0][1])))
            extra = set(writes) - {'pair', 'site'}
            if extra:
                bad.append('unexpected writes to %s' % sorted(extra))
            want_tot = N.sym('v') if kind == 'same' else N.fn('SumT', '@t0', N.NF.atom(('fn', 'rho', '@t0')))
        if tt is None or not tt.equals(want_tot):
            bad.append('world %s: total after the call is %s, expected contribution %s (reset to 0 inside the t1 loop, '
                       'then the sum over assigned types)' % (kind, N.show(tt) if tt is not None else tot, N.show(want_tot)))
        for e in ip.events:
            if e['kind'] == 'write' and e['target'] not in ('self.pair.data', 'self.site.data') and e.get('via') != 'ValueTable.__setitem__':
                bad.append('writes %s at %s' % (e['target'], e['loc']))
    if set(kinds) != {'same', 'other', 'unset'}:
        bad.append('case split over the inner type did not produce the three cases (same/other/unset): %s' % kinds)
    if bad:
        ctx.violation(rule, construct, 'derived', '; '.join(sorted(set(bad))), m.loc())
    else:
        ctx.holds(rule, construct, 'pair[t1,t2]=rho1*rho2, site=rho1 (t1 is t2) / rho1+rho2, total=sum over assigned types, '
                  'evaluated with the post-state values in all 3 cases of t2; unassigned types skipped; only the row/column '
                  'of t1 is written (symmetric setter)', m.loc(),
                  sample={'worlds': len(worlds), 'cases': kinds})
    # second scenario: a list of two keys -- total must be that of the last recomputation only
    worlds2 = _worlds(ctx.prog, 'density', ('a', 'b'))
    bad2 = []
    for decisions, ip, o in worlds2:
        tot = attr_or_none(ip, o, 'total')
        if not isinstance(tot, Num):
            bad2.append('total is %r' % (tot,))
            continue
        tt = _canon_term(ip, tot.t)
        ok = tt.is_zero() or tt.equals(N.sym('v')) or tt.equals(N.fn('SumT', '@t0', N.NF.atom(('fn', 'rho', '@t0'))))
        if not ok or 'T0' in tt.symbols():
            bad2.append('after assigning a list of two types total is %s in one case: stale contributions survive' % N.show(tt))
    if bad2:
        ctx.violation('R15.t', construct, 'total-reset', '; '.join(sorted(set(bad2))[:3]), m.loc())
    else:
        ctx.holds('R15.t', construct, 'total is recomputed from zero for every assigned key (%d cases of a two-key assignment)' % len(worlds2), m.loc())


def rule_diameter(ctx, rule='R15.s'):
    cls = ctx.prog.cls(DIAM)
    m = cls.find_method('__setitem__')
    construct = DIAM + '.__setitem__'
    worlds = _worlds(ctx.prog, 'diameter', ('a',))
    kinds = {}
    bad = []
    v = N.sym('v')
    for decisions, ip, o in worlds:
        t2loops = [c for k, c in ip.notes if k == 'pairloop' and c.get('kind') == 'types']
        if len(t2loops) != 1:
            bad.append('expected one loop over all types')
            continue
        t2 = t2loops[0]['labels'][0]
        c2 = ip.canon_label(t2)
        unset = ip.__dict__.get('_unset_cache', {}).get(('dia', c2))
        kind = 'same' if c2 == 'a' else ('unset' if unset else 'other')
        kinds[kind] = kinds.get(kind, 0) + 1
        drec = attr_or_none(ip, o, 'diameter').attrs['_native_store']
        vrec = attr_or_none(ip, o, 'volume').attrs['_native_store']
        srec = attr_or_none(ip, o, 'sigma').attrs['_native_store']
        if not (len(drec) == 1 and drec[0]['label'] == 'a' and drec[0]['value'].t.equals(v)):
            bad.append('diameter[t1] is not set to the assigned value')
        if not (len(vrec) == 1 and vrec[0]['label'] == 'a' and isinstance(vrec[0]['value'], Num)
                and vrec[0]['value'].t.equals(N.PI * v ** 3 / 6)):
            bad.append('volume[t1] is %s, expected pi d^3/6' % [N.show(r['value'].t) if isinstance(r['value'], Num) else r['value'] for r in vrec])
        if kind == 'unset':
            if srec:
                bad.append('sigma written for an unassigned partner')
        else:
            d2 = _post('dia', ('a',), ip, t2)
            want = (v + d2) / 2
            ok = len(srec) == 1 and tuple(sorted(ip.canon_label(x) for x in srec[0]['labels'])) == tuple(sorted(('a', c2))) \
                and isinstance(srec[0]['value'], Num) and _canon_term(ip, srec[0]['value'].t).equals(want)
            if not ok:
                bad.append('world %s: sigma store is %s, expected sigma[t1,t2] := %s' % (
                    kind, [(r['labels'], N.show(r['value'].t) if isinstance(r['value'], Num) else r['value']) for r in srec], N.show(want)))
        if not bool(attr_or_none(ip, o, 'sigma').attrs['symmetric'].v):
            bad.append('sigma table is not symmetric')
    if set(kinds) != {'same', 'other', 'unset'}:
        bad.append('case split over the partner type incomplete: %s' % kinds)
    if bad:
        ctx.violation(rule, construct, 'derived', '; '.join(sorted(set(bad))), m.loc())
    else:
        ctx.holds(rule, construct, 'volume=pi d^3/6; sigma[t1,t2]=(d1+d2)/2 with post-state diameters for every assigned '
                  'partner (symmetric PairTable); unassigned partners skipped', m.loc(), sample={'cases': kinds})


def rule_checks(ctx, rule='R15.k'):
    """Density.check / Diameter.check refuse exactly while a type is unassigned (delegation to ValueTable.check)"""
    for qual, attr in ((DENS, 'density'), (DIAM, 'diameter')):
        cls = ctx.prog.cls(qual)
        m = cls.find_method('check')
        ip = Interp(ctx.prog)
        NAT.install_containers(ip)
        o = ip.construct(cls, [Types()], {})
        try:
            ip.call(ip.find_method(o, 'check'), [], {})
        except (Unsupported, Raised) as e:
            ctx.undecided(rule, qual + '.check', str(e), m.loc())
            continue
        checked = [x['table'] for k, x in ip.notes if k == 'check']
        if attr in checked:
            ctx.holds(rule, qual + '.check', 'delegates to ValueTable(%s).check (R14.k: ValueError iff a value is None)' % attr, m.loc(), nontrivial=False)
        else:
            ctx.violation(rule, qual + '.check', 'check', 'does not check the per-type table %s (checked: %s)' % (attr, checked), m.loc())


PROTECTED = {('density', 'pair'), ('density', 'site'), ('density', 'total'), ('density', 'density'),
             ('diameter', 'sigma'), ('diameter', 'volume'), ('diameter', 'diameter')}


def _chain(node):
    out = []
    while isinstance(node, (ast.Attribute, ast.Subscript)):
        if isinstance(node, ast.Attribute):
            out.append(node.attr)
        node = node.value
    if isinstance(node, ast.Name):
        out.append(node.id)
    return list(reversed(out))


def rule_who_may_write(ctx, rule='R15.w'):
    """nothing outside the two classes writes the derived state"""
    hits = []
    for mod in ctx.prog.modules.values():
        if mod.name in ('pyPRISM.core.Density', 'pyPRISM.core.Diameter'):
            continue
        for n in ast.walk(mod.tree):
            tgts = []
            if isinstance(n, ast.Assign):
                tgts = n.targets
            elif isinstance(n, (ast.AugAssign, ast.AnnAssign)):
                tgts = [n.target]
            for t in tgts:
                for sub in ([t] if not isinstance(t, ast.Tuple) else t.elts):
                    ch = _chain(sub)
                    for i in range(len(ch) - 1):
                        if (ch[i], ch[i + 1]) in PROTECTED:
                            hits.append('%s:%d %s' % (mod.relpath, n.lineno, norm(sub)))
    # positive control
    ctl = ast.parse('sys.density.pair *= 2\np.sys.diameter.sigma["A","B"] = 1.0')
    c = 0
    for n in ast.walk(ctl):
        if isinstance(n, (ast.Assign, ast.AugAssign)):
            t = n.targets[0] if isinstance(n, ast.Assign) else n.target
            ch = _chain(t)
            if any((ch[i], ch[i + 1]) in PROTECTED for i in range(len(ch) - 1)):
                c += 1
    if c != 2:
        ctx.undecided(rule, 'positive-control', 'the who-may-write query missed its fixture')
        return
    if hits:
        ctx.violation(rule, 'package', 'foreign-write', 'derived density/diameter state is written outside its class: %s' % hits)
    else:
        ctx.holds(rule, 'package', 'no store to density.pair/site/total or diameter.sigma/volume outside Density/Diameter '
                  '(%d modules swept, positive control matched)' % len(ctx.prog.modules))
