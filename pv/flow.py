"""E2 -- structured walker over one function body: parents, enclosing loops/tests, dominance,
reaching definitions, path-guards.  The package uses only structured control flow (no goto-like
constructs beyond return/continue/raise), so a syntax-directed analysis is exact enough.
"""
import ast


class Flow(object):
    def __init__(self, fnode):
        self.fn = fnode
        self.parent = {}
        self.block_of = {}      # stmt -> (owner node, field name, index)
        for n in ast.walk(fnode):
            for ch in ast.iter_child_nodes(n):
                self.parent[ch] = n
            for field in ('body', 'orelse', 'finalbody'):
                blk = getattr(n, field, None)
                if isinstance(blk, list):
                    for i, st in enumerate(blk):
                        if isinstance(st, ast.stmt):
                            self.block_of[st] = (n, field, i)
            if isinstance(n, ast.Try):
                for h in n.handlers:
                    for i, st in enumerate(h.body):
                        self.block_of[st] = (h, 'body', i)

    # ---- structure -------------------------------------------------------------------------------
    def stmt_of(self, node):
        while node is not None and not isinstance(node, ast.stmt):
            node = self.parent.get(node)
        return node

    def ancestors(self, node):
        out = []
        n = self.parent.get(node)
        while n is not None and n is not self.fn:
            out.append(n)
            n = self.parent.get(n)
        return out

    def enclosing_loops(self, node):
        """innermost first"""
        return [a for a in self.ancestors(node) if isinstance(a, (ast.For, ast.While))]

    def in_body_of(self, node, loop):
        """is node inside loop.body (not orelse)?"""
        n = node
        while n is not None and self.parent.get(n) is not loop:
            n = self.parent.get(n)
        if n is None:
            return False
        return n in loop.body

    def guards(self, node):
        """conditions under which `node` executes: [(test expr, polarity)], from enclosing ifs and from
        earlier siblings that leave the block (continue/return/raise/break) under a test"""
        out = []
        st = self.stmt_of(node)
        while st is not None and st is not self.fn:
            owner, field, idx = self.block_of.get(st, (None, None, None))
            if owner is None:
                break
            blk = getattr(owner, field)
            for prev in blk[:idx]:
                if isinstance(prev, ast.If) and self._always_leaves(prev.body) and not prev.orelse:
                    out.append((prev.test, False))
                elif isinstance(prev, ast.If) and prev.orelse and self._always_leaves(prev.orelse) and \
                        not self._always_leaves(prev.body):
                    out.append((prev.test, True))
            if isinstance(owner, ast.If):
                out.append((owner.test, field == 'body'))
            if isinstance(owner, ast.stmt):
                st = owner
            elif isinstance(owner, ast.ExceptHandler):
                st = self.parent.get(owner)
            else:
                break
        return out

    @staticmethod
    def _always_leaves(blk):
        if not blk:
            return False
        last = blk[-1]
        if isinstance(last, (ast.Continue, ast.Return, ast.Raise, ast.Break)):
            return True
        if isinstance(last, ast.If) and last.orelse:
            return Flow._always_leaves(last.body) and Flow._always_leaves(last.orelse)
        return False

    def order(self, a, b):
        """True when statement a textually precedes b in the same or an enclosing block chain"""
        return (a.lineno, a.col_offset) < (b.lineno, b.col_offset)

    def dominates(self, a, b):
        """a executes on every path to b: a is an earlier sibling of b, or of a statement enclosing b"""
        a = self.stmt_of(a)
        b = self.stmt_of(b)
        oa = self.block_of.get(a)
        if oa is None:
            return False
        n = b
        while n in self.block_of:
            ob = self.block_of[n]
            if ob[0] is oa[0] and ob[1] == oa[1]:
                return oa[2] < ob[2]
            owner = ob[0]
            n = owner if isinstance(owner, ast.stmt) else self.parent.get(owner)
        return False

    def reaching_defs(self, name, node):
        """assignments `name = ...` / `name op= ...` / loop targets that may reach `node`
        (walks backwards through enclosing blocks; stops at the first dominating definition)"""
        res = []
        st = self.stmt_of(node)
        cur = st
        while cur is not None and cur is not self.fn:
            owner, field, idx = self.block_of.get(cur, (None, None, None))
            if owner is None:
                break
            blk = getattr(owner, field)
            for prev in reversed(blk[:idx]):
                ds = self._defs_in(prev, name)
                if ds:
                    res.extend(ds)
                    if self._definitely_defines(prev, name):
                        return res
            if isinstance(owner, (ast.For,)) and field == 'body':
                if name in {n.id for n in ast.walk(owner.target) if isinstance(n, ast.Name)}:
                    res.append(owner)
                    return res
                # loop-carried definitions later in the body
                for later in blk[idx:]:
                    res.extend(self._defs_in(later, name))
            cur = owner if isinstance(owner, ast.stmt) else self.parent.get(owner)
        # parameters
        for a in self.fn.args.args + self.fn.args.kwonlyargs:
            if a.arg == name:
                res.append(a)
        return res

    def _defs_in(self, st, name):
        out = []
        for n in ast.walk(st):
            if isinstance(n, (ast.Assign, ast.AugAssign, ast.AnnAssign)):
                targets = n.targets if isinstance(n, ast.Assign) else [n.target]
                for t in targets:
                    for x in ast.walk(t):
                        if isinstance(x, ast.Name) and x.id == name and isinstance(x.ctx, ast.Store):
                            out.append(n)
            elif isinstance(n, ast.For):
                for x in ast.walk(n.target):
                    if isinstance(x, ast.Name) and x.id == name:
                        out.append(n)
        return out

    def _definitely_defines(self, st, name):
        if isinstance(st, ast.Assign):
            return any(isinstance(t, ast.Name) and t.id == name for t in st.targets)
        if isinstance(st, ast.If) and st.orelse:
            return any(self._definitely_defines(s, name) for s in st.body) and \
                any(self._definitely_defines(s, name) for s in st.orelse)
        return False

    def statements(self):
        for n in ast.walk(self.fn):
            if isinstance(n, ast.stmt) and n is not self.fn:
                yield n

    def returns(self):
        return [n for n in ast.walk(self.fn) if isinstance(n, ast.Return)]


def norm(node):
    return ast.unparse(node).replace(' ', '')


def is_self_attr(node, attr=None):
    return isinstance(node, ast.Attribute) and isinstance(node.value, ast.Name) and node.value.id == 'self' \
        and (attr is None or node.attr == attr)


def call_name(node):
    """dotted name of the callee of a Call, or None"""
    if not isinstance(node, ast.Call):
        return None
    f = node.func
    parts = []
    while isinstance(f, ast.Attribute):
        parts.append(f.attr)
        f = f.value
    if isinstance(f, ast.Name):
        parts.append(f.id)
        return '.'.join(reversed(parts))
    return None
