"""E1 -- program model: the resolved package, not text.

Parses every module of the package under analysis (never imports or runs it), builds
module -> class -> function tables, import maps, linearised MRO ("last definition wins"
for duplicate methods), property tables, and per-class attribute tables.
"""
import ast
import os
import warnings
import hashlib

REPO = os.environ.get('PV_REPO', '/repo')
PKG = 'pyPRISM'


class AnalysisError(Exception):
    """the analysis cannot proceed (anchor vanished, unparsable module ...) -> exit 2"""


class FuncInfo(object):
    def __init__(self, node, module, cls=None):
        self.node = node
        self.module = module
        self.cls = cls
        self.name = node.name if hasattr(node, 'name') else '<lambda>'

    @property
    def qualname(self):
        if self.cls is not None:
            return '%s::%s.%s' % (self.module.name, self.cls.name, self.name)
        return '%s::%s' % (self.module.name, self.name)

    @property
    def params(self):
        a = self.node.args
        return [x.arg for x in a.posonlyargs + a.args]

    def loc(self, node=None):
        n = node if node is not None else self.node
        return '%s:%d' % (self.module.relpath, getattr(n, 'lineno', 0))

    def __repr__(self):
        return '<Func %s>' % self.qualname


class ClassInfo(object):
    def __init__(self, node, module):
        self.node = node
        self.module = module
        self.name = node.name
        self.base_exprs = node.bases
        self.bases = []          # resolved ClassInfo (package classes only)
        self.ext_bases = []      # names of bases outside the package
        self.methods = {}        # name -> FuncInfo (last definition wins)
        self.dup_methods = {}    # name -> [FuncInfo...] all definitions
        self.getters = {}        # property name -> FuncInfo
        self.setters = {}
        self.class_attrs = {}    # name -> ast value node
        for st in node.body:
            if isinstance(st, ast.FunctionDef):
                fi = FuncInfo(st, module, self)
                decos = [ast.unparse(d) for d in st.decorator_list]
                if 'property' in decos:
                    self.getters[st.name] = fi
                elif any(d.endswith('.setter') for d in decos):
                    self.setters[st.name] = fi
                else:
                    self.methods[st.name] = fi
                    self.dup_methods.setdefault(st.name, []).append(fi)
            elif isinstance(st, ast.Assign):
                for t in st.targets:
                    if isinstance(t, ast.Name):
                        self.class_attrs[t.id] = st.value
                    elif isinstance(t, (ast.Tuple, ast.List)) and isinstance(st.value, (ast.Tuple, ast.List)) and \
                            len(t.elts) == len(st.value.elts) and not any(isinstance(e, ast.Starred) for e in st.value.elts):
                        for te, ve in zip(t.elts, st.value.elts):     # A, B = 1.0, 'nanometer'
                            if isinstance(te, ast.Name):
                                self.class_attrs[te.id] = ve

    @property
    def qualname(self):
        return '%s::%s' % (self.module.name, self.name)

    def mro(self):
        out = [self]
        for b in self.bases:
            for c in b.mro():
                if c not in out:
                    out.append(c)
        return out

    def find_method(self, name, after=None):
        """resolve through the MRO; `after`: start after that class (super())"""
        mro = self.mro()
        if after is not None:
            mro = mro[mro.index(after) + 1:]
        for c in mro:
            if name in c.methods:
                return c.methods[name]
        return None

    def find_getter(self, name):
        for c in self.mro():
            if name in c.getters:
                return c.getters[name]
        return None

    def find_setter(self, name):
        for c in self.mro():
            if name in c.setters:
                return c.setters[name]
        return None

    def find_class_attr(self, name):
        for c in self.mro():
            if name in c.class_attrs:
                return c, c.class_attrs[name]
        return None, None

    def is_subclass_of(self, other):
        return other in self.mro()

    def subclass_of_name(self, name):
        return any(c.name == name for c in self.mro())

    def __repr__(self):
        return '<Class %s>' % self.qualname


class ModuleInfo(object):
    def __init__(self, name, path, relpath, src):
        self.name = name
        self.path = path
        self.relpath = relpath
        self.src = src
        with warnings.catch_warnings():
            warnings.simplefilter('ignore')
            self.tree = ast.parse(src, filename=path)
        self.classes = {}
        self.functions = {}
        self.imports = {}      # local name -> ('module', dotted) | ('from', dotted_module, name)
        self.globals = {}      # name -> ast value node (module level constants)
        self._scan(self.tree.body)

    def _scan(self, body):
        for st in body:
            if isinstance(st, ast.ClassDef):
                self.classes[st.name] = ClassInfo(st, self)
            elif isinstance(st, ast.FunctionDef):
                self.functions[st.name] = FuncInfo(st, self)
            elif isinstance(st, ast.Import):
                for a in st.names:
                    self.imports[a.asname or a.name.split('.')[0]] = ('module', a.name if a.asname else a.name.split('.')[0])
            elif isinstance(st, ast.ImportFrom):
                if st.module == '__future__':
                    continue
                for a in st.names:
                    self.imports[a.asname or a.name] = ('from', st.module, a.name)
            elif isinstance(st, ast.Assign):
                for t in st.targets:
                    if isinstance(t, ast.Name):
                        self.globals[t.id] = st.value
            elif isinstance(st, ast.Try):
                self._scan(st.body)
                for h in st.handlers:
                    self._scan(h.body)
                self._scan(st.orelse)
            elif isinstance(st, ast.If):
                self._scan(st.body)
                self._scan(st.orelse)


class Program(object):
    def __init__(self, repo=None):
        self.repo = repo or REPO
        self.root = os.path.join(self.repo, PKG)
        if not os.path.isdir(self.root):
            raise AnalysisError('package directory %s not found' % self.root)
        self.modules = {}
        self.not_analysed = []
        h = hashlib.sha256()
        for dp, dns, fns in os.walk(self.root):
            dns.sort()
            rel = os.path.relpath(dp, self.repo)
            if rel.split(os.sep)[:2] == [PKG, 'test']:
                dns[:] = []
                continue
            for fn in sorted(fns):
                full = os.path.join(dp, fn)
                relp = os.path.relpath(full, self.repo)
                if fn.endswith('.py'):
                    src = open(full, encoding='utf-8').read()
                    h.update(relp.encode())
                    h.update(src.encode())
                    name = relp[:-3].replace(os.sep, '.')
                    if name.endswith('.__init__'):
                        name = name[:-9]
                    try:
                        self.modules[name] = ModuleInfo(name, full, relp, src)
                    except SyntaxError as e:
                        raise AnalysisError('cannot parse %s: %s' % (relp, e))
                elif fn.endswith(('.pyx', '.c', '.so')):
                    self.not_analysed.append(relp)
        self.digest = h.hexdigest()[:16]
        if os.path.isdir(os.path.join(self.repo, 'build')):
            self.not_analysed.append('build/ (stale copy, not part of the package)')
        self.not_analysed.append('%s/test/** (tests are not the subject)' % PKG)
        self._resolve_bases()

    # ------------------------------------------------------------------------------------------
    def _resolve_bases(self):
        for m in self.modules.values():
            for c in m.classes.values():
                for b in c.base_exprs:
                    r = self.resolve_name_in_module(m, b)
                    if isinstance(r, ClassInfo):
                        c.bases.append(r)
                    else:
                        c.ext_bases.append(ast.unparse(b))

    def classes_named(self, name):
        return [c for m in self.modules.values() for c in m.classes.values() if c.name == name]

    def resolve_name_in_module(self, m, node, _depth=0):
        """resolve a Name / dotted Attribute appearing in module m to ClassInfo / FuncInfo /
        ModuleInfo / ('ext', dotted) / None"""
        if _depth > 8:
            return None
        if isinstance(node, ast.Name):
            n = node.id
            if n in m.classes:
                return m.classes[n]
            if n in m.functions:
                return m.functions[n]
            if n in m.imports:
                imp = m.imports[n]
                if imp[0] == 'module':
                    if imp[1] in self.modules:
                        return self.modules[imp[1]]
                    return ('ext', imp[1])
                _, mod, name = imp
                if mod in self.modules:
                    tm = self.modules[mod]
                    full = mod + '.' + name
                    if full in self.modules:
                        return self.modules[full]
                    return self.resolve_name_in_module(tm, ast.Name(id=name), _depth + 1)
                full = (mod or '') + '.' + name
                if full in self.modules:
                    return self.modules[full]
                return ('ext', full)
            return None
        if isinstance(node, ast.Attribute):
            base = self.resolve_name_in_module(m, node.value, _depth + 1)
            if isinstance(base, ModuleInfo):
                sub = base.name + '.' + node.attr
                if sub in self.modules:
                    return self.modules[sub]
                return self.resolve_name_in_module(base, ast.Name(id=node.attr), _depth + 1)
            if isinstance(base, tuple) and base[0] == 'ext':
                return ('ext', base[1] + '.' + node.attr)
            if isinstance(base, ClassInfo):
                return base.find_method(node.attr) or ('classattr', base, node.attr)
            return None
        return None

    # ------------------------------------------------------------------------------------------
    def module(self, name):
        m = self.modules.get(name)
        if m is None:
            raise AnalysisError('anchor module %s vanished' % name)
        return m

    def cls(self, qual):
        """'pyPRISM.core.Domain::Domain' or unique bare class name"""
        if '::' in qual:
            mod, name = qual.split('::')
            c = self.module(mod).classes.get(name)
            if c is None:
                raise AnalysisError('anchor class %s vanished' % qual)
            return c
        hits = [c for m in self.modules.values() for c in m.classes.values() if c.name == qual]
        if len(hits) != 1:
            raise AnalysisError('anchor class %s: %d definitions found' % (qual, len(hits)))
        return hits[0]

    def func(self, qual):
        mod, name = qual.split('::')
        m = self.module(mod)
        if '.' in name:
            cn, fn = name.split('.')
            c = m.classes.get(cn)
            if c is None:
                raise AnalysisError('anchor class %s::%s vanished' % (mod, cn))
            f = c.find_method(fn) or c.setters.get(fn) or c.getters.get(fn)
        else:
            f = m.functions.get(name)
        if f is None:
            raise AnalysisError('anchor function %s vanished' % qual)
        return f

    def all_classes(self):
        for m in sorted(self.modules.values(), key=lambda x: x.name):
            for c in m.classes.values():
                yield c

    def subclasses_of(self, basename):
        return [c for c in self.all_classes() if c.subclass_of_name(basename) and c.name != basename]

    def all_functions(self):
        """every FunctionDef / method (all duplicate definitions included)"""
        for m in sorted(self.modules.values(), key=lambda x: x.name):
            for f in m.functions.values():
                yield f
            for c in m.classes.values():
                seen = set()
                for lst in c.dup_methods.values():
                    for f in lst:
                        yield f
                for f in list(c.getters.values()) + list(c.setters.values()):
                    yield f

    def stats(self):
        nfun = sum(1 for _ in self.all_functions())
        nlam = 0
        for m in self.modules.values():
            nlam += sum(1 for n in ast.walk(m.tree) if isinstance(n, ast.Lambda))
        return {'modules_parsed': len(self.modules), 'functions': nfun, 'lambdas': nlam,
                'classes': sum(1 for _ in self.all_classes()), 'source_digest': self.digest}


_PROGRAMS = {}


def load(repo=None):
    repo = repo or os.environ.get('PV_REPO', '/repo')
    p = _PROGRAMS.get(repo)
    if p is None:
        p = _PROGRAMS[repo] = Program(repo)
    return p


def docstring_stripped(body):
    if body and isinstance(body[0], ast.Expr) and isinstance(body[0].value, ast.Constant) \
            and isinstance(body[0].value.value, str):
        return body[1:]
    return body
