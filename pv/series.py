"""E3 (non-commutative part): MatrixArray-level terms.

Matrix products (`dot`), inverses (`inv`) and the linear space transforms (`toF`/`toR`) do not commute
with each other, so a tensor-valued term is canonicalised in two layers:

  * matrix algebra -> formal power series over words in matrix letters with commutative scalar
    coefficients; inv(1 - X) is expanded as sum X^n (X must have zero constant term), truncated at
    word length D.  Two rational expressions whose linear representations have dimension n1, n2 are
    equal iff their series agree on all words shorter than n1+n2 (recognisable-series equality), so
    D = 2*(size+1) decides equality and inequality alike.
  * linear operators toF/toR: scalars pulled out, sums distributed, toR(toF(x)) = x.

Hadamard (entrywise) products of two tensors are kept as opaque letters / outer factors.
"""
from . import nf as N

MAT_FNS = ('dot', 'inv', 'nc')


class Canon(object):
    def __init__(self, is_array_atom, identity_syms=('Iden',), degree=10, scalar_arrays=()):
        self.is_array = is_array_atom
        self.identity = set(identity_syms)
        self.D = degree
        self.scalar_arrays = set(scalar_arrays)   # arrays that act as scalars for transforms (none)
        self.letters = {}

    # ---- helpers -----------------------------------------------------------------------------
    def has_array(self, nf):
        return any(self.is_array(a) for a in nf.all_atoms())

    def split_mono(self, m):
        scal, arr = [], []
        for a, e in m:
            x = N.NF.atom(a, e)
            (arr if self.has_array(x) else scal).append((a, e))
        return tuple(scal), tuple(arr)

    # ---- public ------------------------------------------------------------------------------
    def canon(self, t):
        """canonical NF of a tensor-valued term"""
        def leaf(a):
            if a[0] == 'fn' and a[1] in ('toF', 'toR'):
                inner = self.canon(self._arg(a[2]))
                return self._linop(a[1], inner)
            if a[0] == 'fn' and a[1] in ('dot', 'inv'):
                s = self.series(N.NF.atom(a))
                return self._embed(s)
            return None
        return N.transform(t, leaf)

    @staticmethod
    def _arg(k):
        return N.nf_from_key(k) if N.is_nfkey(k) else N.NF.atom(k)

    def _linop(self, name, arg):
        inv = {'toF': 'toR', 'toR': 'toF'}[name]
        den = N.NF(arg.den)
        if self.has_array(den):
            return N.fn(name, arg)
        total = N.NF.const(0)
        for m, c in arg.num.items():
            scal, arr = self.split_mono(m)
            s = N.NF({scal: c})
            if not arr:
                total = total + s * N.fn(name, N.NF.const(1))
                continue
            if len(arr) == 1 and arr[0][1] == 1 and arr[0][0][0] == 'fn' and arr[0][0][1] == inv:
                total = total + s * self._arg(arr[0][0][2])
                continue
            total = total + s * N.fn(name, N.NF({arr: N.ONE}))
        return total / den

    # ---- series -------------------------------------------------------------------------------
    def series(self, t):
        """dict word -> NF coefficient"""
        den = N.NF(t.den)
        if self.has_array(den):
            return {(self._letter(t),): N.NF.const(1)}
        out = {}
        for m, c in t.num.items():
            scal, arr = self.split_mono(m)
            coef = N.NF({scal: c}) / den
            if not arr:
                # a scalar added to a matrix: numpy broadcasts it to every entry -- not matrix algebra
                self._add(out, (('scalar-broadcast',),), coef)
                continue
            if len(arr) == 1 and arr[0][1] == 1:
                a = arr[0][0]
                sub = self._atom_series(a)
                for w, k in sub.items():
                    self._add(out, w, coef * k)
            else:
                self._add(out, (self._letter(N.NF({arr: N.ONE})),), coef)
        return out

    def _atom_series(self, a):
        if a[0] == 'sym' and a[1] in self.identity:
            return {(): N.NF.const(1)}
        if a[0] == 'fn' and a[1] == 'dot':
            x = self.series(self._arg(a[2]))
            y = self.series(self._arg(a[3]))
            return self._mul(x, y)
        if a[0] == 'fn' and a[1] == 'inv':
            s = self.series(self._arg(a[2]))
            c0 = s.get((), N.NF.const(0))
            if not c0.equals(N.NF.const(1)):
                return {(self._letter(N.NF.atom(a)),): N.NF.const(1)}
            x = {w: -k for w, k in s.items() if w != ()}
            # sum_{n>=0} x^n
            total = {(): N.NF.const(1)}
            power = {(): N.NF.const(1)}
            for _ in range(self.D):
                power = self._mul(power, x)
                if not power:
                    break
                for w, k in power.items():
                    self._add(total, w, k)
            return total
        if a[0] == 'fn' and a[1] in ('toF', 'toR'):
            inner = self.canon(N.NF.atom(a))
            if inner.is_monomial() and inner.key() == N.NF.atom(a).key():
                return {(self._letter(inner),): N.NF.const(1)}
            return self.series(inner)
        return {(self._letter(N.NF.atom(a)),): N.NF.const(1)}

    def _letter(self, nf):
        s = N.show(nf)
        self.letters[s] = nf
        return s

    def _add(self, d, w, k):
        if len([x for x in w]) > self.D:
            return
        cur = d.get(w)
        new = k if cur is None else cur + k
        if new.is_zero():
            d.pop(w, None)
        else:
            d[w] = new

    def _mul(self, x, y):
        out = {}
        for w1, k1 in x.items():
            for w2, k2 in y.items():
                w = w1 + w2
                if len(w) > self.D:
                    continue
                self._add(out, w, k1 * k2)
        return out

    def _embed(self, s):
        total = N.NF.const(0)
        for w, k in s.items():
            if w == ():
                total = total + k * N.sym('Iden')
            else:
                total = total + k * N.NF.atom(('fn', 'word', ' . '.join(w)))
        return total

    def equal(self, a, b):
        return self.canon(a).equals(self.canon(b))

    def first_difference(self, a, b):
        ca, cb = self.canon(a), self.canon(b)
        d = ca - cb
        if d.is_zero():
            return None
        words = []
        for m, c in list(d.num.items())[:4]:
            words.append(N.show(N.NF({m: c})))
        return '; '.join(words)


def size(t):
    """number of matrix operators in a term (for the truncation bound)"""
    n = 0
    for a in t.all_atoms():
        if a[0] == 'fn' and a[1] in ('dot', 'inv'):
            n += 1
    return n
