"""Verdict collection, known-finding matching, evidence writing (protocol of DESIGN section 5)."""
import json
import os
import sys
import time
import traceback

from .interp import Unsupported, Raised, NeedDecision
from .model import AnalysisError
from . import nf as N

VERIF = os.path.dirname(os.path.dirname(os.path.abspath(__file__)))
HOLDS, VIOLATION, UNDECIDED, KNOWN = 'HOLDS', 'VIOLATION', 'UNDECIDED', 'KNOWN-FINDING'

TRUSTED = {
    'A1': 'Python semantics of the supported fragment; no setattr/exec/eval/__getattr__/metaclass in the package (checked: rule R00.dyn)',
    'A2': 'numpy/scipy semantics as summarised in pv/lib.py (fresh vs view, elementwise, DST-II/III pair, einsum, linalg.inv)',
    'A3': 'assert statements are live (no python -O)',
    'A4': 'symbols are algebraically independent reals; positive where under a fractional power',
    'A5': 'formula identities are identities over the reals; floating-point error is out of scope',
}


class Ctx(object):
    def __init__(self, prop, tier, prog, seed=0):
        self.prop = prop
        self.tier = tier
        self.prog = prog
        self.seed = seed
        self.obl = []
        self.t0 = time.time()
        self.rule_instances = {}
        self.samples = []
        self.extra = {}
        self.depends = {}
        self.trusted = set(['A1'])
        self.nontrivial = set()
        self.current_rule = None

    # ---- recording -----------------------------------------------------------------------------
    def _add(self, status, rule, construct, key='', detail='', loc=None, **kw):
        o = {'status': status, 'rule': rule, 'construct': construct, 'key': key, 'detail': detail,
             'loc': loc}
        o.update(kw)
        self.obl.append(o)
        self.rule_instances[rule] = self.rule_instances.get(rule, 0) + 1
        return o

    def holds(self, rule, construct, detail='', loc=None, nontrivial=True, sample=None, key=''):
        if nontrivial:
            self.nontrivial.add((rule, construct, key))
        if sample is not None and len(self.samples) < 12:
            self.samples.append({'rule': rule, 'construct': construct, 'verdict': HOLDS, 'case': sample})
        return self._add(HOLDS, rule, construct, key, detail, loc)

    def violation(self, rule, construct, key, detail, loc=None, **kw):
        self.nontrivial.add((rule, construct, key))
        return self._add(VIOLATION, rule, construct, key, detail, loc, **kw)

    def undecided(self, rule, construct, detail, loc=None, key=''):
        return self._add(UNDECIDED, rule, construct, key, detail, loc)

    def floor(self, rule, found, floor, what):
        """a rule that matches fewer instances than were confirmed by hand passes vacuously: refuse"""
        if found < floor:
            self.undecided(rule, 'instance-floor', '%s: found %d, confirmed floor is %d' % (what, found, floor))
        else:
            self.extra.setdefault('floors', {})[rule] = {'found': found, 'floor': floor, 'what': what}

    def run(self, rule_id, fn, *a, **kw):
        """run one rule function; analysis failures become UNDECIDED obligations"""
        self.current_rule = rule_id
        try:
            return fn(self, *a, **kw)
        except Unsupported as e:
            loc = None
            if getattr(e, 'node', None) is not None:
                loc = 'line %s' % getattr(e.node, 'lineno', '?')
            self.undecided(rule_id, getattr(fn, '__name__', '?'), 'outside the supported fragment: %s' % e, loc)
        except NeedDecision as e:
            self.undecided(rule_id, getattr(fn, '__name__', '?'), 'undeclared data-dependent branch: %s' % e)
        except Raised as e:
            self.undecided(rule_id, getattr(fn, '__name__', '?'), 'analysed code raises on the analysed path: %s at %s' % (e, e.loc))
        except AnalysisError as e:
            self.undecided(rule_id, getattr(fn, '__name__', '?'), 'anchor problem: %s' % e)
        except N.Incomplete as e:
            self.undecided(rule_id, getattr(fn, '__name__', '?'), 'normal form incomplete: %s' % e)
        except Exception as e:   # a bug in the analyser must never look like a verdict
            tb = traceback.format_exc().strip().split('\n')
            self.undecided(rule_id, getattr(fn, '__name__', '?'),
                           'ANALYSIS-ERROR %s: %s | %s' % (type(e).__name__, e, ' / '.join(tb[-6:])))
        return None

    def run_with_fallback(self, rule_id, primary, fallback):
        """run the semantic rule; only when it cannot decide (UNDECIDED, no violation) fall back to the shape-based rule"""
        n0 = len(self.obl)
        inst0 = dict(self.rule_instances)
        self.run(rule_id, primary)
        mine = self.obl[n0:]
        if any(o['status'] == UNDECIDED for o in mine) and not any(o['status'] == VIOLATION for o in mine):
            why = [o['detail'] for o in mine if o['status'] == UNDECIDED][:1]
            del self.obl[n0:]
            self.rule_instances = inst0
            self.extra.setdefault('fallbacks', []).append({'rule': rule_id, 'reason': why[0] if why else ''})
            n1 = len(self.obl)
            self.run(rule_id, fallback)
            # the shape-based rule may confirm a known-good shape; a shape it does not recognise is not a verdict
            for o in self.obl[n1:]:
                if o['status'] == VIOLATION:
                    o['status'] = UNDECIDED
                    o['detail'] = ('the method could not be executed abstractly (%s) and its shape is not one of the recognised '
                                   'ones: %s' % ((why[0] if why else '')[:120], o['detail']))

    # ---- finishing -------------------------------------------------------------------------------
    def finish(self, explanation, not_decided, assumptions=(), write=True):
        kf_path = os.path.join(VERIF, 'known_findings.json')
        known = []
        if os.path.exists(kf_path):
            known = json.load(open(kf_path)).get('findings', [])
        open_known = {(k['property'], k['rule'], k['construct'], k['key']): k for k in known
                      if k.get('status') == 'open'}
        used_known = set()
        viol = []
        for o in self.obl:
            if o['status'] == VIOLATION:
                kk = (self.prop, o['rule'], o['construct'], o['key'])
                if kk in open_known:
                    o['status'] = KNOWN
                    used_known.add(kk)
                else:
                    viol.append(o)
        und = [o for o in self.obl if o['status'] == UNDECIDED]
        lines = []
        for o in self.obl:
            lines.append('%-13s %-7s %s %s%s' % (o['status'], o['rule'], o['construct'],
                                                 ('[%s] ' % o['loc']) if o['loc'] else '', o['detail']))
        vdir = os.path.join(VERIF, 'evidence', 'violations')
        out_lines = []
        if viol and write:
            os.makedirs(vdir, exist_ok=True)
        for i, o in enumerate(viol):
            path = os.path.join(vdir, '%s-%d.json' % (self.prop, i))
            rec = {k: v for k, v in o.items() if isinstance(v, (str, int, float, type(None), list, dict))}
            rec['property'] = self.prop
            if write:
                with open(path, 'w') as f:
                    json.dump(rec, f, indent=1, sort_keys=True, default=str)
            else:
                path = 'rule=%s;construct=%s;key=%s' % (o['rule'], o['construct'], o['key'])
            out_lines.append('VIOLATION property=%s replay=%s' % (self.prop, path))
        for kk in sorted(used_known):
            k = open_known[kk]
            out_lines.append('KNOWN-FINDING: property=%s rule=%s construct=%s key=%s -- %s'
                             % (self.prop, k['rule'], k['construct'], k['key'], k.get('what', '')))
        for o in und:
            out_lines.append('ANALYSIS-UNDECIDED property=%s rule=%s construct=%s -- %s'
                             % (self.prop, o['rule'], o['construct'], o['detail']))
        n_ob = len(self.obl)
        n_dis = sum(1 for o in self.obl if o['status'] in (HOLDS, KNOWN))
        ev = {
            'property_id': self.prop,
            'tier': self.tier,
            'seed': int(self.seed),
            'level': 'other',
            'wall_s': round(time.time() - self.t0, 3),
            'violations': len(viol),
            'assumptions': list(assumptions) + [TRUSTED[a] for a in sorted(self.trusted)],
            'coverage': {
                'explanation': explanation + '  NOT DECIDED by this check: ' + not_decided,
                'obligations': n_ob,
                'discharged': n_dis,
                'evaluations': n_ob,
                'distinct_nontrivial': len(self.nontrivial),
                'rule': 'one obligation per (rule, construct, flag valuation); an obligation is non-trivial '
                        'when deciding it required extracting and normalising a term, enumerating an '
                        'ordering/space truth table, or a dominance/frame query on the parsed source; '
                        'distinct = distinct (rule, construct, key) triples',
                'samples': self.samples or [{'rule': o['rule'], 'construct': o['construct'],
                                             'verdict': o['status'], 'detail': o['detail']}
                                            for o in self.obl[:5]],
                'exhaustive': not und,
                'trusted_base': [TRUSTED[a] for a in sorted(self.trusted)],
                'checker_cmd': '/venv/bin/python /verif/check %s --tier %s' % (self.prop, self.tier),
                'rule_instances': self.rule_instances,
                'known_findings_matched': len(used_known),
                'undecided': len(und),
                'program': self.prog.stats(),
                'not_analysed': self.prog.not_analysed,
                'depends_on': self.depends,
            },
        }
        ev['coverage'].update(self.extra)
        if write:
            os.makedirs(os.path.join(VERIF, 'evidence'), exist_ok=True)
            with open(os.path.join(VERIF, 'evidence', '%s.json' % self.prop), 'w') as f:
                json.dump(ev, f, indent=1, sort_keys=True, default=str)
        self.evidence = ev
        for l in lines:
            if write or not l.startswith(HOLDS):
                print(l)
        print('-- %s tier=%s: %d obligations, %d hold, %d known findings, %d violations, %d undecided, %.2fs; '
              'analysed %d modules / %d functions (digest %s)'
              % (self.prop, self.tier, n_ob, n_dis - len(used_known), len(used_known), len(viol), len(und),
                 time.time() - self.t0, self.prog.stats()['modules_parsed'], self.prog.stats()['functions'],
                 self.prog.digest))
        for l in out_lines:
            print(l)
        if viol:
            return 1
        if und:
            return 2
        return 0
