"""E4/E5 -- abstract interpreter over the parsed package.

Abstract values are canonical terms (pv.nf / pv.pw), heap cells with identity (so that aliasing,
views and in-place writes are tracked: E5), symbolic type labels for pair loops, and abstract
objects for package classes.  Data conditions become piecewise terms; configuration flags are
given concretely by the caller (finite, enumerated); nothing is handed to a solver and no
pyPRISM code is imported or executed.

Anything outside the supported fragment raises Unsupported -> the obligation is UNDECIDED.
"""
import ast
from fractions import Fraction
from . import nf as N
from . import pw as P
from .model import ClassInfo, FuncInfo, ModuleInfo, docstring_stripped


class Unsupported(Exception):
    def __init__(self, msg, node=None, where=None):
        Exception.__init__(self, msg)
        self.node = node
        self.where = where


class Raised(Exception):
    """the analysed code raises on this path"""
    def __init__(self, exc, msg='', loc=None):
        Exception.__init__(self, '%s(%s)' % (exc, msg))
        self.exc = exc
        self.msg = msg
        self.loc = loc


class NeedDecision(Exception):
    def __init__(self, cond, loc):
        Exception.__init__(self, 'undecided branch %s at %s' % (cond, loc))
        self.cond = cond
        self.loc = loc


FALLBACK = object()


class _Return(Exception):
    def __init__(self, v):
        self.v = v


class _Continue(Exception):
    pass


class _Break(Exception):
    pass


# =============================================================================================
# values
# =============================================================================================
class Val(object):
    pass


class Num(Val):
    """immutable number or array value; t: NF or pw.Ite; kind: 'scalar' | 'array'"""
    def __init__(self, t, kind='scalar'):
        self.t = t
        self.kind = kind

    def __repr__(self):
        return 'Num<%s %s>' % (self.kind, P.show(self.t))


class Arr(Val):
    """heap cell (numpy array) with identity"""
    _n = 0

    def __init__(self, t, origin=None, interp=None):
        Arr._n += 1
        self.aid = Arr._n
        self.t = t
        self.origin = origin      # access path when the array pre-exists the analysed call
        self.fresh = origin is None
        self.cells = None         # {(i, j): term} for entries stored at concrete positions [:, i, j] (overrides t)
        if interp is not None:
            interp.live.append(self)

    kind = 'array'

    def __repr__(self):
        return 'Arr#%d<%s %s>' % (self.aid, self.origin or 'fresh', P.show(self.t))


class View(Val):
    """basic-index view of an Arr (writes go through)"""
    def __init__(self, base, idx):
        self.base = base
        self.idx = idx       # ('entry', la, lb) | ('slice', lo, hi) | ('at', i) | ('col', j) | ('diag', i)

    @property
    def kind(self):
        return 'scalar' if self.idx[0] in ('at', 'entryc') else 'array'

    def __repr__(self):
        return 'View<%r of %r>' % (self.idx, self.base)


class Masked(Val):
    def __init__(self, t, cond):
        self.t = t
        self.cond = cond
    kind = 'array'


class Mask(Val):
    def __init__(self, cond, kind='array'):
        self.cond = cond
        self.kind = kind

    def __repr__(self):
        return 'Mask<%s>' % self.cond.show()


class Const(Val):
    def __init__(self, v):
        self.v = v

    def __repr__(self):
        return 'Const(%r)' % (self.v,)


NONE = Const(None)
TRUE = Const(True)
FALSE = Const(False)


_SERIAL = [0]      # creation order of container values (dict objects, lists, sets): "was it made before this loop?"


class Obj(Val):
    _n = 0

    def __init__(self, cls, attrs=None, origin=None):
        Obj._n += 1
        self.oid = Obj._n
        _SERIAL[0] += 1
        self.serial = _SERIAL[0]
        self.cls = cls                 # ClassInfo or str (builtin/native kind)
        self.attrs = attrs if attrs is not None else {}
        self.origin = origin

    @property
    def clsname(self):
        return self.cls.name if isinstance(self.cls, ClassInfo) else self.cls

    def isa(self, name):
        if isinstance(self.cls, ClassInfo):
            return self.cls.subclass_of_name(name)
        return self.cls == name

    def __repr__(self):
        return 'Obj<%s#%d %s>' % (self.clsname, self.oid, self.origin or '')


class Func(Val):
    def __init__(self, node, env, module, selfobj=None, cls_ctx=None, info=None):
        self.node = node
        self.env = env
        self.module = module
        self.selfobj = selfobj
        self.cls_ctx = cls_ctx
        self.info = info

    @property
    def name(self):
        return getattr(self.node, 'name', '<lambda>')

    def __repr__(self):
        return 'Func<%s>' % self.name


class Native(Val):
    def __init__(self, name, fn, selfobj=None):
        self.name = name
        self.fn = fn
        self.selfobj = selfobj

    def __repr__(self):
        return 'Native<%s>' % self.name


class Seq(Val):
    def __init__(self, items, kind='tuple'):
        self.items = list(items)
        self.kind = kind
        _SERIAL[0] += 1
        self.serial = _SERIAL[0]

    def __repr__(self):
        return 'Seq%r' % (self.items,)


class Lib(Val):
    def __init__(self, name):
        self.name = name

    def __repr__(self):
        return 'Lib<%s>' % self.name


class ClassRef(Val):
    def __init__(self, cls):
        self.cls = cls

    def __repr__(self):
        return 'ClassRef<%s>' % self.cls.name


class Types(Val):
    """the symbolic list of site type labels of one system; `partial` marks a slice / filtered sub-list of it"""
    def __init__(self, name='types', partial=None):
        self.name = name
        self.partial = partial

    def __repr__(self):
        return 'Types<%s%s>' % (self.name, (' ' + self.partial) if self.partial else '')


class Label(Val):
    def __init__(self, name):
        self.name = name

    def __repr__(self):
        return 'Label<%s>' % self.name


class Index(Val):
    """integer position of a label in the type list"""
    def __init__(self, label):
        self.label = label

    def __repr__(self):
        return 'Index<%s>' % self.label


class LabelIter(Val):
    """symbolic iteration over type labels / pairs.  make(interp) -> (element value, ctx dict)"""
    def __init__(self, make, desc):
        self.make = make
        self.desc = desc


class Unknown(Val):
    def __init__(self, why):
        self.why = why

    def __repr__(self):
        return 'Unknown<%s>' % self.why


class Env(object):
    def __init__(self, parent=None):
        self.vars = {}
        self.parent = parent

    def get(self, name):
        e = self
        while e is not None:
            if name in e.vars:
                return e.vars[name]
            e = e.parent
        return None

    def set(self, name, v):
        self.vars[name] = v


class Frame(object):
    def __init__(self, func, env):
        self.func = func
        self.env = env
        self.module = func.module
        self.cls_ctx = func.cls_ctx
        self.selfobj = func.selfobj


# =============================================================================================
# helpers on terms
# =============================================================================================
def const_num(c):
    return Num(N.NF.const(c), 'scalar')


def is_const_num(v):
    return isinstance(v, Num) and not P.is_pw(v.t) and v.t.is_const()


def num_value(v):
    return v.t.const_value()


def frac_of_literal(node_value, text=None):
    if isinstance(node_value, bool):
        raise TypeError
    if isinstance(node_value, int):
        return Fraction(node_value)
    if isinstance(node_value, float):
        return Fraction(text if text is not None else repr(node_value))
    raise TypeError


ELEMENTWISE_FNS = ('log', 'sin', 'cos', 'abs')


# =============================================================================================
# the interpreter
# =============================================================================================
class Interp(object):
    MAX_DEPTH = 12

    def __init__(self, prog):
        self.prog = prog
        self.events = []
        self.guards = []
        self.notes = []
        self.calls = []
        self.live = []
        self.distinct = set()
        self.loopctx = []
        self.preset = []
        self.decisions = []
        Interp.LAST = self           # (explore() reads the decisions of a run that ended in an exception from here)
        self.reduce_flags = {}       # flag name of all(c)/any(c) -> (kind, c)
        self._memo_skip = None
        self.memo_tables = {}        # id(function node) -> [(key values, keyword names, result)] of lru_cache'd functions
        self.depth = 0
        self.sym_kind = {}
        self.symmetric = set()
        self.natives = {}
        self.num_methods = {}
        self.lib_overrides = {}
        self.frames = []
        self.sumdepth = 0
        self.label_n = 0
        self.trace_reads = None
        self.sumfacts = {}
        self.opaque_arith = False     # see arith_terms
        self.strict_asserts = False   # data-dependent asserts are decisions to explore (default: assumed to hold)
        self.python_scalars = False   # the symbolic scalars of this world are Python floats (division by exact zero raises)
        self.inf_syms = frozenset()   # symbols that stand for +infinity (IEEE rules apply to them, see ieee())
        self.nonneg = set()
        self.col_base = {}
        self.entry_writes = []
        self.class_state = {}      # (class, attribute node) -> the one shared value of a class-level attribute
        self.module_state = {}     # (module name, global name) -> value written through a `global` declaration
        self.label_alias = {}
        self.decided = {}
        self.str_methods = {}
        from . import lib
        self.lib = lib

    # ---- bookkeeping ---------------------------------------------------------------------------
    def loc(self, node):
        f = self.frames[-1] if self.frames else None
        rel = f.module.relpath if f is not None else '?'
        return '%s:%d' % (rel, getattr(node, 'lineno', 0))

    def event(self, kind, target, node, **kw):
        e = {'kind': kind, 'target': target, 'loc': self.loc(node) if node is not None else None,
             'func': self.frames[-1].func.name if self.frames else None,
             'stack': [fr.func.name for fr in self.frames]}
        e.update(kw)
        self.events.append(e)

    def declare(self, name, kind='scalar', symmetric=False, integer=False):
        self.sym_kind[name] = kind
        if symmetric:
            self.symmetric.add(name)
        if integer:
            N.declare_int(name)
        return N.sym(name)

    def new_label(self, hint='t'):
        self.label_n += 1
        return Label('%s%d' % (hint, self.label_n))

    # ---- decisions -----------------------------------------------------------------------------
    def decide(self, cond, node):
        """object-level branch on a data condition: use the oracle or ask the driver"""
        if cond.is_true():
            return True
        if cond.is_false():
            return False
        g = self.generic_rank(cond)
        if g is not None:
            return g
        k = cond.key()
        if k in self.decided:
            return self.decided[k]
        nk = (~cond).key()
        if nk in self.decided:
            return not self.decided[nk]
        n = len(self.decisions)
        if n < len(self.preset):
            b = self.preset[n]
            self.decisions.append((cond, b, self.loc(node)))
            self.decided[k] = b
            return b
        raise NeedDecision(cond, self.loc(node))

    def generic_rank(self, cond):
        """The symbolic number of site types `n_types` of the abstract MatrixArray / System worlds stands for a generic rank:
        at least two types.  A comparison of it with 0 or 1 is decided under that assumption (`if self.rank == 1:` is not
        taken), because the tensor algebra of these worlds (dot, inv, word) is the algebra of genuine matrices: on a rank-one
        path `A*B` IS `dot(A,B)`, which the normal form cannot know, so a correct one-component fast path would be reported.
        One-component behaviour of MatrixArray is decided by the concrete rank-one rule (R13.o) instead."""
        t = cond.t
        neg = False
        while t[0] == 'not':
            t, neg = t[1], not neg
        if t[0] != 'cmp':
            return None
        a, b = N.nf_from_key(t[1]), N.nf_from_key(t[2])

        def is_rank(x):
            # n_types itself, or the size of a matrix axis of some stack of matrices (data.shape[1], data.shape[2])
            ats = list(x.atoms())
            return len(ats) == 1 and ats[0][0] == 'sym' and x.equals(N.sym(ats[0][1])) and \
                (ats[0][1] == 'n_types' or ats[0][1].startswith(('shape1(', 'shape2(')))
        if is_rank(a) and b.is_const():
            c, outs = b.const_value(), t[3]
        elif is_rank(b) and a.is_const():
            c, outs = a.const_value(), frozenset({'lt': 'gt', 'gt': 'lt', 'eq': 'eq'}[o] for o in t[3])
        else:
            return None
        if c >= 2:
            return None
        if not getattr(self, '_generic_rank_noted', False):
            self._generic_rank_noted = True
            self.notes.append(('assumption', 'generic rank: n_types >= 2 (one-component paths of MatrixArray are decided by R13.o)'))
        r = 'gt' in outs           # n_types > c for c in {.., 0, 1}
        return (not r) if neg else r

    # ---- coercions ---------------------------------------------------------------------------
    def term_of(self, v, node=None):
        """(term, kind) for a numeric value"""
        if isinstance(v, Num):
            return v.t, v.kind
        if isinstance(v, Arr):
            if v.cells:
                raise Unsupported('whole-array use of an array whose entries were stored one position at a time', node)
            return v.t, 'array'
        if isinstance(v, View):
            return self.read_view(v, node), v.kind
        if isinstance(v, Const) and isinstance(v.v, bool):
            return N.NF.const(1 if v.v else 0), 'scalar'
        if isinstance(v, Mask) and getattr(v, 'indexcmp', None) is None and getattr(v, 'labelcmp', None) is None:
            # a boolean array in arithmetic is its 0/1 indicator
            return P.ite(v.cond, N.NF.const(1), N.NF.const(0)), v.kind
        if isinstance(v, Seq) and len(v.items) == 1:
            t, _ = self.term_of(v.items[0], node)
            return t, 'array'
        if isinstance(v, Unknown):
            raise Unsupported('value is unknown: %s' % v.why, node)
        raise Unsupported('not a number: %r' % (v,), node)

    def is_numeric(self, v):
        return isinstance(v, (Num, Arr, View)) or (isinstance(v, Seq) and len(v.items) == 1 and
                                                   self.is_numeric(v.items[0]))

    def fresh_array(self, t):
        return Arr(t, None, self)

    def make_result(self, t, kind):
        if kind == 'array':
            return self.fresh_array(t)
        return Num(t, 'scalar')

    # ---- views -----------------------------------------------------------------------------------
    def read_view(self, v, node=None):
        if v.idx[0] == 'entryc' and isinstance(v.base, Arr):
            return self.read_cell(v.base, v.idx[1], v.idx[2], node)
        if isinstance(v.base, Arr) and v.base.cells:
            raise Unsupported('view %r of an array whose entries were stored one position at a time' % (v.idx,), node)
        base_t = v.base.t if isinstance(v.base, Arr) else self.read_view(v.base, node)
        if v.idx[0] == 'reshape':
            return self.lib.reshape_term(self, base_t, v.idx[1], v.idx[2], node)
        return self.index_term(base_t, v.idx, node)

    def read_cell(self, arr, i, j, node=None):
        """pair function [:, i, j] of a stack of matrices, i and j concrete"""
        if arr.cells and (i, j) in arr.cells:
            return arr.cells[(i, j)]

        def leaf(a):
            if a[0] == 'fn' and a[1] in ELEMENTWISE_FNS:
                return None
            if a[0] == 'fn' and a[1] == 'ident':
                return N.NF.const(1 if i == j else 0)
            if self.atom_is_array(a):
                return N.fn('entc', N.NF.atom(a), N.NF.const(i), N.NF.const(j))
            if a[0] in ('sym', 'fn'):
                return N.NF.atom(a)
            return None
        return P.lift1(lambda x: N.transform(x, leaf), arr.t)

    def sign_of(self, t):
        """'+' if t >= 0, '-' if t <= 0 on every iteration of the enclosing summation loops
        (interval reasoning on the loop headers only), else None"""
        if P.is_pw(t):
            return None
        if t.is_const():
            return '+' if t.const_value() >= 0 else '-'
        for _ in range(8):
            vs = [v for v in t.symbols() if v in self.sumfacts]
            if not vs:
                break
            t = N.subs(t, {v: self.sumfacts[v] + N.sym('@d_' + v) for v in vs})
        if not t.is_poly():
            return None
        signs = set()
        for m, c in t.num.items():
            for a, e in m:
                if not (a[0] == 'sym' and (a[1].startswith('@d_') or a[1] in self.nonneg)):
                    return None
            signs.add(c > 0)
        if signs == {True}:
            return '+'
        if signs == {False}:
            return '-'
        return None

    def index_term(self, t, idx, node=None):
        k = idx[0]
        if k == 'entry':
            return P.lift1(lambda x: self.entry_of(x, idx[1], idx[2], node), t)
        if k in ('slice', 'at', 'col'):
            return P.lift1(lambda x: self.slice_of(x, idx), t)
        raise Unsupported('unsupported view kind %r' % (idx,), node)

    def atom_is_array(self, a):
        t = a[0]
        if t == 'sym':
            return self.sym_kind.get(a[1], 'scalar') != 'scalar'
        if t == 'fn':
            return a[1] in ('ent', 'dst2', 'dst3', 'dot', 'inv', 'tab', 'upd', 'toF', 'toR', 'iota',
                            'slice', 'col', 'col3', 'unflat', 'flat', 'uncol3', 'mesh0', 'mesh1',
                            'farange', 'toF1', 'toR1', 'ident', 'word') or a[1].startswith('einsum:')
        return False

    def slice_of(self, x, idx):
        def leaf(a):
            if a[0] == 'fn' and a[1] in ELEMENTWISE_FNS:
                return None
            if self.atom_is_array(a):
                return N.fn(idx[0], N.NF.atom(a), *[i if isinstance(i, N.NF) else N.NF.const(i) for i in idx[1:]])
            if a[0] in ('sym', 'fn'):
                return N.NF.atom(a)
            return None
        return N.transform(x, leaf)

    def canon_label(self, a):
        seen = 0
        while a in self.label_alias and seen < 16:
            a = self.label_alias[a]
            seen += 1
        return a

    def labels_equal(self, a, b):
        """three valued: True / False / None"""
        a, b = self.canon_label(a), self.canon_label(b)
        if a == b:
            return True
        if frozenset((a, b)) in self.distinct:
            return False
        return None

    def decide_labels_equal(self, a, b, node=None):
        """case split on the identity of two type labels (explored by the driver, never guessed)"""
        e = self.labels_equal(a, b)
        if e is not None:
            return e
        a, b = self.canon_label(a), self.canon_label(b)
        x, y = sorted((a, b))
        r = self.decide(P.Cond.flag('%s==%s' % (x, y)), node)
        if r:
            # alias the later-created label to the earlier one
            self.label_alias[y] = x
        else:
            self.distinct.add(frozenset((a, b)))
        return r

    def pair_same(self, p, q):
        (a, b), (c, d) = p, q
        e1 = self._and3(self.labels_equal(a, c), self.labels_equal(b, d))
        e2 = self._and3(self.labels_equal(a, d), self.labels_equal(b, c))
        return self._or3(e1, e2)

    @staticmethod
    def _and3(x, y):
        if x is False or y is False:
            return False
        if x is True and y is True:
            return True
        return None

    @staticmethod
    def _or3(x, y):
        if x is True or y is True:
            return True
        if x is False and y is False:
            return False
        return None

    def entry_of(self, x, la, lb, node=None):
        """the (la,lb) pair function of a tensor-valued elementwise term"""
        def leaf(a):
            t = a[0]
            if t == 'sym':
                kind = self.sym_kind.get(a[1], 'scalar')
                if kind in ('scalar', 'curve'):
                    return N.NF.atom(a)
                if kind == 'col':
                    return N.sym(self.col_base[a[1]])
                l1, l2 = la, lb
                if a[1] in self.symmetric and l1 > l2:
                    l1, l2 = l2, l1
                return N.NF.atom(('fn', 'ent', a[1], l1, l2))
            if t == 'fn':
                f = a[1]
                if f in ELEMENTWISE_FNS:
                    return None
                if f == 'upd':
                    base = N.nf_from_key(a[2])
                    same = self.pair_same((a[3], a[4]), (la, lb))
                    if same is True:
                        return N.nf_from_key(a[5])
                    if same is False:
                        return self.entry_of(base, la, lb, node)
                    raise Unsupported('cannot decide whether pair (%s,%s) is the written pair (%s,%s)'
                                      % (la, lb, a[3], a[4]), node)
                if f == 'tab':
                    body = N.nf_from_key(a[2])
                    l1, l2 = la, lb
                    return relabel(body, {'@a': l1, '@b': l2}, self.symmetric)
                if f == 'ident':
                    same = self.labels_equal(la, lb)
                    if same is True:
                        return N.NF.const(1)
                    if same is False:
                        return N.NF.const(0)
                    raise Unsupported('identity entry with undecided labels', node)
                if f == 'col3':
                    k = a[2]
                    return N.nf_from_key(k) if N.is_nfkey(k) else N.NF.atom(k)
                if self.atom_is_array(a) or f in ('dot', 'inv', 'toF', 'toR'):
                    if f in ('toF', 'toR'):
                        inner = self.entry_of(N.nf_from_key(a[2]), la, lb, node)
                        return N.fn(f + '1', inner)
                    return N.NF.atom(('fn', 'ent', a, la, lb))
                return N.NF.atom(a)
            return None
        return N.transform(x, leaf)

    def write_view(self, v, newt, node, how='store'):
        """in-place write through a (possibly nested) view: the root heap cell changes"""
        base = v.base
        if v.idx[0] == 'entryc' and isinstance(base, Arr):
            base_t = None
        else:
            base_t = base.t if isinstance(base, Arr) else self.read_view(base, node)
        if v.idx[0] == 'entry':
            _, la, lb = v.idx
            if P.is_pw(base_t) or P.is_pw(newt):
                raise Unsupported('piecewise tensor update', node)
            full = N.fn('upd', base_t, la, lb, newt)
            root = base
            while isinstance(root, View):
                root = root.base
            self.entry_writes.append({'arr': root, 'pair': (la, lb), 'term': newt,
                                      'loc': self.loc(node) if node is not None else None,
                                      'loop_labels': [l for c in self.loopctx for l in c.get('labels', ())]})
        elif v.idx[0] == 'entryc' and isinstance(base, Arr):
            if base.cells is None:
                base.cells = {}
            base.cells[(v.idx[1], v.idx[2])] = newt
            if not base.fresh:
                self.event('write', base.origin, node, via='view', how=how)
            return
        elif v.idx[0] == 'reshape':
            inv = {'unflat': 'flat', 'flat': 'unflat', 'col3': 'uncol3'}[v.idx[1]]
            full = self.lib.reshape_term(self, newt, inv, v.idx[2], node)
        else:
            raise Unsupported('write through view %r' % (v.idx,), node)
        if isinstance(base, View):
            return self.write_view(base, full, node, how)
        base.t = full
        if not base.fresh:
            self.event('write', base.origin, node, via='view', how=how)

    # ---- function calls ---------------------------------------------------------------------------
    def make_func(self, info, selfobj=None):
        return Func(info.node, None, info.module, selfobj, info.cls, info)

    def call(self, f, args, kwargs, node=None):
        if isinstance(f, Func):
            return self.call_function(f, args, kwargs, node)
        if isinstance(f, Native):
            r = f.fn(self, f.selfobj, args, kwargs, node)
            if r is FALLBACK:
                mname = f.name.split('.')[-1]
                m = f.selfobj.cls.find_method(mname)
                if m is None:
                    raise Unsupported('no interpreted fallback for %s' % f.name, node)
                return self.call_function(self.make_func(m, f.selfobj), args, kwargs, node)
            return r
        if isinstance(f, ClassRef):
            return self.construct(f.cls, args, kwargs, node)
        if isinstance(f, Lib):
            return self.lib.call(self, f.name, args, kwargs, node)
        if isinstance(f, Obj):
            m = self.get_attr(f, '__call__', node)
            return self.call(m, args, kwargs, node)
        if isinstance(f, Unknown):
            raise Unsupported('call of unknown value (%s)' % f.why, node)
        raise Unsupported('cannot call %r' % (f,), node)

    def memo_decorator(self, f, deco):
        """functools.lru_cache / functools.cache (however imported): the function is replaced by a memoising wrapper"""
        head = deco.split('(')[0]
        try:
            r = self.prog.resolve_name_in_module(f.module, ast.parse(head, mode='eval').body)
        except Exception:
            r = None
        name = r[1] if isinstance(r, tuple) and len(r) > 1 and r[0] == 'ext' else None
        return name in ('functools.lru_cache', 'functools.cache')

    def hash_equal(self, x, y, node):
        """do two call arguments denote the same cache key (hash equal and ==)?"""
        if x is y:
            return True
        for v in (x, y):
            if isinstance(v, (Arr, View, Masked)) or (isinstance(v, Seq) and v.kind in ('list', 'set')) or \
                    (isinstance(v, Obj) and v.cls == 'dict'):
                raise Raised('TypeError', 'unhashable type passed to a memoised function', self.loc(node))
        if isinstance(x, Obj) and isinstance(y, Obj) and isinstance(x.cls, ClassInfo):
            eq = x.cls.find_method('__eq__')
            if eq is None:
                return False                  # identity semantics
            if x.cls.find_method('__hash__') is None:
                raise Raised('TypeError', 'unhashable type: %s defines __eq__ without __hash__' % x.cls.name, self.loc(node))
            r = self.call_function(self.make_func(eq, x), [y], {}, node)
            if isinstance(r, Const) and r.v is NotImplemented:
                return False
            return bool(self.truth(r, node, ask=True))
        if isinstance(x, Obj) or isinstance(y, Obj):
            return False
        e = self.compare('Eq', x, y, node)
        return bool(self.truth(e, node, ask=True))

    def memo_call(self, f, args, kwargs, node):
        table = self.memo_tables.setdefault(id(f.node), [])
        key = ([f.selfobj] if f.selfobj is not None and not isinstance(f.node, ast.Lambda) else []) + list(args) + \
            [v for k, v in sorted(kwargs.items())]
        names = sorted(kwargs)
        for k0, n0, res in table:
            if n0 == names and len(k0) == len(key) and all(self.hash_equal(a_, b_, node) for a_, b_ in zip(k0, key)):
                return res
        self._memo_skip = f.node          # the wrapped function itself runs once for this miss
        res = self.call_function(f, args, kwargs, node)
        table.append((key, names, res))
        return res

    def construct(self, cls, args, kwargs, node=None):
        nat = self.natives.get((cls.name, '__new__'))
        if nat is not None:
            return nat(self, cls, args, kwargs, node)
        o = Obj(cls, {}, None)
        o.via_init = True
        init = cls.find_method('__init__')
        if init is not None:
            self.call_function(self.make_func(init, o), args, kwargs, node)
        return o

    def init_only_attr(self, o, name, node):
        """`o` is an abstract world object that was assembled without running its constructor: an attribute the real
        __init__ would have bound (a cache slot, a private helper table) is not absent.  A literal initial value is adopted;
        anything else is outside the model (UNDECIDED), never an AttributeError of the analysed program."""
        for c in o.cls.mro():
            init = c.methods.get('__init__')
            if init is None:
                continue
            for st in ast.walk(init.node):
                if not isinstance(st, (ast.Assign, ast.AnnAssign)):
                    continue
                for t in (st.targets if isinstance(st, ast.Assign) else [st.target]):
                    for tt in (t.elts if isinstance(t, (ast.Tuple, ast.List)) else [t]):
                        if isinstance(tt, ast.Attribute) and tt.attr == name and isinstance(tt.value, ast.Name) and tt.value.id == 'self':
                            v = st.value
                            if isinstance(v, ast.Constant) and not isinstance(t, (ast.Tuple, ast.List)):
                                o.attrs[name] = Const(v.value) if not isinstance(v.value, (int, float)) or isinstance(v.value, bool) \
                                    else self.eval(v, Env(None))
                                return o.attrs[name]
                            if isinstance(v, (ast.Dict, ast.List, ast.Set)) and not (getattr(v, 'keys', None) or getattr(v, 'elts', None)):
                                o.attrs[name] = self.eval(v, Env(None))
                                return o.attrs[name]
                            raise Unsupported('attribute %s is bound by %s.__init__, which the abstract %s object of this world did '
                                              'not run' % (name, c.name, o.clsname), node)
        return None

    def call_function(self, f, args, kwargs, node=None):
        if self.depth >= self.MAX_DEPTH:
            raise Unsupported('inlining depth exceeded', node)
        fnode = f.node
        a = fnode.args
        env = Env(f.env)
        params = [x.arg for x in a.posonlyargs + a.args]
        args = list(args)
        decos = [ast.unparse(d_) for d_ in getattr(fnode, 'decorator_list', [])]
        memo_key = None
        for d_ in decos:
            base_ = d_.split('(')[0]
            if base_ in ('staticmethod', 'classmethod', 'property', 'abc.abstractmethod', 'abstractmethod') or \
                    base_.endswith('.setter') or base_.endswith('.getter'):
                continue
            if self.memo_decorator(f, d_):
                memo_key = d_
                continue
            # any other decorator replaces the function by something else (a memoising wrapper, a validator ...): calling
            # the undecorated body would analyse a different program
            raise Unsupported('function %s is wrapped by the decorator @%s, which is not modelled' % (f.name, d_), node)
        if memo_key is not None and self._memo_skip is not f.node:
            return self.memo_call(f, args, kwargs, node)
        self._memo_skip = None
        if 'staticmethod' in decos:
            pass                                    # no implicit first argument
        elif 'classmethod' in decos and f.selfobj is not None:
            args = [ClassRef(f.selfobj.cls) if isinstance(f.selfobj, Obj) and isinstance(f.selfobj.cls, ClassInfo) else f.selfobj] + args
        elif f.selfobj is not None and not isinstance(fnode, ast.Lambda):
            args = [f.selfobj] + args
        elif f.selfobj is not None and isinstance(fnode, ast.Lambda):
            pass
        if len(args) > len(params) and a.vararg is None:
            raise Raised('TypeError', '%s() takes %d positional arguments but %d were given'
                         % (f.name, len(params), len(args)), self.loc(node) if node is not None else None)
        bound = {}
        for p, v in zip(params, args):
            bound[p] = v
        if a.vararg is not None:
            bound[a.vararg.arg] = Seq(args[len(params):])
        kw = dict(kwargs)
        for p in params:
            if p in kw:
                if p in bound:
                    raise Raised('TypeError', 'multiple values for %s' % p)
                bound[p] = kw.pop(p)
        for ka in a.kwonlyargs:
            if ka.arg in kw:
                bound[ka.arg] = kw.pop(ka.arg)
        if kw:
            if a.kwarg is not None:
                bound[a.kwarg.arg] = Obj('dict', {'items': kw})
            else:
                raise Raised('TypeError', 'unexpected keyword %s' % sorted(kw))
        elif a.kwarg is not None:
            bound[a.kwarg.arg] = Obj('dict', {'items': {}})
        # defaults
        defaults = a.defaults
        dparams = params[len(params) - len(defaults):] if defaults else []
        fr = Frame(f, env)
        self.frames.append(fr)
        self.depth += 1
        try:
            # defaults were evaluated when the function was defined: for a method, in the namespace of the class body
            denv = env
            fcls = f.cls_ctx if isinstance(f.cls_ctx, ClassInfo) else None
            if fcls is not None and (defaults or a.kw_defaults):
                used = {n_.id for d_ in list(defaults) + [x for x in a.kw_defaults if x is not None]
                        for n_ in ast.walk(d_) if isinstance(n_, ast.Name)}
                names = [n_ for n_ in used if n_ in fcls.class_attrs and env.get(n_) is None]
                if names:
                    denv = Env(env)
                    for n_ in names:
                        denv.set(n_, self.eval_class_attr(fcls, fcls.class_attrs[n_]))
            for p, d in zip(dparams, defaults):
                if p not in bound:
                    bound[p] = self.eval(d, denv)
            for ka, d in zip(a.kwonlyargs, a.kw_defaults):
                if ka.arg not in bound and d is not None:
                    bound[ka.arg] = self.eval(d, denv)
            for p in params:
                if p not in bound:
                    raise Raised('TypeError', 'missing argument %s of %s' % (p, f.name))
            env.vars.update(bound)
            if f.info is not None:
                self.calls.append((f.info.qualname, self.loc(node) if node is not None else None))
            if isinstance(fnode, ast.Lambda):
                return self.eval(fnode.body, env)
            is_gen = any(isinstance(n_, (ast.Yield, ast.YieldFrom)) for n_ in _walk_same_scope(fnode))
            if is_gen:
                fr.yields = []
            try:
                self.exec_block(docstring_stripped(fnode.body), env)
            except _Return as r:
                if not is_gen:
                    return r.v
            if is_gen:
                # a generator is evaluated eagerly: the sequence of values it yields (all generators of the package are
                # consumed at once by a for loop; laziness is not observable there)
                return Seq(list(fr.yields), 'list')
            return NONE
        finally:
            self.depth -= 1
            self.frames.pop()

    # ---- statements ------------------------------------------------------------------------------
    def exec_block(self, stmts, env):
        for st in stmts:
            self.exec_stmt(st, env)

    def exec_stmt(self, st, env):
        m = getattr(self, 'st_' + type(st).__name__, None)
        if m is None:
            raise Unsupported('statement kind %s' % type(st).__name__, st)
        return m(st, env)

    def st_Pass(self, st, env):
        pass

    def st_Expr(self, st, env):
        if isinstance(st.value, ast.Constant):
            return
        if isinstance(st.value, ast.Yield):
            v = self.eval(st.value.value, env) if st.value.value is not None else NONE
            fr = self.frames[-1]
            if not hasattr(fr, 'yields'):
                raise Unsupported('yield outside an analysed generator', st)
            fr.yields.append(v)
            return
        self.eval(st.value, env)

    def st_Return(self, st, env):
        raise _Return(self.eval(st.value, env) if st.value is not None else NONE)

    def st_Continue(self, st, env):
        raise _Continue()

    def st_Break(self, st, env):
        raise _Break()

    def st_Import(self, st, env):
        for a in st.names:
            env.set(a.asname or a.name.split('.')[0], Lib(a.name if a.asname else a.name.split('.')[0]))

    def st_ImportFrom(self, st, env):
        for a in st.names:
            env.set(a.asname or a.name, Lib('%s.%s' % (st.module, a.name)))

    def st_Assert(self, st, env):
        v = self.eval(st.test, env)
        b = self.truth(v, st, ask=False)
        if b is None and self.strict_asserts:
            # the rule wants to see both outcomes of a data-dependent assertion (explored by the driver)
            b = self.truth(v, st, ask=True)
        self.guards.append({'kind': 'assert', 'node': st, 'loc': self.loc(st), 'value': b,
                            'func': self.frames[-1].func.name, 'cond': v})
        if b is False:
            raise Raised('AssertionError', ast.unparse(st.test), self.loc(st))

    def st_Raise(self, st, env):
        name = '?'
        if st.exc is not None:
            e = st.exc
            if isinstance(e, ast.Call):
                e = e.func
            name = ast.unparse(e)
            # an exception produced by a helper (raise self._error()) or bound to a name: evaluate it; what is raised is
            # the class of the resulting exception object
            simple = isinstance(e, ast.Name) or (isinstance(e, ast.Attribute) and isinstance(e.value, ast.Name) and
                                                 e.value.id not in ('self',))
            if simple and isinstance(st.exc, ast.Call):
                # the arguments of the exception are evaluated before it is raised: an error in building the message
                # (str.join over non-strings, a bad format) is what propagates
                for a_ in list(st.exc.args) + [k_.value for k_ in st.exc.keywords]:
                    try:
                        self.eval(a_, env)
                    except Unsupported:
                        pass
            if not simple or (isinstance(e, ast.Name) and env.get(e.id) is not None):
                v = self.eval(st.exc, env)
                if isinstance(v, Obj) and v.cls == 'exception':
                    name = v.attrs.get('name', name)
                elif isinstance(v, Lib) and v.name.startswith('builtins.'):
                    name = v.name.split('.', 1)[1]
                else:
                    raise Unsupported('raise of %r' % (v,), st)
        self.guards.append({'kind': 'raise', 'node': st, 'loc': self.loc(st), 'value': True,
                            'func': self.frames[-1].func.name, 'exc': name})
        raise Raised(name, '', self.loc(st))

    def st_If(self, st, env):
        v = self.eval(st.test, env)
        b = self.branch(v, st)
        if b:
            self.exec_block(st.body, env)
        else:
            self.exec_block(st.orelse, env)

    def branch(self, v, st):
        """decide an `if`; loop filters on Index order are absorbed into the loop context"""
        if isinstance(v, Mask) and getattr(v, 'indexcmp', None) is not None:
            op, la, lb = v.indexcmp
            return self.absorb_filter(op, la, lb, st)
        b = self.truth(v, st, ask=True)
        return b

    def absorb_filter(self, op, la, lb, st):
        if not self.loopctx:
            raise Unsupported('index comparison outside a pair loop', st)
        def skips(block):
            # a branch that contributes nothing to this iteration: empty, `pass`, or `continue`
            return all(isinstance(x, ast.Pass) for x in block) or \
                (all(isinstance(x, ast.Pass) for x in block[:-1]) and isinstance(block[-1], ast.Continue))
        taken = True
        if skips(st.body) and (st.orelse or isinstance(st.body[-1], ast.Continue)):
            # `if c: continue` / `if c: pass else: B`: the iteration goes on under the negated filter
            neg = {'<': '>=', '<=': '>', '>': '<=', '>=': '<', '==': '!=', '!=': '=='}
            op, taken = neg[op], False
            if st.orelse and skips(st.orelse) and not isinstance(st.body[-1], ast.Continue):
                return True                 # nothing happens on either side
        elif st.orelse and not skips(st.orelse):
            raise Unsupported('else-branch on a pair-loop filter', st)
        ctx = self.loopctx[-1]
        ctx.setdefault('filters', []).append((op, la, lb, self.loc(st)))
        if op in ('<', '>', '!='):
            self.distinct.add(frozenset((la, lb)))
        return taken

    def truth(self, v, node, ask=True):
        if isinstance(v, Const):
            return bool(v.v)
        if isinstance(v, Num) and is_const_num(v):
            return num_value(v) != 0
        if isinstance(v, Mask):
            c = v.cond
            if c.is_true():
                return True
            if c.is_false():
                return False
            if v.kind == 'array':
                # `if <array condition>:` -- numpy refuses to reduce an array of more than one element to a bool
                raise Raised('ValueError', 'The truth value of an array with more than one element is ambiguous (%s)' % c.show(),
                             self.loc(node))
            if ask:
                return self.decide(c, node)
            return None
        if isinstance(v, Num) and v.kind == 'scalar' and not P.is_pw(v.t):
            # `if x:` / `not x` on a number: it is true unless the number is zero -- a data condition
            c = P.Cond.cmp('!=', v.t, N.NF.const(0))
            if c.is_true():
                return True
            if c.is_false():
                return False
            if ask:
                return self.decide(c, node)
            return None
        if isinstance(v, (Obj, Func, ClassRef, Arr)):
            return True
        if isinstance(v, Seq):
            return len(v.items) > 0
        if isinstance(v, Unknown):
            if ask:
                raise Unsupported('branch on unknown value (%s)' % v.why, node)
            return None
        if ask:
            raise Unsupported('cannot decide truth of %r' % (v,), node)
        return None

    def st_Assign(self, st, env):
        v = self.eval(st.value, env)
        for t in st.targets:
            self.assign(t, v, env, st)

    def st_AnnAssign(self, st, env):
        if st.value is not None:
            self.assign(st.target, self.eval(st.value, env), env, st)

    def assign(self, t, v, env, st):
        if isinstance(t, ast.Name):
            for c in self.loopctx:
                c.setdefault('bound', set()).add(('name', t.id))
            fr = self.frames[-1] if self.frames else None
            if fr is not None and t.id in getattr(fr, 'declared_globals', ()):
                self.module_state[(fr.module.name, t.id)] = v
                self.event('global-write', '%s.%s' % (fr.module.name, t.id), st)
                return
            env.set(t.id, v)
        elif isinstance(t, (ast.Tuple, ast.List)):
            items = self.unpack(v, len(t.elts), st)
            for e, x in zip(t.elts, items):
                self.assign(e, x, env, st)
        elif isinstance(t, ast.Attribute):
            o = self.eval(t.value, env)
            self.set_attr(o, t.attr, v, st)
        elif isinstance(t, ast.Subscript):
            o = self.eval(t.value, env)
            idx = self.eval_index(t.slice, env)
            self.set_item(o, idx, v, st)
        else:
            raise Unsupported('assignment target %s' % type(t).__name__, st)

    def unpack(self, v, n, node):
        if isinstance(v, Seq):
            if len(v.items) != n:
                raise Raised('ValueError', 'unpack')
            return v.items
        raise Unsupported('cannot unpack %r' % (v,), node)

    def set_attr(self, o, name, v, node):
        if isinstance(o, Obj):
            if isinstance(o.cls, ClassInfo):
                setter = o.cls.find_setter(name)
                if setter is not None:
                    self.call_function(self.make_func(setter, o), [v], {}, node)
                    return
            old = o.attrs.get(name)
            o.attrs[name] = v
            for c in self.loopctx:
                c.setdefault('bound', set()).add(('attr', o.oid, name))
            if o.origin is not None:
                self.event('bind', '%s.%s' % (o.origin, name), node, new=(name not in o.attrs or old is None),
                           existed=old is not None)
            return
        raise Unsupported('attribute store on %r' % (o,), node)

    def st_AugAssign(self, st, env):
        op = type(st.op).__name__
        t = st.target
        rhs = self.eval(st.value, env)
        if isinstance(t, ast.Name):
            cur = env.get(t.id)
            if cur is None:
                raise Raised('NameError', t.id)
            env.set(t.id, self.inplace(op, cur, rhs, st, key=('name', t.id)))
        elif isinstance(t, ast.Attribute):
            o = self.eval(t.value, env)
            cur = self.get_attr(o, t.attr, st)
            new = self.inplace(op, cur, rhs, st, key=('attr', getattr(o, 'oid', None), t.attr))
            if new is not cur:
                self.set_attr(o, t.attr, new, st)
        elif isinstance(t, ast.Subscript):
            o = self.eval(t.value, env)
            idx = self.eval_index(t.slice, env)
            cur = self.get_item(o, idx, st)
            new = self.inplace(op, cur, rhs, st)
            if new is not cur:
                self.set_item(o, idx, new, st)
        else:
            raise Unsupported('augmented assignment target', st)

    _IOPS = {'Add': '__iadd__', 'Sub': '__isub__', 'Mult': '__imul__', 'Div': '__itruediv__',
             'MatMult': '__imatmul__'}
    _BOPS = {'Add': '__add__', 'Sub': '__sub__', 'Mult': '__mul__', 'Div': '__truediv__',
             'MatMult': '__matmul__', 'Pow': '__pow__'}
    _ROPS = {'Add': '__radd__', 'Sub': '__rsub__', 'Mult': '__rmul__', 'Div': '__rtruediv__'}

    def lead_kinds(self, t):
        if P.is_pw(t):
            t = next(P.leaves(t))
        return {self.sym_kind.get(a[1], 'scalar') for a in t.all_atoms() if a[0] == 'sym'} - {'scalar'}

    def check_inplace_broadcast(self, cur_t, rhs, node):
        """an in-place ufunc cannot grow its output: a length-1 stack (kind 'mat1') combined in place with a full-length
        stack (kind 'tensor') is refused by numpy"""
        try:
            rt, _ = self.term_of(rhs, node)
        except Unsupported:
            return
        lk, rk = self.lead_kinds(cur_t), self.lead_kinds(rt)
        if lk and lk <= {'mat1'} and 'tensor' in rk:
            raise Raised('ValueError', 'non-broadcastable output operand: an in-place operator cannot grow a length-1 array to the '
                         'length of the other operand', self.loc(node))

    def inplace(self, op, cur, rhs, node, key=None):
        """value to rebind the target to; in-place effects applied to heap cells"""
        if isinstance(cur, Obj):
            mname = self._IOPS.get(op)
            m = self.find_method(cur, mname) if mname else None
            if m is not None:
                return self.call(m, [rhs], {}, node)
            return self.binop(op, cur, rhs, node)
        if isinstance(cur, Arr) and op in ('Add', 'Sub', 'Mult', 'Div') and (cur.cells or self.has_cells(rhs)):
            # stacks of matrices whose pair functions were stored at concrete positions: the operator acts entry by entry
            t, cells = self.cell_arith(op, cur, rhs, node)
            cur.t, cur.cells = t, cells
            if not cur.fresh:
                self.event('write', cur.origin, node, via='inplace', how=op)
            return cur
        if isinstance(cur, Arr):
            t = self.arith(op, cur, rhs, node)
            self.check_inplace_broadcast(cur.t, rhs, node)
            cur.t = t
            self.note_dtype_cast(cur, node, 'in-place ' + op)
            if not cur.fresh:
                self.event('write', cur.origin, node, via='inplace', how=op)
            return cur
        if isinstance(cur, View):
            t = self.arith(op, cur, rhs, node)
            self.write_view(cur, t, node, how=op)
            return cur
        if isinstance(cur, Masked):
            # x = a[mask] is a new array (boolean indexing copies): the in-place operator changes that copy -- the object
            # itself, so every name bound to it sees the new contents -- and never the array it was taken from
            new = self.masked_arith(op, cur, rhs, node)
            cur.t = new.t
            return cur
        if isinstance(cur, Num) and self.loopctx and op in ('Add', 'Sub') and self.is_numeric(rhs):
            # scalar accumulation inside a loop over type labels: a sum over the loop's labels
            labels = []
            for c in reversed(self.loopctx):
                if key is None or key in c.get('bound', ()):
                    break       # the accumulator is (re)defined inside this loop: not carried across it
                labels = [l for l in c.get('labels', ()) if self.canon_label(l) == l] + labels
            if labels:
                t, _ = self.term_of(rhs, node)
                if P.is_pw(t):
                    raise Unsupported('piecewise accumulation over types', node)
                mapping = {l: '@t%d' % i for i, l in enumerate(labels)}
                body = relabel(t, mapping, self.symmetric)
                acc = N.fn('SumT', ','.join(sorted(mapping.values())), body)
                self.notes.append(('sumT', {'labels': labels, 'summand': t, 'loc': self.loc(node),
                                            'distinct': sorted(tuple(sorted(p)) for p in self.distinct)}))
                return Num(cur.t + acc if op == 'Add' else cur.t - acc, 'scalar')
        return self.binop(op, cur, rhs, node)

    # ---- loops ---------------------------------------------------------------------------------
    def st_For(self, st, env):
        if st.orelse:
            raise Unsupported('for-else', st)
        it = self.eval(st.iter, env)
        if isinstance(it, LabelIter):
            return self.for_labels(st, env, it)
        if isinstance(it, Seq):
            items = list(it.items)
            if it.kind in ('generator', 'iterator'):
                it.items = []           # a one-shot iterable: whoever iterates it next finds it exhausted
            for x in items:
                self.assign(st.target, x, env, st)
                try:
                    self.exec_block(st.body, env)
                except _Continue:
                    continue
                except _Break:
                    break
            return
        if isinstance(it, Obj) and it.cls == 'range':
            lo, hi, step = it.attrs['lo'], it.attrs['hi'], it.attrs['step']
            if all(x.is_const() for x in (lo, hi, step)):
                a, b, s = (int(x.const_value()) for x in (lo, hi, step))
                if abs(b - a) <= 64:
                    for i in range(a, b, s):
                        self.assign(st.target, const_num(i), env, st)
                        try:
                            self.exec_block(st.body, env)
                        except _Continue:
                            continue
                        except _Break:
                            break
                    return
            return self.for_sum(st, env, lo, hi, step)
        if isinstance(it, Types):
            it = self.lib.types_iter(self, it)
            return self.for_labels(st, env, it)
        ae = self.array_elements(it, st)
        if ae is not None:
            n, elem = ae
            if n.is_const() and 0 <= n.const_value() <= 64 and n.const_value().denominator == 1:
                for i in range(int(n.const_value())):
                    self.assign(st.target, Num(elem(N.NF.const(i)), 'scalar'), env, st)
                    try:
                        self.exec_block(st.body, env)
                    except _Continue:
                        continue
                    except _Break:
                        break
                return
            return self.for_sum(st, env, N.NF.const(0), n, N.NF.const(1), elem=elem)
        if isinstance(it, Obj):
            m = self.find_method(it, '__iter__')
            if m is not None:
                it2 = self.call(m, [], {}, st)
                if isinstance(it2, LabelIter):
                    return self.for_labels(st, env, it2)
                if isinstance(it2, Seq):
                    for x in it2.items:
                        self.assign(st.target, x, env, st)
                        try:
                            self.exec_block(st.body, env)
                        except _Continue:
                            continue
                        except _Break:
                            break
                    return
        raise Unsupported('iteration over %r' % (it,), st)

    def touch(self, c, mode, node=None):
        """a dict / list / set that was created BEFORE the enclosing symbolic loop over types or pairs is read and written in
        the loop body: it carries state from one iteration to the next (a cache of already computed entries, a seen-set).
        The body is executed once for a symbolic element, which cannot represent that -- undecided, never a silent pass."""
        for ctx in self.loopctx:
            if 'serial0' in ctx and getattr(c, 'serial', 1 << 60) <= ctx['serial0']:
                modes = ctx.setdefault('carried', {}).setdefault(id(c), set())
                modes.add(mode)
                if len(modes) == 2:
                    raise Unsupported('a container created before the loop over %s is both read and written inside it (state '
                                      'carried from one iteration to the next, e.g. a cache): one symbolic iteration does not '
                                      'represent that' % ctx.get('desc', 'types'), node)

    def for_labels(self, st, env, it):
        elem, ctx = it.make(self)
        ctx = dict(ctx)
        ctx['serial0'] = _SERIAL[0]
        ctx['loc'] = self.loc(st)
        ctx['node'] = st
        ctx['desc'] = it.desc
        ctx['stores'] = []
        for p in ctx.get('distinct', ()):
            self.distinct.add(frozenset(p))
        self.loopctx.append(ctx)
        self.assign(st.target, elem, env, st)
        try:
            try:
                self.exec_block(st.body, env)
            except _Continue:
                pass
        finally:
            self.loopctx.pop()
        self.close_label_loop(ctx, st)
        self.notes.append(('pairloop', ctx))

    def close_label_loop(self, ctx, st):
        """turn per-pair tensor writes made under this loop into whole-tensor definitions"""
        if self.loopctx:
            # inner loop of a nest: hand the stores to the enclosing loop
            self.loopctx[-1].setdefault('inner', []).append(ctx)
            self.loopctx[-1]['stores'].extend(ctx['stores'])
            return
        for rec in ctx['stores']:
            if rec['kind'] != 'ma':
                continue
            arr = rec['arr']
            t = arr.t
            # expect upd(base, la, lb, body) written once with this loop's labels
            if P.is_pw(t) or not t.is_monomial():
                continue
            (m, c), = t.num.items()
            if c != 1 or len(m) != 1 or m[0][1] != 1:
                continue
            a = m[0][0]
            if a[0] != 'fn' or a[1] != 'upd':
                continue
            la, lb = a[3], a[4]
            cov = self.coverage(rec['ctx_chain'], la, lb)
            rec['coverage'] = cov
            if cov in ('unordered-all', 'ordered-all'):
                body = N.nf_from_key(a[5])
                body = relabel(body, {la: '@a', lb: '@b'}, self.symmetric)
                arr.t = N.fn('tab', body)

    def coverage(self, chain, la, lb):
        """which pairs does the loop nest visit?  chain: list of loop contexts (outer..inner)"""
        labels = []
        filters = []
        for c in chain:
            if c.get('partial'):
                return 'partial: %s' % c['partial']     # a loop over a slice of the type list does not visit every type
            labels.extend(c.get('labels', ()))
            filters.extend(c.get('filters', ()))
        if la == lb:
            return 'diagonal' if la in labels else 'unknown'
        if la not in labels or lb not in labels:
            return 'unknown'
        ops = set()
        for op, x, y, _ in filters:
            if {x, y} != {la, lb}:
                return 'unknown'
            if (x, y) == (lb, la):
                op = {'<': '>', '<=': '>=', '>': '<', '>=': '<=', '==': '==', '!=': '!='}[op]
            ops.add(op)
        if not ops:
            return 'ordered-all'
        if ops == {'<='} or ops == {'>='}:
            return 'unordered-all'
        if ops == {'<'} or ops == {'>'}:
            return 'unordered-offdiag'
        if ops == {'!='}:
            return 'ordered-offdiag'
        return 'unknown'

    def array_elements(self, it, node):
        """`for a in <1-d array>` where the array is a closed-form function of its own index vector (c0*t + c1*t**2 with
        t = np.arange(n), no other array involved): (n, element as a function of the position) -- else None"""
        if not isinstance(it, (Arr, View, Num)) or getattr(it, 'kind', None) != 'array':
            return None
        t, _ = self.term_of(it, node)
        if P.is_pw(t):
            return None
        iotas = {a for a in t.all_atoms() if a[0] == 'fn' and a[1] == 'iota'}
        others = [a for a in t.all_atoms() if (a[0] == 'sym' and self.sym_kind.get(a[1], 'scalar') != 'scalar') or
                  (a[0] == 'fn' and a[1] != 'iota' and self.atom_is_array(a))]
        if len(iotas) != 1 or others:
            return None
        io = next(iter(iotas))
        n = N.nf_from_key(io[2])

        def elem(pos):
            return N.transform(t, lambda a: pos if a == io else None)
        return n, elem

    def for_sum(self, st, env, lo, hi, step, elem=None):
        """`for i in range(lo,hi)` with symbolic bounds: accumulations become Sum terms"""
        if not (step.is_const() and step.const_value() == 1):
            raise Unsupported('symbolic range with a step', st)
        if not isinstance(st.target, ast.Name):
            raise Unsupported('loop target', st)
        self.sumdepth += 1
        var = '@i%d' % self.sumdepth
        N.declare_int(var)
        self.sym_kind[var] = 'scalar'
        self.sumfacts[var] = lo
        arrs = list(self.live)
        saved = {}
        ph = {}
        for a in arrs:
            saved[a.aid] = a.t
            name = '@acc%d_%d' % (self.sumdepth, a.aid)
            self.sym_kind[name] = 'curve'
            ph[a.aid] = name
            a.t = N.sym(name)
        before = set(env.vars)
        env.set(st.target.id, Num(N.sym(var) if elem is None else elem(N.sym(var)), 'scalar'))
        try:
            try:
                self.exec_block(st.body, env)
            except _Continue:
                pass
        finally:
            self.sumdepth -= 1
        modified = []
        for a in arrs:
            if P.is_pw(a.t):
                raise Unsupported('piecewise accumulation in a summation loop', st)
            if a.t.equals(N.sym(ph[a.aid])):
                a.t = saved[a.aid]
            else:
                modified.append(a)
        mod_names = {ph[a.aid] for a in modified}
        back = {ph[a.aid]: saved[a.aid] for a in arrs if a not in modified}
        for a in modified:
            d = a.t - N.sym(ph[a.aid])
            if d.symbols() & mod_names:
                raise Unsupported('loop-carried dependence that is not an accumulation', st)
            if any(P.is_pw(x) for x in back.values()):
                raise Unsupported('piecewise operand in a summation loop', st)
            d = N.subs(d, back)
            a.t = saved[a.aid] + N.fn('Sum', var, lo, hi, d)
            if not a.fresh:
                self.event('write', a.origin, st, via='loop-accumulate')
            self.notes.append(('sum', {'var': var, 'lo': lo, 'hi': hi, 'summand': d, 'loc': self.loc(st),
                                       'target': a}))
        for name in list(env.vars):
            if name == st.target.id or (name not in before) or True:
                pass
        # names assigned in the body hold last-iteration values: unknown after the loop
        for n in ast.walk(ast.Module(body=st.body, type_ignores=[])):
            if isinstance(n, ast.Name) and isinstance(n.ctx, ast.Store):
                v = env.vars.get(n.id)
                if isinstance(v, Arr) and v in arrs:
                    continue
                env.set(n.id, Unknown('loop-local %s after a symbolic loop' % n.id))
        env.set(st.target.id, Unknown('loop variable after a symbolic loop'))

    def st_While(self, st, env):
        raise Unsupported('while loop', st)

    def st_With(self, st, env):
        for item in st.items:
            self.eval(item.context_expr, env)
        self.exec_block(st.body, env)

    def st_Try(self, st, env):
        try:
            self.exec_block(st.body, env)
        except Raised as r:
            for h in st.handlers:
                names = []
                if h.type is None:
                    names = None
                elif isinstance(h.type, ast.Tuple):
                    names = [ast.unparse(e) for e in h.type.elts]
                else:
                    names = [ast.unparse(h.type)]
                if names is None or any(r.exc == n or r.exc == n.split('.')[-1] for n in names):
                    if h.name:
                        env.set(h.name, Unknown('exception object'))
                    self.exec_block(h.body, env)
                    break
            else:
                raise
        else:
            self.exec_block(st.orelse, env)
        self.exec_block(st.finalbody, env)

    def st_FunctionDef(self, st, env):
        fr = self.frames[-1]
        env.set(st.name, Func(st, env, fr.module, None, fr.cls_ctx, None))

    def st_Delete(self, st, env):
        raise Unsupported('del', st)

    def st_Global(self, st, env):
        # module-level mutable state: reads and writes of these names go to the interpreter-wide module store
        fr = self.frames[-1]
        if not hasattr(fr, 'declared_globals'):
            fr.declared_globals = set()
        fr.declared_globals |= set(st.names)

    # ---- expressions ----------------------------------------------------------------------------
    def eval(self, node, env):
        m = getattr(self, 'ev_' + type(node).__name__, None)
        if m is None:
            raise Unsupported('expression kind %s' % type(node).__name__, node)
        return m(node, env)

    def ev_Constant(self, node, env):
        v = node.value
        if v is None or isinstance(v, (bool, str, bytes)):
            return Const(v)
        if isinstance(v, int):
            r = const_num(v)
            r.inty = True             # a Python int: arithmetic with other ints stays integer-typed
            return r
        if isinstance(v, float):
            fr = self.frames[-1] if self.frames else None
            text = None
            if fr is not None:
                text = ast.get_source_segment(fr.module.src, node)
            try:
                q = Fraction(text.replace('_', '')) if text else Fraction(repr(v))
            except (ValueError, AttributeError):
                q = Fraction(repr(v))
            return Num(N.NF.const(q), 'scalar')
        if v is Ellipsis:
            return Const(Ellipsis)
        raise Unsupported('constant %r' % (v,), node)

    def ev_Name(self, node, env):
        fr = self.frames[-1]
        if node.id in getattr(fr, 'declared_globals', ()) or env.get(node.id) is None:
            gv = self.module_state.get((fr.module.name, node.id))
            if gv is not None:
                return gv
        v = env.get(node.id)
        if v is not None:
            return v
        r = self.prog.resolve_name_in_module(fr.module, node)
        if r is not None:
            return self.wrap_resolved(r, node)
        if node.id in fr.module.globals:
            return self.module_global(fr.module, node.id)
        b = self.lib.builtin(node.id)
        if b is not None:
            return b
        import builtins as _bi
        if hasattr(_bi, node.id):
            # a real Python builtin that the semantics table does not cover: unknown, not a NameError of the program
            raise Unsupported('builtin %s is not modelled' % node.id, node)
        raise Raised('NameError', node.id, self.loc(node))

    def enum_class(self, c):
        """ClassInfo of the enumeration a constant member belongs to (members are Const(('<Class>', '<member>')))"""
        if isinstance(c, Const) and isinstance(c.v, tuple) and len(c.v) == 2 and isinstance(c.v[0], str):
            for ci in self.prog.classes_named(c.v[0]) if hasattr(self.prog, 'classes_named') else []:
                return ci
        return None

    def enum_method(self, c, name):
        if name is None:
            return None
        ci = self.enum_class(c)
        if ci is None:
            return None
        return ci.methods.get(name)

    def module_global(self, module, name):
        """value of a module-level assignment: evaluated once per interpreter (the module is imported once per process), so
        a module-level dict / list / array is one shared object for every function that uses it"""
        key = (module.name, name)
        if key not in self.module_state:
            self.module_state[key] = self.eval(module.globals[name], Env())
        return self.module_state[key]

    def wrap_resolved(self, r, node):
        if isinstance(r, ClassInfo):
            return ClassRef(r)
        if isinstance(r, FuncInfo):
            return self.make_func(r)
        if isinstance(r, ModuleInfo):
            return Obj('module', {'module': r})
        if isinstance(r, tuple) and r[0] == 'ext':
            return Lib(r[1])
        raise Unsupported('unresolved name', node)

    def ev_Attribute(self, node, env):
        o = self.eval(node.value, env)
        return self.get_attr(o, node.attr, node)

    def find_method(self, o, name):
        if isinstance(o.cls, ClassInfo):
            nat = None
            for c in o.cls.mro():
                nat = self.natives.get((c.name, name))
                if nat is not None:
                    return Native('%s.%s' % (c.name, name), nat, o)
                if name in c.methods:
                    break
            m = o.cls.find_method(name)
            if m is not None:
                return self.make_func(m, o)
            return None
        nat = self.natives.get((o.cls, name))
        if nat is not None:
            return Native('%s.%s' % (o.cls, name), nat, o)
        if o.cls == 'dict' and name in self.lib.DICT_METHODS:
            return Native('dict.' + name, self.lib.DICT_METHODS[name], o)
        return None

    def get_attr(self, o, name, node):
        if isinstance(o, Obj):
            if o.cls == 'module':
                m = o.attrs['module']
                r = self.prog.resolve_name_in_module(m, ast.Name(id=name))
                if r is None:
                    sub = m.name + '.' + name
                    if sub in self.prog.modules:
                        return Obj('module', {'module': self.prog.modules[sub]})
                    if name in getattr(m, 'globals', {}):
                        return self.module_global(m, name)
                    if name.startswith('__'):
                        raise Unsupported('module attribute %s is not modelled' % name, node)
                    raise Raised('AttributeError', name, self.loc(node))
                return self.wrap_resolved(r, node)
            if name in o.attrs and o.cls != 'dict':        # (a dict object keeps its contents under the key 'items')
                return o.attrs[name]
            if isinstance(o.cls, ClassInfo):
                g = o.cls.find_getter(name)
                if g is not None:
                    return self.call_function(self.make_func(g, o), [], {}, node)
            m = self.find_method(o, name)
            if m is not None:
                return m
            if isinstance(o.cls, ClassInfo):
                c, v = o.cls.find_class_attr(name)
                if v is not None:
                    return self.eval_class_attr(c, v)
            nat = self.natives.get((o.clsname, '__getattr__'))
            if nat is not None:
                return nat(self, o, [Const(name)], {}, node)
            if name == '__class__' and isinstance(o.cls, ClassInfo):
                return ClassRef(o.cls)
            if not isinstance(o.cls, ClassInfo):
                # an object of a *library* class that is only partially modelled (pint Quantity, OptimizeResult ...):
                # an attribute outside the model is unknown, not absent
                raise Unsupported('attribute %s of library object %s is not modelled' % (name, o.clsname), node)
            if not getattr(o, 'via_init', False):
                v = self.init_only_attr(o, name, node)
                if v is not None:
                    return v
            raise Raised('AttributeError', '%s object has no attribute %s' % (o.clsname, name),
                         self.loc(node))
        if isinstance(o, ClassRef):
            c, v = o.cls.find_class_attr(name)
            if v is not None:
                if o.cls.name == 'Space' or any(b.name == 'Space' for b in o.cls.mro()):
                    return Const(('Space', name))
                return self.eval_class_attr(c, v)
            m = o.cls.find_method(name)
            if m is not None:
                return self.make_func(m)
            raise Raised('AttributeError', '%s.%s' % (o.cls.name, name), self.loc(node))
        if isinstance(o, Lib):
            return self.lib.attr(self, o, name, node)
        if isinstance(o, (Num, Arr, View, Masked)):
            return self.lib.num_attr(self, o, name, node)
        if isinstance(o, Types):
            return self.lib.types_attr(self, o, name, node)
        if isinstance(o, Mask) and name == 'shape':
            return Obj('shape', {'arr': o})
        if isinstance(o, Mask) and name in ('all', 'any') and getattr(o, 'indexcmp', None) is None:
            red = self.lib.np_reduce(name)
            return Native('ndarray.' + name, lambda ip, m_, a, k, n: red(ip, [m_] + list(a), k, n), o)
        if isinstance(o, Mask) and name == 'astype' and getattr(o, 'indexcmp', None) is None:
            return Native('ndarray.astype', self.lib.nd_astype, o)
        if isinstance(o, Const) and isinstance(o.v, tuple):
            ci = self.enum_class(o)
            if ci is not None:
                if name == 'name':
                    return Const(o.v[1])
                if name == 'value':
                    c_, v_ = ci.find_class_attr(o.v[1])
                    if v_ is not None:
                        return self.eval_class_attr(c_, v_)
                mi = ci.find_method(name)
                if mi is not None:
                    return Func(mi.node, None, mi.module, o, mi.cls, mi)
                raise Unsupported('attribute %s of an enumeration member' % name, node)
        if isinstance(o, Const) and isinstance(o.v, str):
            hook = self.str_methods.get(name)
            if hook is not None:
                return Native('str.' + name, hook, o)
            if name == 'join':
                def join(ip, s_, a, k, n):
                    it = a[0] if a else None
                    if isinstance(it, Types):
                        it = ip.lib.types_iter(ip, it)
                    if isinstance(it, Seq):
                        for x in it.items:
                            if not (isinstance(x, Const) and isinstance(x.v, str)):
                                if isinstance(x, Label):
                                    raise Unsupported('str.join over type labels: a TypeError unless every label is a string', n)
                                raise Raised('TypeError', 'sequence item: expected str instance, %s found' % (
                                    type(x.v).__name__ if isinstance(x, Const) else 'number'), ip.loc(n))
                        return Const('<str>')
                    raise Unsupported('str.join over %r' % (it,), n)
                return Native('str.join', join, o)
            if name == 'format':
                def fmt(ip, s_, a, k, n):
                    # the text is not modelled, the binding of replacement fields to arguments is: a field without a
                    # matching argument raises IndexError / KeyError instead of whatever the message was meant for
                    import string as _string
                    try:
                        fields = [f_ for _, f_, _, _ in _string.Formatter().parse(s_.v) if f_ is not None]
                    except ValueError as e_:
                        raise Raised('ValueError', str(e_), ip.loc(n))
                    auto = 0
                    for f_ in fields:
                        head = f_.split('.')[0].split('[')[0]
                        if head == '':
                            idx_ = auto
                            auto += 1
                        elif head.isdigit():
                            idx_ = int(head)
                        else:
                            if head not in k:
                                raise Raised('KeyError', head, ip.loc(n))
                            continue
                        if idx_ >= len(a):
                            raise Raised('IndexError', 'Replacement index %d out of range for positional args tuple' % idx_, ip.loc(n))
                    return Const('<str>')
                return Native('str.format', fmt, o)
            return Native('str.' + name, lambda ip, s, a, k, n: Const('<str>'), o)
        if isinstance(o, Seq):
            return self.lib.seq_attr(self, o, name, node)
        if isinstance(o, Unknown):
            raise Unsupported('attribute %s of unknown value (%s)' % (name, o.why), node)
        if isinstance(o, Const) and o.v is None:
            raise Raised('AttributeError', "'NoneType' object has no attribute '%s'" % name, self.loc(node))
        raise Unsupported('attribute %s of %r' % (name, o), node)

    def eval_class_attr(self, cls, vnode):
        # a class attribute is ONE object shared by all instances (a class-level dict used as a cache keeps its contents
        # from one instance to the next): evaluated once per interpreter
        key = (cls.qualname, id(vnode))
        if key in self.class_state:
            return self.class_state[key]
        v = self._eval_class_attr(cls, vnode)
        if isinstance(v, (Obj, Seq, Arr)):
            self.class_state[key] = v
        return v

    def _eval_class_attr(self, cls, vnode):
        fake = Func(ast.Lambda(args=ast.arguments(posonlyargs=[], args=[], kwonlyargs=[], kw_defaults=[],
                                                  defaults=[]), body=vnode), None, cls.module, None, cls)
        self.frames.append(Frame(fake, Env()))
        try:
            return self.eval(vnode, Env())
        finally:
            self.frames.pop()

    def ev_Call(self, node, env):
        # super(...) special form
        if isinstance(node.func, ast.Attribute) and isinstance(node.func.value, ast.Call) and \
                isinstance(node.func.value.func, ast.Name) and node.func.value.func.id == 'super':
            fr = self.frames[-1]
            selfobj = fr.selfobj
            cls_ctx = fr.cls_ctx
            if selfobj is None or cls_ctx is None:
                raise Unsupported('super() outside a method', node)
            m = selfobj.cls.find_method(node.func.attr, after=cls_ctx)
            if m is None:
                raise Raised('AttributeError', 'super().%s' % node.func.attr, self.loc(node))
            f = self.make_func(m, selfobj)
            args, kwargs = self.eval_args(node, env)
            return self.call(f, args, kwargs, node)
        f = self.eval(node.func, env)
        args, kwargs = self.eval_args(node, env)
        return self.call(f, args, kwargs, node)

    def eval_args(self, node, env):
        args = []
        for a in node.args:
            if isinstance(a, ast.Starred):
                v = self.eval(a.value, env)
                if isinstance(v, Seq):
                    args.extend(v.items)
                else:
                    raise Unsupported('star-args of %r' % (v,), node)
            else:
                args.append(self.eval(a, env))
        kwargs = {}
        for k in node.keywords:
            if k.arg is None:
                v = self.eval(k.value, env)
                if isinstance(v, Obj) and v.cls == 'dict':
                    kwargs.update(v.attrs['items'])
                else:
                    raise Unsupported('**kwargs of %r' % (v,), node)
            else:
                kwargs[k.arg] = self.eval(k.value, env)
        return args, kwargs

    def ev_Lambda(self, node, env):
        fr = self.frames[-1]
        return Func(node, env, fr.module, None, fr.cls_ctx, None)

    def ev_Tuple(self, node, env):
        return Seq([self.eval(e, env) for e in node.elts], 'tuple')

    def ev_List(self, node, env):
        return Seq([self.eval(e, env) for e in node.elts], 'list')

    def ev_Set(self, node, env):
        return Seq([self.eval(e, env) for e in node.elts], 'set')

    def ev_Dict(self, node, env):
        items = {}
        for k, v in zip(node.keys, node.values):
            kv = self.eval(k, env)
            if not (isinstance(kv, Const) and isinstance(kv.v, (str, tuple))):
                raise Unsupported('dict with non-string keys', node)
            items[kv.v] = self.eval(v, env)
        return Obj('dict', {'items': items})

    def ev_JoinedStr(self, node, env):
        return Const('<str>')

    def ev_IfExp(self, node, env):
        v = self.eval(node.test, env)
        b = self.truth(v, node, ask=True)
        return self.eval(node.body if b else node.orelse, env)

    def ev_UnaryOp(self, node, env):
        v = self.eval(node.operand, env)
        if isinstance(node.op, ast.Not):
            if isinstance(v, Mask):
                r = Mask(~v.cond, v.kind)
                ic = getattr(v, 'indexcmp', None)
                if ic is not None:
                    neg = {'<': '>=', '<=': '>', '>': '<=', '>=': '<', '==': '!=', '!=': '=='}
                    r.indexcmp = (neg[ic[0]], ic[1], ic[2])
                return r
            b = self.truth(v, node, ask=True)
            return Const(not b)
        if isinstance(node.op, ast.Invert):
            if isinstance(v, Mask):
                return Mask(~v.cond, v.kind)
            raise Unsupported('~ on %r' % (v,), node)
        if isinstance(node.op, ast.USub):
            if isinstance(v, Obj):
                raise Unsupported('negation of object', node)
            if isinstance(v, Masked):
                return Masked(P.lift1(lambda x: -x, v.t), v.cond)
            t, k = self.term_of(v, node)
            return self.make_result(P.lift1(lambda x: -x, t), k)
        if isinstance(node.op, ast.UAdd):
            t, k = self.term_of(v, node)
            return self.make_result(t, k)
        raise Unsupported('unary op', node)

    def ev_BinOp(self, node, env):
        a = self.eval(node.left, env)
        b = self.eval(node.right, env)
        return self.binop(type(node.op).__name__, a, b, node)

    def binop(self, op, a, b, node):
        if isinstance(a, Obj):
            m = self.find_method(a, self._BOPS.get(op, '?'))
            if m is not None:
                return self.call(m, [b], {}, node)
            if op == 'Div':
                m = self.find_method(a, '__div__')
                if m is not None:
                    return self.call(m, [b], {}, node)
            if not isinstance(a.cls, ClassInfo):
                raise Unsupported('operator %s on library object %s is not modelled' % (op, a.clsname), node)
            raise Raised('TypeError', 'unsupported operand %s for %s' % (op, a.clsname), self.loc(node))
        if isinstance(b, Obj):
            m = self.find_method(b, self._ROPS.get(op, '?'))
            if m is not None:
                return self.call(m, [a], {}, node)
            if not isinstance(b.cls, ClassInfo):
                raise Unsupported('reflected operator %s on library object %s is not modelled' % (op, b.clsname), node)
            raise Raised('TypeError', 'unsupported operand %s for %s (reflected)' % (op, b.clsname),
                         self.loc(node))
        if isinstance(a, Index) or isinstance(b, Index):
            return Unknown('arithmetic on the position of a type in the type list')
        if isinstance(a, Mask) and isinstance(b, Mask) and op in ('BitAnd', 'BitOr'):
            c = (a.cond & b.cond) if op == 'BitAnd' else (a.cond | b.cond)
            return Mask(c, 'array' if 'array' in (a.kind, b.kind) else 'scalar')
        if isinstance(a, Mask) and isinstance(b, Mask) and op == 'Sub':
            raise Raised('TypeError', 'numpy boolean subtract, the `-` operator, is not supported', self.loc(node))
        if isinstance(a, Const) and isinstance(a.v, str):
            return Const('<str>')
        if isinstance(a, Seq) and isinstance(b, Seq) and op == 'Add':
            return Seq(a.items + b.items, a.kind)
        if isinstance(a, Masked) or isinstance(b, Masked):
            return self.masked_arith(op, a, b, node)
        if op in ('Add', 'Sub', 'Mult', 'Div') and (self.has_cells(a) or self.has_cells(b)):
            t, cells = self.cell_arith(op, a, b, node)
            r = self.fresh_array(t)
            r.cells = cells
            for x_ in (a, b):
                while isinstance(x_, View) and x_.idx == ('all',):
                    x_ = x_.base
                if getattr(x_, 'dims', None) is not None and len(x_.dims) == 3:
                    r.dims = x_.dims
                    break
            return r
        t = self.arith(op, a, b, node)
        kind = 'array' if any(getattr(x, 'kind', 'scalar') == 'array' or isinstance(x, Seq)
                              for x in (a, b)) else 'scalar'
        r = self.make_result(t, kind)
        # integer-typedness (may-be-int, default: float): int (+,-,*,//,%) int is int; int ** non-negative int literal is int;
        # everything else -- true division above all -- is floating point
        if self.inty(a) and self.inty(b):
            if op in ('Add', 'Sub', 'Mult', 'FloorDiv', 'Mod') or (
                    op == 'Pow' and is_const_num(b) and num_value(b) >= 0 and num_value(b).denominator == 1):
                r.inty = True
        return r

    @staticmethod
    def inty(x):
        while isinstance(x, View):
            x = x.base
        return bool(getattr(x, 'inty', False)) or (isinstance(x, Const) and isinstance(x.v, bool))

    @staticmethod
    def has_cells(x):
        while isinstance(x, View) and x.idx == ('all',):
            x = x.base
        return isinstance(x, Arr) and bool(x.cells)

    def cell_arith(self, op, a, b, node):
        """(base term, cells) of `a <op> b` where at least one operand is a stack of matrices with concretely stored pair
        functions [:, i, j]; the other is such a stack too, a whole-tensor term, or a scalar / curve broadcast to every entry"""
        def unwrap(x):
            while isinstance(x, View) and x.idx == ('all',):
                x = x.base
            return x
        a, b = unwrap(a), unwrap(b)
        keys = set()
        for x in (a, b):
            if isinstance(x, Arr) and x.cells:
                keys |= set(x.cells)

        def base(x):
            if isinstance(x, Arr):
                return x.t
            return self.term_of(x, node)[0]

        def cell(x, i, j):
            if isinstance(x, Arr) and (x.cells or self.lead_kinds(x.t) & {'tensor', 'mat1'} or not self.lead_kinds(x.t)):
                if x.cells or self.lead_kinds(x.t) & {'tensor', 'mat1'}:
                    return self.read_cell(x, i, j, node)
            return base(x)
        cells = {}
        for (i, j) in sorted(keys):
            cells[(i, j)] = self.arith_terms(op, cell(a, i, j), cell(b, i, j), node)
        try:
            bt = self.arith_terms(op, base(a), base(b), node)
        except (Unsupported, ZeroDivisionError):
            bt = base(a)          # entries that were never stored (still the allocation value): only the stored ones matter
        return bt, cells

    def masked_arith(self, op, a, b, node):
        cond = None
        ts = []
        for x in (a, b):
            if isinstance(x, Masked):
                if cond is None:
                    cond = x.cond
                elif not cond.same(x.cond):
                    raise Unsupported('operands restricted by different masks', node)
                ts.append(x.t)
            else:
                t, k = self.term_of(x, node)
                if k == 'array':
                    raise Unsupported('masked and unmasked array operands mixed', node)
                ts.append(t)
        return Masked(self.arith_terms(op, ts[0], ts[1], node), cond)

    def arith(self, op, a, b, node):
        ta, _ = self.term_of(a, node)
        tb, _ = self.term_of(b, node)
        return self.arith_terms(op, ta, tb, node)

    def ieee(self, op, f):
        """leaf operation with IEEE-754 treatment of the symbols in inf_syms (each stands for +infinity):
        0 * inf, inf - inf and inf / inf are NaN (the polynomial normal form would cancel them); a value that tends to zero
        (exp(-inf), 1/inf) is dropped first.  Where the normal form cannot tell whether an operand is infinite the result
        is the distinct atom MaybeNaN (an undecided leaf, never a verdict)."""
        infs = self.inf_syms
        if not infs:
            return f

        def state(x):
            # 'fin' | 'inf' | '?'
            if not (infs & x.symbols()):
                return 'fin'
            if len(x.den) != 1:
                return '?'
            top = False
            for m in x.num:
                for a, e in m:
                    if a[0] == 'sym' and a[1] in infs:
                        if e > 0:
                            top = True
                        continue
                    if a[0] == 'exp' and any(b[0] == 'sym' and b[1] in infs for b, _ in a[1]):
                        if e > 0 and all(N.atom_positive(b) or (b[0] == 'sym' and b[1] in infs) for b, _ in a[1]):
                            top = True
                            continue
                        return '?'
                    if any(b[0] == 'sym' and b[1] in infs for b in N.NF.atom(a).all_atoms()):
                        return '?'
            return 'inf' if top else '?'

        def g(x, y):
            x, y = N.drop_inf(x, infs), N.drop_inf(y, infs)
            sx, sy = state(x), state(y)
            nan = None
            if op == 'Mult' and ((x.is_zero() and sy != 'fin') or (y.is_zero() and sx != 'fin')):
                nan = sy if x.is_zero() else sx
            elif op in ('Add', 'Sub', 'Div') and sx != 'fin' and sy != 'fin':
                r = f(x, y)
                if not (infs & r.symbols()) or op == 'Div':
                    nan = 'inf' if (sx == 'inf' and sy == 'inf') else '?'
            if nan is not None:
                return N.sym('NaN') if nan == 'inf' else N.sym('MaybeNaN')
            return N.drop_inf(f(x, y), infs)
        return g

    def note_cancellation(self, op, ta, tb, node):
        """floating-point lint: `c + (exp(..) - c)` (or the same with minus signs).  Algebraically the constants cancel and
        the normal form shows exp(..) alone, but the intermediate `exp(..) - c` was rounded at the scale of c: once exp(..)
        is below c * 1e-16 it is lost for good (1 + (exp(-u) - 1) is exactly 0 for u > 37 although exp(-u) is 1e-17)."""
        if op not in ('Add', 'Sub'):
            return

        def const_and_exp(t):
            if P.is_pw(t) or not t.is_poly():
                return None
            c = t.num.get(N.UNIT, N.ZERO)
            has_exp = any(any(a[0] in ('exp', 'expq') for a, e in m) for m in t.num if m != N.UNIT)
            return c, has_exp
        xa, xb = const_and_exp(ta), const_and_exp(tb)
        if xa is None or xb is None:
            return
        (ca, ea), (cb, eb) = xa, xb
        cb2 = cb if op == 'Add' else -cb
        if ca != 0 and cb2 != 0 and ca + cb2 == 0 and (ea != eb) and ((ea and len(ta.num) > 1 and len(tb.num) == 1) or
                                                                      (eb and len(tb.num) > 1 and len(ta.num) == 1)):
            self.notes.append(('cancellation', {'loc': self.loc(node), 'const': N.show(N.NF.const(abs(ca))),
                                                'term': N.show(ta if ea else tb)[:80]}))

    def arith_terms(self, op, ta, tb, node):
        if not self.opaque_arith:
            self.note_cancellation(op, ta, tb, node)
        if self.opaque_arith and op in ('Add', 'Sub', 'Mult', 'Div', 'Pow'):
            # no algebra: the result is the operator applied to its operands (constants are still folded).  Two terms are
            # then equal iff they were computed by the same operations from the same inputs -- all a history rule needs
            def opq(x, y):
                if x.is_const() and y.is_const() and not (op == 'Div' and y.is_zero()) and op != 'Pow':
                    return {'Add': x + y, 'Sub': x - y, 'Mult': x * y, 'Div': x / y}[op] if op != 'Div' else x / y
                name = N.intern_opaque(op, x, y)
                arrayish = any(self.sym_kind.get(sn, 'scalar') != 'scalar' for sn in (x.symbols() | y.symbols()))
                self.sym_kind.setdefault(name, 'curve' if arrayish else 'scalar')
                return N.sym(name)
            return P.lift2(opq, ta, tb)
        try:
            if op == 'Add':
                return P.lift2(self.ieee(op, lambda x, y: x + y), ta, tb)
            if op == 'Sub':
                return P.lift2(self.ieee(op, lambda x, y: x - y), ta, tb)
            if op == 'Mult':
                return P.lift2(self.ieee(op, lambda x, y: x * y), ta, tb)
            if op == 'Div':
                return P.lift2(self.ieee(op, lambda x, y: x / y), ta, tb)
            if op == 'Pow':
                return P.lift2(lambda x, y: N.nf_pow(x, y), ta, tb)
            if op == 'FloorDiv':
                if not P.is_pw(ta) and not P.is_pw(tb) and ta.is_const() and tb.is_const():
                    return N.NF.const(ta.const_value() // tb.const_value())
            if op == 'Mod':
                if not P.is_pw(ta) and not P.is_pw(tb) and ta.is_const() and tb.is_const():
                    return N.NF.const(ta.const_value() % tb.const_value())
        except N.Incomplete as e:
            raise Unsupported('term outside the normal-form fragment: %s' % e, node)
        except ZeroDivisionError as e:
            if self.python_scalars:
                # plain Python numbers: float division by an exact zero raises (numpy scalars would warn and give inf)
                raise Raised('ZeroDivisionError', 'float division by zero', self.loc(node))
            raise Unsupported('division by a zero term', node)
        raise Unsupported('operator %s' % op, node)

    def ev_BoolOp(self, node, env):
        isand = isinstance(node.op, ast.And)
        acc = None
        last = None
        for e in node.values:
            v = self.eval(e, env)
            last = v
            if isinstance(v, Mask) and not (v.cond.is_true() or v.cond.is_false()):
                acc = v if acc is None else Mask((acc.cond & v.cond) if isand else (acc.cond | v.cond), v.kind)
                continue
            b = self.truth(v, node, ask=True)
            if isand and not b:
                return v if acc is None else FALSE
            if (not isand) and b:
                return v if acc is None else TRUE
        if acc is not None:
            return acc
        return last

    def ev_Compare(self, node, env):
        left = self.eval(node.left, env)
        result = None
        for op, rn in zip(node.ops, node.comparators):
            right = self.eval(rn, env)
            r = self.compare(type(op).__name__, left, right, node)
            if result is None:
                result = r
            else:
                if isinstance(result, Const) and isinstance(r, Const):
                    result = Const(result.v and r.v)
                elif isinstance(result, Mask) and isinstance(r, Mask):
                    result = Mask(result.cond & r.cond, 'array' if 'array' in (result.kind, r.kind) else 'scalar')
                else:
                    raise Unsupported('chained comparison', node)
            left = right
        return result

    _CMP = {'Gt': '>', 'GtE': '>=', 'Lt': '<', 'LtE': '<=', 'Eq': '==', 'NotEq': '!='}

    def compare(self, op, a, b, node):
        if op in ('Is', 'IsNot', 'Eq', 'NotEq') and isinstance(a, (Lib, ClassRef)) and isinstance(b, (Lib, ClassRef)):
            # type objects: type(x) is list, type(a) == type(b)
            pos = op in ('Is', 'Eq')
            if isinstance(a, ClassRef) or isinstance(b, ClassRef):
                r = isinstance(a, ClassRef) and isinstance(b, ClassRef) and a.cls is b.cls
                return Const(r if pos else not r)
            num = [x for x in (a, b) if x.name == 'builtins.<number>']
            if len(num) == 1:
                other = b if num[0] is a else a
                if other.name in ('builtins.int', 'builtins.float'):
                    c = P.Cond.flag('type(%s) is int' % N.show(num[0].of)[:60])
                    if other.name == 'builtins.float':
                        c = ~c
                    return Mask(c if pos else ~c, 'scalar')
                return Const(not pos)
            if len(num) == 2:
                if num[0].of.equals(num[1].of):
                    return Const(pos)
                raise Unsupported('comparison of the types of two symbolic numbers', node)
            r = a.name == b.name
            return Const(r if pos else not r)
        if op in ('Is', 'IsNot'):
            if isinstance(a, Unknown) or isinstance(b, Unknown):
                raise Unsupported('identity test on unknown value', node)
            if isinstance(a, Const) and isinstance(b, Const):
                # identity of constants: the singletons and equal literals of the same type (1 is not True); a `boxed`
                # constant stands for an object built at run time (a label read from a file): equal to, but not the same
                # object as, any other
                if getattr(a, 'boxed', False) or getattr(b, 'boxed', False) or getattr(a, 'npbool', False) or getattr(b, 'npbool', False):
                    r = a is b          # (numpy.bool_(True) is not the singleton True)
                else:
                    r = a.v is b.v or (type(a.v) is type(b.v) and a.v == b.v)
            elif isinstance(a, Const) or isinstance(b, Const):
                r = False
            else:
                r = a is b
            return Const(r if op == 'Is' else not r)
        if op in ('In', 'NotIn'):
            if isinstance(b, Obj) and b.cls == 'dict':
                self.touch(b, 'r', node)
                hk = self.lib._dict_key(a, node)
                found = hk in b.attrs['items']
                return Const(found if op == 'In' else not found)
            if isinstance(b, Seq):
                if b.kind in ('list', 'set'):
                    self.touch(b, 'r', node)
                found = False
                maybe = None
                for x in b.items:
                    if x is a:
                        found = True
                        continue
                    if getattr(x, 'kind', None) == 'array' and not isinstance(a, (Arr, View)):
                        # `needle in [ndarray]`: identity fails, then `ndarray == needle` is elementwise and its truth value
                        # is ambiguous for more than one element
                        raise Raised('ValueError', 'The truth value of an array with more than one element is ambiguous '
                                     '(membership test compares an ndarray with %r)' % (getattr(a, 'v', a),), self.loc(node))
                    e = self.compare('Eq', a, x, node)
                    if isinstance(e, Mask) and e.kind == 'scalar' and isinstance(a, Lib):
                        maybe = e.cond if maybe is None else (maybe | e.cond)
                        continue
                    if not isinstance(e, Const):
                        raise Unsupported('membership with symbolic equality', node)
                    if e.v:
                        found = True
                if maybe is not None and not found:
                    return Mask(maybe if op == 'In' else ~maybe, 'scalar')
                return Const(found if op == 'In' else not found)
            raise Unsupported('membership in %r' % (b,), node)
        sym = self._CMP.get(op)
        if sym is None:
            raise Unsupported('comparison %s' % op, node)
        if isinstance(a, Index) and isinstance(b, Index):
            m = Mask(P.Cond.flag('%s%s%s' % (a.label, sym, b.label)), 'scalar')
            if a.label == b.label:
                return Const(sym in ('<=', '>=', '=='))
            if sym in ('==', '!=') and self.labels_equal(a.label, b.label) is False:
                return Const(sym == '!=')
            m.indexcmp = (sym, a.label, b.label)
            return m
        if isinstance(a, Label) and isinstance(b, Label):
            if sym not in ('==', '!='):
                raise Unsupported('ordering of type labels', node)
            e = self.labels_equal(a.name, b.name)
            if e is None:
                m = Mask(P.Cond.flag('%s==%s' % tuple(sorted((a.name, b.name)))), 'scalar')
                if sym == '!=':
                    m = Mask(~m.cond, 'scalar')
                m.labelcmp = (sym, a.name, b.name)
                return m
            return Const(e if sym == '==' else not e)
        if isinstance(a, Seq) and isinstance(b, Seq) and sym in ('==', '!='):
            # tuples / lists compare elementwise (a list never equals a tuple)
            eq = len(a.items) == len(b.items) and (a.kind == b.kind or {a.kind, b.kind} <= {'tuple'} or a.kind == b.kind)
            cond = None
            if eq:
                for x, y in zip(a.items, b.items):
                    e = self.compare('Eq', x, y, node)
                    if isinstance(e, Mask) and e.kind == 'scalar':
                        # symbolic elements: the sequences are equal where every element comparison holds
                        if e.cond.is_true():
                            continue
                        if e.cond.is_false():
                            eq = False
                            break
                        cond = e.cond if cond is None else (cond & e.cond)
                        continue
                    if not isinstance(e, Const):
                        raise Unsupported('sequence comparison with symbolic elements', node)
                    if not e.v:
                        eq = False
                        break
            if eq and cond is not None:
                return Mask(cond if sym == '==' else ~cond, 'scalar')
            return Const(eq if sym == '==' else not eq)
        if isinstance(a, Const) and isinstance(b, Const):
            enum_m = self.enum_method(a, '__eq__' if sym == '==' else ('__ne__' if sym == '!=' else None))
            if enum_m is not None:
                # an enumeration that defines its own comparison: its method decides (receiver = left operand)
                r = self.call_function(Func(enum_m.node, None, enum_m.module, a, enum_m.cls, enum_m), [b], {}, node)
                return Const(bool(self.truth(r, node, ask=True)))
            if sym == '==':
                return Const(a.v == b.v)
            if sym == '!=':
                return Const(a.v != b.v)
            raise Unsupported('ordering of constants', node)
        if sym in ('<', '<=', '>', '>=') and (isinstance(a, Const) or isinstance(b, Const)):
            # an int / float held as a constant (an integer site-type label) orders like the number it is
            conv = lambda x: const_num(x.v) if isinstance(x, Const) and isinstance(x.v, (int, float)) and not isinstance(x.v, bool) else x
            a2, b2 = conv(a), conv(b)
            if (a2 is not a or b2 is not b) and not isinstance(a2, Const) and not isinstance(b2, Const):
                return self.compare(op, a2, b2, node)
        if isinstance(a, Const) or isinstance(b, Const):
            c, o = (a, b) if isinstance(a, Const) else (b, a)
            if isinstance(o, (Num, Arr, View)) and isinstance(c.v, (bool,)) and sym in ('==', '!='):
                # e.g.  result.success != True ,  apply_hard_core == False
                if isinstance(o, Num) and is_const_num(o):
                    r = (num_value(o) == (1 if c.v else 0))
                    return Const(r if sym == '==' else not r)
            if isinstance(o, Unknown):
                raise Unsupported('comparison with unknown value', node)
            if sym == '==':
                return FALSE
            if sym == '!=':
                return TRUE
            raise Unsupported('ordering with a constant object', node)
        if isinstance(a, Obj) and isinstance(b, Obj) and a.cls == 'shape' and b.cls == 'shape' and sym in ('==', '!='):
            # shapes are not modelled: equality of two shapes is a data condition the driver must explore
            m = Mask(P.Cond.flag('shape#%d==shape#%d' % tuple(sorted((a.oid, b.oid)))), 'scalar')
            return m if sym == '==' else Mask(~m.cond, 'scalar')
        if isinstance(a, (Obj, ClassRef)) or isinstance(b, (Obj, ClassRef)):
            if sym in ('==', '!='):
                r = a is b
                return Const(r if sym == '==' else not r)
        if self.is_numeric(a) and self.is_numeric(b):
            ta, ka = self.term_of(a, node)
            tb, kb = self.term_of(b, node)
            kind = 'array' if 'array' in (ka, kb) else 'scalar'
            if P.is_pw(ta) or P.is_pw(tb):
                # case by case: (c and cmp(a, y)) or (not c and cmp(b, y))
                def lift(x, y):
                    if P.is_pw(x):
                        return (x.c & lift(x.a, y)) | ((~x.c) & lift(x.b, y))
                    if P.is_pw(y):
                        return (y.c & lift(x, y.a)) | ((~y.c) & lift(x, y.b))
                    return P.Cond.cmp(sym, x, y)
                return Mask(lift(ta, tb), kind)
            return Mask(P.Cond.cmp(sym, ta, tb), kind)
        raise Unsupported('comparison of %r and %r' % (a, b), node)

    # ---- subscripts ------------------------------------------------------------------------------
    def eval_index(self, sl, env):
        if not isinstance(sl, (ast.Slice, ast.Tuple)):
            v = self.eval(sl, env)
            if isinstance(v, Const) and getattr(v, 'slice_parts', None) is not None:
                return ('slice',) + tuple(v.slice_parts)        # x[s] with s = slice(a, b) is x[a:b]
            return ('value', v)
        if isinstance(sl, ast.Slice):
            lo = self.eval(sl.lower, env) if sl.lower is not None else None
            hi = self.eval(sl.upper, env) if sl.upper is not None else None
            st = self.eval(sl.step, env) if sl.step is not None else None
            return ('slice', lo, hi, st)
        if isinstance(sl, ast.Tuple):
            return ('tuple', [self.eval_index(e, env) for e in sl.elts])
        return ('value', self.eval(sl, env))

    def ev_Subscript(self, node, env):
        o = self.eval(node.value, env)
        idx = self.eval_index(node.slice, env)
        return self.get_item(o, idx, node)

    def index_to_value(self, idx):
        if idx[0] == 'value':
            return idx[1]
        if idx[0] == 'tuple':
            return Seq([self.index_to_value(i) for i in idx[1]])
        raise Unsupported('slice as a key')

    def classify_array_index(self, idx, node):
        """-> view descriptor for a basic index, ('mask', cond) for a boolean mask"""
        if idx[0] == 'value':
            v = idx[1]
            if isinstance(v, Const) and v.v is Ellipsis:
                return ('all',)
            if isinstance(v, Const) and v.v is None:
                return ('newaxis',)     # numpy: None inserts an axis -- it never raises
            if isinstance(v, Mask):
                return ('mask', v.cond)
            if is_const_num(v):
                return ('at', int(num_value(v)))
            if isinstance(v, Const) and isinstance(v.v, int) and not isinstance(v.v, bool):
                return ('at', v.v)          # an integer held as a constant (an integer site-type label used as a position)
            if isinstance(v, Index):
                return ('atlabel', v.label)
            if isinstance(v, (Arr, Num)) and getattr(v, 'kind', '') == 'array' and not P.is_pw(v.t):
                # an index vector arange(n) with a concrete n
                for n_ in range(1, 9):
                    if v.t.equals(N.fn('iota', N.NF.const(n_))):
                        return ('iota', n_)
            raise Unsupported('array index %r' % (v,), node)
        if idx[0] == 'slice':
            _, lo, hi, st = idx
            if st is not None:
                raise Unsupported('strided slice', node)
            if lo is None and hi is None:
                return ('all',)
            lo_i = 0 if lo is None else (int(num_value(lo)) if is_const_num(lo) else None)
            if lo_i is None:
                raise Unsupported('symbolic lower slice bound', node)
            if hi is None:
                return ('slice', lo_i, -1)
            if is_const_num(hi):
                return ('slice', lo_i, int(num_value(hi)))
            th, _ = self.term_of(hi, node)
            if P.is_pw(th):
                raise Unsupported('piecewise slice bound', node)
            return ('slice', lo_i, th)
        if idx[0] == 'tuple':
            parts = [self.classify_array_index(i, node) for i in idx[1]]
            if len(parts) == 2 and parts[0] == ('all',) and idx[1][0][0] == 'value' and isinstance(idx[1][0][1], Const) \
                    and idx[1][0][1].v is Ellipsis and parts[1][0] in ('slice', 'all'):
                return parts[1]         # x[..., a:b] : the last (for a pair function: the only) axis
            if len(parts) == 3 and parts[0] == ('all',) and parts[1][0] == 'atlabel' and parts[2][0] == 'atlabel':
                return ('entry', parts[1][1], parts[2][1])
            if len(parts) == 3 and parts[0] == ('all',) and parts[1][0] == 'at' and parts[2][0] == 'at':
                return ('entryc', parts[1][1], parts[2][1])
            if len(parts) == 3 and parts[0] == ('all',) and parts[1][0] == 'iota' and parts[2] == parts[1]:
                return ('diagc', parts[1][1])       # x[:, arange(n), arange(n)]: the n diagonal pair functions
            if len(parts) == 2 and parts[0] == ('all',) and parts[1][0] == 'at':
                return ('col', parts[1][1])
            if len(parts) == 3 and parts[1] == ('all',) and parts[2] == ('all',):
                return ('matrix', parts[0])
            if any(p_ == ('newaxis',) for p_ in parts):
                return ('reshaped-by-None', tuple(repr(p_) for p_ in parts))
            raise Unsupported('array index pattern %r' % (parts,), node)
        raise Unsupported('array index', node)

    def get_item(self, o, idx, node):
        if isinstance(o, Obj):
            m = self.find_method(o, '__getitem__')
            if m is None:
                if not isinstance(o.cls, ClassInfo):
                    raise Unsupported('subscript of library object %s is not modelled' % o.clsname, node)
                raise Raised('TypeError', '%s is not subscriptable' % o.clsname, self.loc(node))
            return self.call(m, [self.index_to_value(idx)], {}, node)
        if isinstance(o, Seq):
            if idx[0] == 'value' and isinstance(idx[1], Const) and isinstance(idx[1].v, int) and not isinstance(idx[1].v, bool):
                idx = ('value', const_num(idx[1].v))
            if idx[0] == 'value' and is_const_num(idx[1]):
                i = int(num_value(idx[1]))
                try:
                    return o.items[i]
                except IndexError:
                    raise Raised('IndexError', str(i), self.loc(node))
            if idx[0] == 'slice':
                lo = int(num_value(idx[1])) if idx[1] is not None else None
                hi = int(num_value(idx[2])) if idx[2] is not None else None
                return Seq(o.items[lo:hi], o.kind)
            raise Unsupported('sequence index', node)
        if isinstance(o, (Arr, View, Num)) and getattr(o, 'kind', None) == 'array':
            if idx[0] == 'value' and isinstance(idx[1], Seq) and idx[1].items and all(is_const_num(i) for i in idx[1].items):
                # x[[i, j, ...]] with literal positions: a new array holding the selected elements (a copy, never a view)
                t, _ = self.term_of(o, node)
                if P.is_pw(t):
                    raise Unsupported('fancy index on a piecewise term', node)
                return Num(N.fn('take', t, *[N.NF.const(int(num_value(i))) for i in idx[1].items]), 'array')
            d = self.classify_array_index(idx, node)
            if d[0] == 'reshaped-by-None':
                t, _ = self.term_of(o, node)
                if P.is_pw(t):
                    raise Unsupported('None index on a piecewise term', node)
                return Num(N.fn('newaxis_index', t, *d[1]), 'array')
            if d[0] == 'mask':
                t, _ = self.term_of(o, node)
                return Masked(t, d[1])
            if d[0] == 'all':
                return o if not isinstance(o, Arr) else View(o, ('all',)) if False else o
            if isinstance(o, Arr):
                return View(o, d)
            t, _ = self.term_of(o, node)
            if d[0] == 'at':
                return Num(self.index_term(t, d, node), 'scalar')
            return Num(self.index_term(t, d, node), 'array')
        if isinstance(o, Types):
            return self.lib.types_getitem(self, o, idx, node)
        if isinstance(o, Const) and isinstance(o.v, str):
            if o.v != '<str>':
                # a known text (string.ascii_uppercase[:rank]) indexed or sliced with constants
                def cint(x):
                    if x is None:
                        return None
                    if is_const_num(x) and num_value(x).denominator == 1:
                        return int(num_value(x))
                    raise Unsupported('string index that is not a constant', node)
                if idx[0] == 'slice':
                    return Const(o.v[cint(idx[1]):cint(idx[2]):cint(idx[3])])
                if idx[0] == 'value' and is_const_num(idx[1]):
                    try:
                        return Const(o.v[cint(idx[1])])
                    except IndexError:
                        raise Raised('IndexError', 'string index out of range', self.loc(node))
            return Const('<str>')
        if isinstance(o, Unknown):
            raise Unsupported('subscript of unknown value (%s)' % o.why, node)
        raise Unsupported('subscript of %r' % (o,), node)

    def note_dtype_cast(self, o, node, via):
        """a store into an array that was allocated with np.*_like(<input array>) and no dtype: the value is cast to the
        dtype of that input (an integer grid truncates floating-point values)"""
        dl = getattr(o, 'dtype_like', None)
        while isinstance(dl, View):
            dl = dl.base
        if isinstance(dl, Arr) and not dl.fresh:
            self.event('dtype-cast', dl.origin, node, via=via)

    def set_item(self, o, idx, v, node):
        if isinstance(o, Arr):
            self.note_dtype_cast(o, node, 'item store')
        if isinstance(o, Obj):
            m = self.find_method(o, '__setitem__')
            if m is None:
                if not isinstance(o.cls, ClassInfo):
                    raise Unsupported('item assignment on library object %s is not modelled' % o.clsname, node)
                raise Raised('TypeError', '%s does not support item assignment' % o.clsname, self.loc(node))
            self.call(m, [self.index_to_value(idx), v], {}, node)
            return
        if isinstance(o, Arr):
            d = self.classify_array_index(idx, node)
            if d[0] == 'mask':
                cond = d[1]
                if isinstance(v, Masked):
                    if not v.cond.same(cond):
                        raise Unsupported('masked store whose value is restricted by a different mask', node)
                    newt = v.t
                else:
                    newt, k = self.term_of(v, node)
                    if k == 'array':
                        raise Unsupported('masked store of an unrestricted array', node)
                o.t = P.ite(cond, newt, o.t)
                if not o.fresh:
                    self.event('write', o.origin, node, via='masked-store')
                return
            if d[0] == 'entry':
                newt, _ = self.term_of(v, node)
                self.write_view(View(o, d), newt, node)
                return
            if d[0] == 'entryc':
                newt, _ = self.term_of(v, node)
                self.write_view(View(o, d), newt, node)
                return
            if d[0] == 'diagc':
                newt, k_ = self.term_of(v, node)
                if k_ == 'array':
                    raise Unsupported('array value stored on the diagonal by fancy indexing', node)
                for i_ in range(d[1]):
                    self.write_view(View(o, ('entryc', i_, i_)), newt, node)
                return
            if d == ('matrix', ('all',)):
                d = ('all',)            # x[:,:,:] = value: the whole stack of matrices (the value is broadcast)
            if d[0] == 'all':
                newt, _ = self.term_of(v, node)
                if getattr(o, 'inty', False) and not self.inty(v):
                    # x[:] = values keeps the dtype of x: an integer array truncates floating-point values
                    self.event('int-store', o.origin, node)
                    newt = P.lift1(lambda y: N.fn('int_trunc', y), newt)
                o.cells = None
                o.t = newt
                if not o.fresh:
                    self.event('write', o.origin, node, via='slice-store')
                return
            if d[0] in ('slice', 'at') and not P.is_pw(o.t):
                # positional store: the new value of element i depends on the position i, not only on the
                # operands at i (uninterpreted, non-pointwise atom)
                newt, _ = self.term_of(v, node)
                if P.is_pw(newt):
                    raise Unsupported('positional store of a piecewise term', node)
                bounds = [b if isinstance(b, N.NF) else N.NF.const(b) for b in d[1:]]
                o.t = N.fn('posupd:' + d[0], o.t, newt, *bounds)
                if not o.fresh:
                    self.event('write', o.origin, node, via='positional-store')
                return
            raise Unsupported('array store pattern %r' % (d,), node)
        if isinstance(o, View):
            raise Unsupported('store into a view', node)
        if isinstance(o, Num):
            raise Unsupported('item assignment on an immutable abstract value', node)
        raise Unsupported('item store on %r' % (o,), node)

    def ev_ListComp(self, node, env):
        return self.lib.listcomp(self, node, env)

    def ev_SetComp(self, node, env):
        return self.lib.setcomp(self, node, env)

    def ev_DictComp(self, node, env):
        return self.lib.dictcomp(self, node, env)

    def ev_GeneratorExp(self, node, env):
        # evaluated eagerly (the package only feeds generator expressions to any/all/sum/list/tuple/set)
        return self.lib.listcomp(self, node, env)

    def ev_Starred(self, node, env):
        raise Unsupported('starred', node)


def _walk_same_scope(fnode):
    """nodes of a function body without descending into nested function definitions / lambdas"""
    stack = list(getattr(fnode, 'body', [])) if not isinstance(fnode, ast.Lambda) else []
    while stack:
        n = stack.pop()
        yield n
        for c in ast.iter_child_nodes(n):
            if not isinstance(c, (ast.FunctionDef, ast.AsyncFunctionDef, ast.Lambda, ast.ClassDef)):
                stack.append(c)


# =============================================================================================
PAIR_FNS = ('sig', 'usig', 'Ucalc', 'Cl', 'omega', 'cell')


def relabel(x, mapping, symmetric=()):
    """rename type labels (string arguments of fn atoms, and label-named symbols) throughout a term"""
    if not mapping:
        return x

    def leaf(a):
        if a[0] == 'sym' and a[1] in mapping:
            return N.sym(mapping[a[1]])
        if a[0] == 'fn':
            name = a[1]
            args = []
            for p in a[2:]:
                if isinstance(p, str):
                    args.append(mapping.get(p, p))
                elif N.is_nfkey(p):
                    args.append(relabel(N.nf_from_key(p), mapping, symmetric))
                elif isinstance(p, tuple) and p and isinstance(p[0], str):
                    sub = relabel(N.NF.atom(p), mapping, symmetric)
                    (m, c), = sub.num.items()
                    args.append(m[0][0] if sub.is_monomial() and c == 1 and len(m) == 1 and m[0][1] == 1 else sub)
                else:
                    args.append(p)
            if name == 'ent':
                base, l1, l2 = args[0], args[1], args[2]
                if isinstance(base, str) and base in symmetric and l1 > l2:
                    l1, l2 = l2, l1
                return N.NF.atom(('fn', 'ent', base, l1, l2))
            if name in PAIR_FNS and len(args) >= 2 and isinstance(args[0], str) and isinstance(args[1], str):
                l1, l2 = sorted(args[:2])
                args = [l1, l2] + args[2:]
            if name in N.FN_TABLE:
                return N.apply_fn(name, args)
            return N.fn(name, *args)
        return None
    return N.transform(x, leaf)


def explore(make_and_run, limit=64, keep_raised=False):
    """enumerate object-level branches on data conditions by re-running with an oracle.
    make_and_run(preset) -> (interp, result) ; returns list of (decisions, interp, result|exc)"""
    out = []
    work = [[]]
    while work:
        preset = work.pop()
        if len(out) > limit:
            raise Unsupported('too many paths')
        try:
            ip, res = make_and_run(preset)
            out.append((list(ip.decisions), ip, res))
        except NeedDecision:
            work.append(preset + [False])
            work.append(preset + [True])
        except Raised as e:
            if keep_raised:
                last = getattr(Interp, 'LAST', None)
                e.decisions = list(last.decisions) if last is not None else []      # the conditions this path was taken under
                out.append((list(preset), None, e))
    return out
