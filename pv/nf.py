"""E3 -- canonical terms for commutative (scalar / elementwise) expressions.

A term is a fraction P/Q of *Puiseux polynomials*: finite maps  monomial -> Fraction,
a monomial being a sorted product  atom**e  with rational exponent e.  Atoms:

    ('sym', name)                    free symbol (algebraically independent real; positive when it
                                     occurs under a fractional power -- assumption A4)
    ('pi',)                          the transcendental constant
    ('prime', p)                     a prime under a fractional power  (2**(1/6) ...)
    ('neg1',)                        -1, only as the base of a symbolic integer power
    ('exp', monokey)                 exp(m) for ONE monomial m (exp(a+b) is split; the rational
                                     coefficient of m becomes the exponent of the atom)
    ('expq', nfkey)                  exp of a term that is not a Puiseux polynomial
    ('pow', nfkey)                   a non-monomial base under a fractional exponent
    ('spow', atom, intsym)           atom ** n   for an integer symbol n
    ('fn', name, nfkey, ...)         uninterpreted function of normalised arguments

Equality of two terms is decided by cross multiplication  P1*Q2 - P2*Q1 == 0.
Everything is exact (fractions.Fraction); float literals are read from their source text.

This is a value-numbering domain, not a solver: construction is a terminating rewrite system.
"""
from fractions import Fraction
import math
import itertools

ZERO = Fraction(0)
ONE = Fraction(1)


class Incomplete(Exception):
    """raised when an operation leaves the fragment in which the normal form is complete"""


# --------------------------------------------------------------------------------------------
# symbols registry: kinds and attributes
# --------------------------------------------------------------------------------------------
INT_SYMBOLS = set()      # names of symbols that are integers (allowed as symbolic exponents)


def declare_int(name):
    INT_SYMBOLS.add(name)


# --------------------------------------------------------------------------------------------
# monomials
# --------------------------------------------------------------------------------------------
def _akey(atom):
    return repr(atom)


_AK = {}


def akey(atom):
    k = _AK.get(atom)
    if k is None:
        k = _AK[atom] = _akey(atom)
    return k


def mono_mul(m1, m2):
    if not m1:
        return m2
    if not m2:
        return m1
    d = dict(m1)
    for a, e in m2:
        ne = d.get(a, ZERO) + e
        if ne == 0:
            d.pop(a, None)
        else:
            d[a] = ne
    return tuple(sorted(d.items(), key=lambda ae: akey(ae[0])))


def mono_pow(m, q):
    if q == 0:
        return ()
    return tuple((a, e * q) for a, e in m)


UNIT = ()


# --------------------------------------------------------------------------------------------
# polynomials: dict mono -> Fraction, never containing zero coefficients
# --------------------------------------------------------------------------------------------
def p_const(c):
    c = Fraction(c)
    return {UNIT: c} if c != 0 else {}


def p_add(p, q, sign=1):
    r = dict(p)
    for m, c in q.items():
        nc = r.get(m, ZERO) + sign * c
        if nc == 0:
            r.pop(m, None)
        else:
            r[m] = nc
    return r


def p_scale(p, c):
    if c == 0:
        return {}
    return {m: k * c for m, k in p.items()}


def p_mul(p, q):
    if not p or not q:
        return {}
    if len(p) > len(q):
        p, q = q, p
    r = {}
    for m1, c1 in p.items():
        for m2, c2 in q.items():
            m = mono_mul(m1, m2)
            nc = r.get(m, ZERO) + c1 * c2
            if nc == 0:
                r.pop(m, None)
            else:
                r[m] = nc
    return r


def p_key(p):
    return tuple(sorted(((m, c) for m, c in p.items()), key=lambda mc: repr(mc[0])))


def p_is_const(p):
    return all(m == UNIT for m in p)


def p_const_value(p):
    return p.get(UNIT, ZERO)


def p_is_monomial(p):
    return len(p) == 1


# --------------------------------------------------------------------------------------------
# the term class
# --------------------------------------------------------------------------------------------
class NF(object):
    __slots__ = ('num', 'den', '_key')

    def __init__(self, num, den=None):
        if den is None:
            den = {UNIT: ONE}
        if not den:
            raise ZeroDivisionError('zero denominator in canonical term')
        # fold a monomial denominator into the numerator (Puiseux exponents may be negative)
        if len(den) == 1:
            (dm, dc), = den.items()
            if dm != UNIT or dc != 1:
                inv = mono_pow(dm, Fraction(-1))
                num = {mono_mul(m, inv): c / dc for m, c in num.items()}
                den = {UNIT: ONE}
        else:
            # normalise: leading (first in key order) coefficient of den is 1
            lead = p_key(den)[0][1]
            if lead != 1:
                num = p_scale(num, 1 / lead)
                den = p_scale(den, 1 / lead)
        if not num:
            den = {UNIT: ONE}
        elif len(den) > 1:
            q = exact_div(num, den)
            if q is not None:
                num, den = q, {UNIT: ONE}
        num = _fold_primes(num)
        if len(den) > 1:
            den = _fold_primes(den)
        num, den = _reduce_pows(num, den)
        self.num = num
        self.den = den
        self._key = None

    # ---- construction helpers ---------------------------------------------------------------
    @staticmethod
    def const(c):
        return NF(p_const(c))

    @staticmethod
    def atom(a, e=ONE):
        e = Fraction(e)
        if e == 0:
            return NF(p_const(1))
        return NF({((a, e),): ONE})

    @staticmethod
    def sym(name):
        return NF.atom(('sym', name))

    # ---- predicates ---------------------------------------------------------------------------
    def key(self):
        if self._key is None:
            self._key = (p_key(self.num), p_key(self.den))
        return self._key

    def __hash__(self):
        return hash(self.key())

    def is_zero(self):
        return not self.num

    def is_poly(self):
        return self.den == {UNIT: ONE}

    def is_const(self):
        return self.is_poly() and p_is_const(self.num)

    def const_value(self):
        assert self.is_const()
        return p_const_value(self.num)

    def is_monomial(self):
        return self.is_poly() and len(self.num) == 1

    def equals(self, other):
        other = as_nf(other)
        if self.den == other.den:
            return self.num == other.num
        return p_mul(self.num, other.den) == p_mul(other.num, self.den)

    __eq__ = None  # force explicit .equals(); identity comparisons are bugs here

    # ---- arithmetic ----------------------------------------------------------------------------
    def __add__(self, o):
        o = as_nf(o)
        if self.den == o.den:
            return NF(p_add(self.num, o.num), self.den)
        return NF(p_add(p_mul(self.num, o.den), p_mul(o.num, self.den)), p_mul(self.den, o.den))

    __radd__ = __add__

    def __neg__(self):
        return NF(p_scale(self.num, -1), self.den)

    def __sub__(self, o):
        return self + (-as_nf(o))

    def __rsub__(self, o):
        return as_nf(o) + (-self)

    def __mul__(self, o):
        o = as_nf(o)
        return NF(p_mul(self.num, o.num), p_mul(self.den, o.den))

    __rmul__ = __mul__

    def recip(self):
        if not self.num:
            raise ZeroDivisionError('division by the zero term')
        return NF(self.den, self.num)

    def __truediv__(self, o):
        return self * as_nf(o).recip()

    def __rtruediv__(self, o):
        return as_nf(o) * self.recip()

    def __pow__(self, e):
        return nf_pow(self, as_nf(e))

    def __rpow__(self, b):
        return nf_pow(as_nf(b), self)

    # ---- structure -------------------------------------------------------------------------------
    def atoms(self):
        """all atoms occurring at the top level (not inside other atoms)"""
        s = set()
        for p in (self.num, self.den):
            for m in p:
                for a, _ in m:
                    s.add(a)
        return s

    def all_atoms(self):
        """atoms at any depth"""
        out = set()
        stack = list(self.atoms())
        while stack:
            a = stack.pop()
            if a in out:
                continue
            out.add(a)
            for sub in atom_children(a):
                stack.extend(sub.atoms())
        return out

    def symbols(self):
        return {a[1] for a in self.all_atoms() if a[0] == 'sym'}

    def __repr__(self):
        return show(self)


def as_nf(x):
    if isinstance(x, NF):
        return x
    if isinstance(x, bool):
        raise TypeError('bool is not a term')
    if isinstance(x, int):
        return NF.const(x)
    if isinstance(x, Fraction):
        return NF.const(x)
    if isinstance(x, float):
        # floats only come from *our* reference tables; source literals are read as text
        return NF.const(Fraction(repr(x)))
    raise TypeError('cannot make a term of %r' % (x,))


# --------------------------------------------------------------------------------------------
# atom children (for traversal / substitution)
# --------------------------------------------------------------------------------------------
_KEY2NF = {}


def nf_from_key(k):
    v = _KEY2NF.get(k)
    if v is None:
        num = {m: c for m, c in k[0]}
        den = {m: c for m, c in k[1]}
        v = NF.__new__(NF)
        v.num, v.den, v._key = num, den, k
        _KEY2NF[k] = v
    return v


def reg(nf):
    k = nf.key()
    _KEY2NF.setdefault(k, nf)
    return k


def is_nfkey(k):
    return isinstance(k, tuple) and len(k) == 2 and isinstance(k[0], tuple)


def atom_children(a):
    t = a[0]
    if t == 'exp':
        return [NF({a[1]: ONE})]
    if t in ('expq', 'pow'):
        return [nf_from_key(a[1])]
    if t == 'spow':
        return [NF.atom(a[1]), NF.sym(a[2])]
    if t == 'fn':
        out = []
        for k in a[2:]:
            if is_nfkey(k):
                out.append(nf_from_key(k))
            elif isinstance(k, tuple) and k and isinstance(k[0], str):
                out.append(NF.atom(k))
        return out
    return []


# --------------------------------------------------------------------------------------------
# reduce  ('pow', base)**e  with |e| >= 1  by expanding the integer part
# --------------------------------------------------------------------------------------------
def _lead(p, order=None, cache=None):
    """leading (monomial, coefficient) in a fixed total order on monomials: lexicographic over the atoms sorted by key,
    a larger exponent first (a missing atom has exponent 0).  `order` (atom -> position) and `cache` (monomial -> exponent
    vector) may be shared between calls on polynomials over the same atoms."""
    if order is None:
        atoms = set()
        for m in p:
            for a, _ in m:
                atoms.add(a)
        order = {a: i for i, a in enumerate(sorted(atoms, key=akey))}
    if cache is None:
        cache = {}
    n = len(order)
    best = None
    bv = None
    for m in p:
        v = cache.get(m)
        if v is None:
            vec = [ZERO] * n
            for a, e in m:
                vec[order[a]] = e
            v = cache[m] = tuple(vec)
        if bv is None or v > bv:
            best, bv = m, v
    return best, p[best]


def _mono_gt(m1, m2):
    """m1 > m2 in lex order over atoms sorted by key (a missing atom has exponent 0)"""
    d1, d2 = dict(m1), dict(m2)
    for a in sorted(set(d1) | set(d2), key=akey):
        e1, e2 = d1.get(a, ZERO), d2.get(a, ZERO)
        if e1 != e2:
            return e1 > e2
    return False


def exact_div(num, den, limit=400):
    """num/den as a polynomial when den divides num exactly (multivariate long division in a lex
    order, Laurent/Puiseux exponents allowed), else None"""
    if len(den) <= 1 or not num:
        return None
    atoms = set()
    for poly in (num, den):
        for m in poly:
            for a, _ in m:
                atoms.add(a)
    order = {a: i for i, a in enumerate(sorted(atoms, key=akey))}
    cache = {}
    dm, dc = _lead(den, order, cache)
    inv = mono_pow(dm, Fraction(-1))
    rem = dict(num)
    quo = {}
    steps = 0
    while rem:
        steps += 1
        if steps > limit:
            return None
        rm, rc = _lead(rem, order, cache)
        qm = mono_mul(rm, inv)
        # divisibility in the Puiseux setting is always possible formally; termination is guaranteed
        # only when the quotient is a polynomial, so bound the number of steps and the quotient size
        qc = rc / dc
        quo[qm] = quo.get(qm, ZERO) + qc
        if quo[qm] == 0:
            del quo[qm]
        for m, c in den.items():
            mm = mono_mul(m, qm)
            nc = rem.get(mm, ZERO) - c * qc
            if nc == 0:
                rem.pop(mm, None)
            else:
                rem[mm] = nc
        if len(quo) > 4 * (len(num) + 2):
            return None
    return quo


def _fold_primes(p):
    """('prime', q)**e : fold the integer part of e into the rational coefficient"""
    hit = False
    for m in p:
        for a, e in m:
            if a[0] == 'prime' and (e >= 1 or e < 0):
                hit = True
                break
        if hit:
            break
    if not hit:
        return p
    r = {}
    for m, c in p.items():
        rest = []
        for a, e in m:
            if a[0] == 'prime' and (e >= 1 or e < 0):
                ip = math.floor(e)
                fr = e - ip
                c = c * Fraction(a[1]) ** ip
                if fr != 0:
                    rest.append((a, fr))
            else:
                rest.append((a, e))
        m2 = tuple(rest)
        nc = r.get(m2, ZERO) + c
        if nc == 0:
            r.pop(m2, None)
        else:
            r[m2] = nc
    return r


def _reduce_pows(num, den):
    changed = False
    for p in (num, den):
        for m in p:
            for a, e in m:
                if a[0] == 'pow' and (e >= 1 or e < 0):
                    changed = True
                    break
    if not changed:
        return num, den

    def expand(p):
        """return (numpoly, denpoly) equal to p with pow atoms reduced into [0,1)"""
        total = None
        for m, c in p.items():
            rest = []
            fac = None
            for a, e in m:
                if a[0] == 'pow' and (e >= 1 or e < 0):
                    ip = math.floor(e)
                    fr = e - ip
                    base = nf_from_key(a[1])
                    f = _int_pow(base, ip)
                    fac = f if fac is None else fac * f
                    if fr != 0:
                        rest.append((a, fr))
                else:
                    rest.append((a, e))
            t = NF({tuple(rest): c})
            if fac is not None:
                t = t * fac
            total = t if total is None else total + t
        if total is None:
            total = NF({})
        return total

    n = expand(num)
    d = expand(den)
    r = n / d
    return r.num, r.den


def _int_pow(x, n):
    if n == 0:
        return NF.const(1)
    if n < 0:
        return _int_pow(x.recip(), -n)
    r = None
    b = x
    while n:
        if n & 1:
            r = b if r is None else r * b
        n >>= 1
        if n:
            b = b * b
    return r


# --------------------------------------------------------------------------------------------
# powers
# --------------------------------------------------------------------------------------------
def _prime_factors(n):
    f = {}
    d = 2
    while d * d <= n:
        while n % d == 0:
            f[d] = f.get(d, 0) + 1
            n //= d
        d += 1
    if n > 1:
        f[n] = f.get(n, 0) + 1
    return f


def const_pow(c, q):
    """c**q for positive rational c and rational q, exact: rational part folded, rest prime atoms"""
    c = Fraction(c)
    q = Fraction(q)
    if q.denominator == 1:
        return NF.const(c ** int(q))
    if c < 0:
        raise Incomplete('negative constant %s under fractional power %s' % (c, q))
    if c == 0:
        if q > 0:
            return NF.const(0)
        raise ZeroDivisionError('0 ** negative')
    res = NF.const(1)
    for part, sgn in ((c.numerator, 1), (c.denominator, -1)):
        for p, mult in _prime_factors(part).items():
            e = q * mult * sgn
            ip = math.floor(e)
            fr = e - ip
            res = res * NF.const(Fraction(p) ** ip)
            if fr != 0:
                res = res * NF.atom(('prime', p), fr)
    return res


# atoms whose value may be negative: a fractional power must not be distributed over them blindly
# ((x**2)**(1/2) is |x|, not x).  Free symbols are positive by assumption A4 unless declared signed; function atoms are
# signed unless known to be positive quantities.
SIGNED_SYMBOLS = set(['g', 'u', 'g1', 'u1', 'epsilon', 'x', 'f', 'F'])
POSITIVE_FNS = set(['dia', 'sig', 'usig', 'vol', 'rho', 'abs', 'len', 'iota', 'cosh'])


def declare_signed(name):
    SIGNED_SYMBOLS.add(name)


def atom_positive(a):
    t = a[0]
    if t == 'sym':
        return a[1] not in SIGNED_SYMBOLS
    if t in ('pi', 'prime', 'exp', 'expq'):
        return True
    if t == 'pow':
        return True             # principal root of a real base (defined only when the base is non-negative)
    if t == 'spow':
        return a[1] != ('neg1',) and atom_positive(a[1])
    if t == 'fn':
        return a[1] in POSITIVE_FNS
    return False


def _mono_term_pow(m, c, q):
    """(c*m)**q for a single monomial term with rational non-integer q: exponents are multiplied only for factors that
    are known to be positive; an even power of a signed factor becomes a power of its absolute value; an odd power of a
    signed factor stays under the root"""
    if c < 0 and q.denominator != 1:
        raise Incomplete('negative monomial under fractional power')
    res = const_pow(c, q)
    pos = []
    rest = []
    for a, e in m:
        if atom_positive(a):
            pos.append((a, e))
        elif e.denominator == 1 and int(e) % 2 == 0:
            res = res * NF.atom(('fn', 'abs', reg(NF.atom(a))), e * q)
        else:
            rest.append((a, e))
    if pos:
        res = res * NF({mono_pow(tuple(pos), q): ONE})
    if rest:
        res = res * NF.atom(('pow', reg(NF({tuple(rest): ONE}))), q)
    return res


def rat_pow(x, q):
    """x ** q for a rational constant exponent q"""
    q = Fraction(q)
    if q == 0:
        return NF.const(1)
    if q == 1:
        return x
    if x.is_zero():
        if q > 0:
            return x
        raise ZeroDivisionError('0 ** negative')
    if q.denominator == 1:
        n = int(q)
        if x.is_monomial():
            (m, c), = x.num.items()
            return NF({mono_pow(m, q): c ** n})
        return _int_pow(x, n)
    # fractional exponent
    if x.is_monomial():
        (m, c), = x.num.items()
        return _mono_term_pow(m, c, q)
    if len(x.num) == 1 and len(x.den) == 1:  # unreachable (monomial den is folded) -- safety
        pass
    # monomial / monomial handled above; general base: factor out content and monomial gcd
    if x.is_poly():
        content, prim = _primitive(x.num)
        base = NF(prim)
        return const_pow(abs(content), q) * NF.atom(('pow', reg(base)), q) if content > 0 else \
            _neg_base(x, q)
    base = x
    return NF.atom(('pow', reg(base)), q)


def _neg_base(x, q):
    # leading coefficient negative: keep the whole base as the atom (sign cannot be extracted)
    return NF.atom(('pow', reg(x)), q)


def _primitive(p):
    """split polynomial into (rational content with sign of leading coeff, primitive part)"""
    items = p_key(p)
    lead = items[0][1]
    g_num = 0
    l_den = 1
    for _, c in items:
        g_num = math.gcd(g_num, abs(c.numerator))
        l_den = l_den * c.denominator // math.gcd(l_den, c.denominator)
    content = Fraction(g_num, l_den)
    if lead < 0:
        content = -content
    return content, {m: c / content for m, c in p.items()}


def nf_pow(base, e):
    if e.is_const():
        return rat_pow(base, e.const_value())
    # symbolic exponent: must be affine in integer symbols with rational coefficients
    if not e.is_poly():
        raise Incomplete('exponent is not a polynomial: %s' % show(e))
    res = NF.const(1)
    for m, c in e.num.items():
        if m == UNIT:
            res = res * rat_pow(base, c)
            continue
        if len(m) == 1 and m[0][0][0] == 'sym' and m[0][1] == 1 and m[0][0][1] in INT_SYMBOLS:
            n = m[0][0][1]
            res = res * rat_pow(_sym_pow(base, n), c)
            continue
        raise Incomplete('unsupported symbolic exponent %s' % show(e))
    return res


def _sym_pow(base, n):
    """base ** n for an integer symbol n"""
    if base.is_monomial():
        (m, c), = base.num.items()
        r = NF.const(1)
        if c != 1:
            if c < 0:
                r = r * NF.atom(('spow', ('neg1',), n))
                c = -c
            if c != 1:
                for part, sgn in ((c.numerator, 1), (c.denominator, -1)):
                    for p, mult in _prime_factors(part).items():
                        r = r * NF.atom(('spow', ('prime', p), n), mult * sgn)
        for a, ex in m:
            if a[0] == 'spow':
                raise Incomplete('nested symbolic powers')
            r = r * NF.atom(('spow', a, n), ex)
        return r
    return NF.atom(('spow', ('pow', reg(base)), n))


# --------------------------------------------------------------------------------------------
# functions
# --------------------------------------------------------------------------------------------
def exp(x):
    x = as_nf(x)
    if x.is_zero():
        return NF.const(1)
    if x.is_poly():
        r = NF.const(1)
        for m, c in x.num.items():
            r = r * NF.atom(('exp', m), c)
        return r
    return NF.atom(('expq', reg(x)))


def drop_inf(x, names=('INF',)):
    """exp(-INF) == 0 and c/INF == 0 exactly (IEEE): monomials that contain exp(INF * positive) or INF itself to a negative
    power (and no infinite factor) vanish.  A positive power (exp(+inf), inf) is left alone (the comparison then fails,
    which is right: the value is inf)."""
    def infinite(a):
        return a[0] == 'sym' and a[1] in names

    def has_neg_inf(m):
        neg = pos = False
        for a, e in m:
            if infinite(a):
                if e < 0:
                    neg = True
                else:
                    pos = True
            if a[0] == 'exp':
                inner = a[1]
                if any(infinite(b) and q > 0 for b, q in inner) and all(atom_positive(b) or infinite(b) for b, _ in inner):
                    if e < 0:
                        neg = True
                    else:
                        pos = True
        return neg and not pos
    if not any(has_neg_inf(m) for m in x.num):
        return x
    if len(x.den) != 1:
        return x
    return NF({m: c for m, c in x.num.items() if not has_neg_inf(m)}, x.den)


def sqrt(x):
    return rat_pow(as_nf(x), Fraction(1, 2))


def fn(name, *args):
    ks = tuple(a if isinstance(a, (str, tuple)) else reg(as_nf(a)) for a in args)
    return NF.atom(('fn', name) + ks)


def log(x):
    x = as_nf(x)
    if x.is_const() and x.const_value() == 1:
        return NF.const(0)
    return fn('log', x)


def _odd(name, x):
    """odd function: f(-x) = -f(x); normalise sign of the argument's leading coefficient"""
    x = as_nf(x)
    if x.is_zero():
        return NF.const(0)
    lead = p_key(x.num)[0][1]
    if lead < 0:
        return -fn(name, -x)
    return fn(name, x)


def _even(name, x, at0):
    x = as_nf(x)
    if x.is_zero():
        return NF.const(at0)
    lead = p_key(x.num)[0][1]
    if lead < 0:
        return fn(name, -x)
    return fn(name, x)


def sin(x):
    return _odd('sin', x)


def cos(x):
    return _even('cos', x, 1)


def absval(x):
    x = as_nf(x)
    if x.is_const():
        return NF.const(abs(x.const_value()))
    return _even('abs', x, 0)


PI = NF.atom(('pi',))


def sym(name):
    return NF.sym(name)


OPAQUE = {}
OPAQUE_DEF = {}


def intern_opaque(op, x, y):
    """name of the symbol that stands for `x <op> y` kept uninterpreted (hash-consed: the same operation on the same
    operands always gets the same name, so equality of names is equality of the computations)"""
    k = (op, x.key(), y.key())
    n = OPAQUE.get(k)
    if n is None:
        n = '#%d' % (len(OPAQUE) + 1)
        OPAQUE[k] = n
        OPAQUE_DEF[n] = (op, x, y)
        SIGNED_SYMBOLS.add(n)
    return n


def show_opaque(x, depth=3):
    """show() with the opaque symbols expanded `depth` levels"""
    sgn = {'Add': '+', 'Sub': '-', 'Mult': '*', 'Div': '/', 'Pow': '**'}

    def leaf(a):
        if a[0] == 'sym' and a[1] in OPAQUE_DEF and depth > 0:
            op, p, q = OPAQUE_DEF[a[1]]
            return NF.sym('(%s %s %s)' % (show_opaque(p, depth - 1), sgn[op], show_opaque(q, depth - 1)))
        return None
    return show(transform(x, leaf))


def opaque_inputs(x):
    """the input symbols a term of the uninterpreted arithmetic was computed from (opaque symbols expanded recursively)"""
    out, seen, stack = set(), set(), [x]
    while stack:
        t = stack.pop()
        for sn in t.symbols():
            if sn in OPAQUE_DEF:
                if sn not in seen:
                    seen.add(sn)
                    stack.extend(OPAQUE_DEF[sn][1:])
            else:
                out.add(sn)
    return out


def isym(name):
    declare_int(name)
    return NF.sym(name)


# --------------------------------------------------------------------------------------------
# substitution / derivative / numeric evaluation
# --------------------------------------------------------------------------------------------
def rebuild(x, fatom):
    """rebuild a term bottom-up, mapping every top-level atom a to fatom(a) (an NF)"""
    def poly(p):
        tot = NF.const(0)
        for m, c in p.items():
            t = NF.const(c)
            for a, e in m:
                t = t * rat_pow(fatom(a), e)
            tot = tot + t
        return tot
    n = poly(x.num)
    if x.den == {UNIT: ONE}:
        return n
    return n / poly(x.den)


def transform(x, leaf):
    """structural map: leaf(atom) -> NF to replace that atom (and stop), or None to recurse
    structurally (elementwise functions are rebuilt from their transformed arguments)."""
    cache = {}

    def fa(a):
        r = cache.get(a)
        if r is not None:
            return r
        r = leaf(a)
        if r is None:
            t = a[0]
            if t in ('sym', 'pi', 'prime', 'neg1'):
                r = NF.atom(a)
            elif t == 'exp':
                r = exp(rebuild(NF({a[1]: ONE}), fa))
            elif t == 'expq':
                r = exp(rebuild(nf_from_key(a[1]), fa))
            elif t == 'pow':
                # the exponent is applied by the caller (rat_pow of this result)
                r = rebuild(nf_from_key(a[1]), fa)
            elif t == 'spow':
                base = fa(a[1])
                n = leaf(('sym', a[2]))
                if n is None:
                    r = _sym_pow(base, a[2])
                else:
                    r = nf_pow(base, as_nf(n))
            elif t == 'fn':
                args = []
                for k in a[2:]:
                    if is_nfkey(k):
                        args.append(rebuild(nf_from_key(k), fa))
                    elif isinstance(k, tuple) and k and isinstance(k[0], str):
                        sub = fa(k)
                        # an atom argument stays an atom when it maps to itself
                        if sub.is_monomial() and len(list(sub.num)[0]) == 1 and \
                                list(sub.num.values())[0] == 1 and list(sub.num)[0][0][1] == 1:
                            args.append(list(sub.num)[0][0][0])
                        else:
                            args.append(sub)
                    else:
                        args.append(k)
                r = apply_fn(a[1], args)
            else:
                raise Incomplete('unknown atom %r' % (a,))
        else:
            r = as_nf(r)
        cache[a] = r
        return r
    return rebuild(x, fa)


def subs(x, mapping):
    """mapping: {symbol name: NF}.  Substitution is structural and re-normalises."""
    def leaf(a):
        if a[0] == 'sym':
            return mapping.get(a[1])
        return None
    return transform(x, leaf)


FN_TABLE = {}


def apply_fn(name, args):
    f = FN_TABLE.get(name)
    if f is not None:
        return f(*args)
    return fn(name, *args)


FN_TABLE.update({'log': log, 'sin': sin, 'cos': cos, 'abs': absval})


def diff(x, name):
    """partial derivative with respect to the symbol `name`"""
    s = ('sym', name)

    def datom(a):
        t = a[0]
        if a == s:
            return NF.const(1)
        if t in ('sym', 'pi', 'prime', 'neg1'):
            return NF.const(0)
        if t == 'exp':
            inner = NF({a[1]: ONE})
            return NF.atom(a) * diff(inner, name)
        if t == 'expq':
            return NF.atom(a) * diff(nf_from_key(a[1]), name)
        if t == 'pow':
            # d(atom) where atom = base**1 formally; the exponent e is handled in dmono
            raise RuntimeError('handled in dmono')
        if t == 'spow':
            if name == a[2]:
                raise Incomplete('derivative with respect to an exponent symbol')
            base = a[1]
            if base[0] == 'pow':
                b = nf_from_key(base[1])
            else:
                b = NF.atom(base)
            db = diff(b, name)
            if db.is_zero():
                return NF.const(0)
            return NF.sym(a[2]) * NF.atom(a) / b * db
        if t == 'fn':
            args = [nf_from_key(k) if is_nfkey(k) else NF.atom(k) for k in a[2:] if isinstance(k, tuple)]
            if all(diff(g, name).is_zero() for g in args):
                return NF.const(0)
            f = a[1]
            if f == 'log':
                return diff(args[0], name) / args[0]
            if f == 'sin':
                return cos(args[0]) * diff(args[0], name)
            if f == 'cos':
                return -sin(args[0]) * diff(args[0], name)
            raise Incomplete('derivative of uninterpreted function %s' % f)
        raise Incomplete('derivative of atom %r' % (a,))

    def dpoly(p):
        tot = NF.const(0)
        for m, c in p.items():
            for i, (a, e) in enumerate(m):
                rest = NF({m[:i] + m[i + 1:]: c})
                if a[0] == 'pow':
                    b = nf_from_key(a[1])
                    db = diff(b, name)
                    if db.is_zero():
                        continue
                    d = NF.const(e) * NF.atom(a, e) / b * db
                else:
                    da = datom(a)
                    if da.is_zero():
                        continue
                    d = NF.const(e) * NF.atom(a, e - 1) * da
                tot = tot + rest * d
        return tot

    n, d = NF(x.num), NF(x.den)
    dn = dpoly(x.num)
    if x.is_poly():
        return dn
    dd = dpoly(x.den)
    return (dn * d - n * dd) / (d * d)


def evalf(x, env=None):
    """double precision value (for reports only; never for a verdict)"""
    env = env or {}

    def fa(a):
        t = a[0]
        if t == 'sym':
            return float(env[a[1]])
        if t == 'pi':
            return math.pi
        if t == 'prime':
            return float(a[1])
        if t == 'neg1':
            return -1.0
        if t == 'exp':
            return math.exp(ev(NF({a[1]: ONE})))
        if t == 'expq':
            return math.exp(ev(nf_from_key(a[1])))
        if t == 'pow':
            return ev(nf_from_key(a[1]))
        if t == 'spow':
            return fa(a[1]) ** float(env[a[2]])
        if t == 'fn':
            args = [ev(nf_from_key(k)) for k in a[2:] if is_nfkey(k)]
            f = {'log': math.log, 'sin': math.sin, 'cos': math.cos, 'abs': abs}.get(a[1])
            if f is None:
                raise Incomplete('cannot evaluate %s' % a[1])
            return f(*args)
        raise Incomplete('cannot evaluate %r' % (a,))

    def poly(p):
        tot = 0.0
        for m, c in p.items():
            t = float(c)
            for a, e in m:
                t *= fa(a) ** float(e)
            tot += t
        return tot

    def ev(y):
        return poly(y.num) / poly(y.den)
    return ev(x)


# --------------------------------------------------------------------------------------------
# queries
# --------------------------------------------------------------------------------------------
def depends_on(x, name):
    return name in x.symbols()


def is_linear_homogeneous(x, names):
    """x is linear and homogeneous in the symbols `names` jointly (degree exactly 1)"""
    t = sym('__t')
    scaled = subs(x, {n: sym(n) * t for n in names})
    return scaled.equals(x * t)


def coefficient(x, name):
    """coefficient of symbol `name` assuming x is polynomial of degree <= 1 in it (top level)"""
    d = diff(x, name)
    if depends_on(d, name):
        raise Incomplete('not linear in %s' % name)
    return d


# --------------------------------------------------------------------------------------------
# printing
# --------------------------------------------------------------------------------------------
def show_atom(a):
    t = a[0]
    if t == 'sym':
        return a[1]
    if t == 'pi':
        return 'pi'
    if t == 'prime':
        return str(a[1])
    if t == 'neg1':
        return '(-1)'
    if t == 'exp':
        return 'exp(%s)' % show(NF({a[1]: ONE}))
    if t == 'expq':
        return 'exp(%s)' % show(nf_from_key(a[1]))
    if t == 'pow':
        return '(%s)' % show(nf_from_key(a[1]))
    if t == 'spow':
        return '%s^%s' % (show_atom(a[1]), a[2])
    if t == 'fn':
        return '%s(%s)' % (a[1], ', '.join(show(nf_from_key(k)) if is_nfkey(k) else
                                           (show_atom(k) if isinstance(k, tuple) else str(k))
                                           for k in a[2:]))
    return repr(a)


def show_poly(p):
    if not p:
        return '0'
    out = []
    for m, c in p_key(p):
        fs = []
        for a, e in m:
            s = show_atom(a)
            if e != 1:
                s += '^%s' % (e if e.denominator == 1 else '(%s)' % e)
            fs.append(s)
        body = '*'.join(fs)
        if not body:
            out.append(str(c))
        elif c == 1:
            out.append(body)
        elif c == -1:
            out.append('-' + body)
        else:
            out.append('%s*%s' % (c, body))
    s = ' + '.join(out).replace('+ -', '- ')
    return s


def show(x):
    if x.is_poly():
        return show_poly(x.num)
    return '(%s)/(%s)' % (show_poly(x.num), show_poly(x.den))
