"""Extra work of the thorough tier (DESIGN section 5): none of it is a verdict about /repo by itself --

 T.nf    cross-check of the canonicaliser (selftest/nf_fuzz.py): random terms evaluated through the normal form and
         directly, equal / perturbed pairs, sympy as a third opinion.  A disagreement means the trusted core of the
         formula rules is broken: ANALYSIS-UNDECIDED (exit 2), never a verdict.
 T.self  the mutant / twin matrix of this property (selftest/cases.py): every mutant must still be reported by this
         check and every behaviour-preserving twin must stay silent, on scratch copies of the *current* /repo tree.
         An alarming twin => the checker is wrong => UNDECIDED.  Missed mutants / stale snippets are recorded.
 T.seed  the kept independent seeded changes (/verif/seeded/*) that this property's check is recorded to catch.
 T.twin  the kept independent behaviour-preserving refactorings (/verif/twins/*): the check must be silent on all.
"""
import os
import sys

VERIF = os.path.dirname(os.path.dirname(os.path.abspath(__file__)))
FORMULA_PROPS = ('C01', 'C03', 'C04', 'C05', 'C07', 'C08', 'C09', 'C10', 'C11', 'C15', 'C17')


def _import_selftest():
    p = os.path.join(VERIF, 'selftest')
    if p not in sys.path:
        sys.path.insert(0, p)


def nf_crosscheck(ctx):
    if ctx.prop not in FORMULA_PROPS:
        return
    _import_selftest()
    import nf_fuzz
    st = nf_fuzz.run(seed=ctx.seed, n=300, use_sympy=True)
    ctx.extra['normaliser_crosscheck'] = {k: v for k, v in st.items() if k != 'disagreements'}
    ctx.extra['normaliser_crosscheck']['disagreements'] = len(st['disagreements'])
    if st['disagreements']:
        ctx.undecided('T.nf', 'pv/nf.py', 'canonicaliser disagrees with direct evaluation: %r' % (st['disagreements'][0],))
    else:
        ctx.holds('T.nf', 'pv/nf.py', 'canonicaliser agrees with direct double-precision evaluation on %d random terms; %d equal '
                  'rewritings recognised, %d perturbed terms told apart, sympy agreed on %d (seed %d)'
                  % (st['evaluated'], st['equal_pairs'], st['unequal_pairs'], st['sympy_agreed'], ctx.seed), nontrivial=False)


def selftest_matrix(ctx, repo):
    _import_selftest()
    import run as ST
    from concurrent.futures import ThreadPoolExecutor
    cases = [c for c in ST.CASES if ctx.prop in c['props']]
    killed, missed, silent, alarms, stale = [], [], [], [], []

    def one(c):
        c2 = dict(c)
        c2['props'] = [ctx.prop]
        return ST.run_case(c2, repo)
    with ThreadPoolExecutor(16) as ex:
        for case, status, out in ex.map(one, cases):
            if status == 'STALE':
                stale.append(case['id'])
                continue
            (_, rc, text), = out
            if case['kind'] == 'mutant':
                (killed if rc == 1 else missed).append(case['id'])
            else:
                (silent if rc == 0 else alarms).append(case['id'])
    ctx.extra['selftest'] = {'programs': len(cases), 'mutants_killed': len(killed), 'mutants_missed': missed,
                             'twins_silent': len(silent), 'twins_alarming': alarms, 'stale_snippets': stale}
    if alarms:
        ctx.undecided('T.self', 'selftest', 'behaviour-preserving twins raise an alarm: %s' % alarms)
    elif missed:
        ctx.undecided('T.self', 'selftest', 'mutants this check used to report are no longer reported: %s' % missed)
    else:
        ctx.holds('T.self', 'selftest', '%d mutants reported, %d twins silent (%d stale snippets skipped)'
                  % (len(killed), len(silent), len(stale)), nontrivial=False)


def seeded_matrix(ctx, repo):
    _import_selftest()
    import seeded as SD
    res = SD.run_all(prop=ctx.prop)
    res = [r for r in res if r[2] != 'nothing expected']
    bad = [(n, m) for n, g, m in res if not g and 'no longer applies' not in m]
    ctx.extra['seeded'] = {'changes': len(res), 'detected': sum(1 for _, g, _ in res if g),
                           'not_applicable_now': [n for n, g, m in res if not g and 'no longer applies' in m],
                           'missed': [n for n, _ in bad]}
    if bad:
        ctx.undecided('T.seed', 'seeded', 'kept seeded changes are no longer reported: %s' % bad)
    elif res:
        ctx.holds('T.seed', 'seeded', '%d independently seeded changes still reported' % len(res), nontrivial=False)


def twins_matrix(ctx, repo):
    """independently written behaviour-preserving refactorings (/verif/twins/*): this check must stay silent on each"""
    _import_selftest()
    import twins as TW
    res = TW.run_all(prop=ctx.prop)
    bad = [(n, m) for n, g, m in res if not g]
    ctx.extra['independent_twins'] = {'refactorings': len(res), 'silent': sum(1 for _, g, _ in res if g), 'not_silent': [n for n, _ in bad]}
    if bad:
        ctx.undecided('T.twin', 'twins', 'behaviour-preserving refactorings on which this check is not silent: %s' % bad)
    elif res:
        ctx.holds('T.twin', 'twins', '%d independently written behaviour-preserving refactorings leave this check silent' % len(res),
                  nontrivial=False)


def run(ctx, repo):
    ctx.run('T.nf', nf_crosscheck)
    ctx.run('T.self', selftest_matrix, repo)
    ctx.run('T.seed', seeded_matrix, repo)
    ctx.run('T.twin', twins_matrix, repo)
